"""C11 Degenerate-base tables: proofs over the regenerated tables (tie (a)) +
exhaustive correspondence of the live intersection / complement functions with the model."""
import itertools, random
import framework as fw
import cbuild

ID = "C11"
LEVEL = "proof"
THEOREMS = ["C11_compl_sound", "C11_compl_involutive", "C11_wc_involutive", "C11_inter_closed",
            "C11_copies_agree", "C11_codes_accepted"]
TRUSTED = ["harness/translate_tables.py (fail-closed ast/regex translator of the table literals, alphabets and C switches)",
           "the C table harness (#include of spuriousSSM.c with main renamed) used only by the failing-input search"]
ASSUMPTIONS = ["CPython dict/str semantics for table lookups; gcc for the search harness"]

CODES = "ATCGRYWSMKBVDHN"
PROBE = CODES + "UXa +"   # a few non-codes exercise the KeyError paths
BASES = {"A": "A", "T": "T", "C": "C", "G": "G", "R": "AG", "Y": "CT", "W": "AT", "S": "CG", "M": "AC", "K": "GT",
         "B": "CGT", "V": "ACG", "D": "AGT", "H": "ACT", "N": "ACGT"}
BCOMP = {"A": "T", "T": "A", "C": "G", "G": "C"}

def impl_case(case):
    """runs inside a worker with /repo on sys.path"""
    kind = case[0]
    from peppercompiler import DNA_classes as D
    from peppercompiler.design import constraint_load as CL, PIL_DNA_classes as P
    if kind == "inter":
        a, b = case[1], case[2]
        out = {}
        try:
            out["designer"] = ["ok", CL.intersect_groups(a, b)]
        except KeyError:
            out["designer"] = ["keyerr"]
        except ValueError:
            out["designer"] = ["empty"]
        try:
            s = D.Sequence("s", "", [(1, a)])
            s.fix_seq(b)
            out["compiler"] = ["ok", s.const]
        except KeyError:
            out["compiler"] = ["keyerr"]
        except ValueError:
            out["compiler"] = ["empty"]
        return out
    if kind == "wc":
        s = case[1]
        out = {}
        for tag, f in (("dna", D.wc), ("pil", P.seq_comp)):
            try:
                out[tag] = ["ok", f(s)]
            except KeyError:
                out[tag] = ["keyerr"]
        return out
    if kind == "mfe":
        # a design file holding one record whose sequence is the given code string, through the design-file reader
        import os, tempfile
        from peppercompiler import kinetics as K
        fd, path = tempfile.mkstemp(suffix=".mfe"); os.close(fd)
        try:
            n = len(case[1])
            with open(path, "w") as f: f.write("%d:u\n%s 0.0 0.0 0\n%s\n%s\nTotal n(s*) = 0.0" % (n, case[1], "." * n, "." * n))
            try: return {"reader": ["ok", dict(K.read_design(path)).get("u")]}
            except BaseException as e: return {"reader": ["error", type(e).__name__]}
        finally:
            os.remove(path)
    if kind == "tables":
        from peppercompiler.design import DNA_nupack_classes as N
        from peppercompiler import nupack_out_grammar as G
        return {"group": {t: dict(m.group) for t, m in (("dna", D), ("pil", P), ("nupack", N))},
                "compl": {t: dict(m.complement) for t, m in (("dna", D), ("pil", P), ("nupack", N))},
                "rev": {t: dict(m.rev_group) for t, m in (("dna", D), ("pil", P), ("nupack", N))}}

def predicate_tables(T, C):
    """The property, evaluated directly on the live tables (T) and the compiled C functions (C).
    Returns list of (key, summary)."""
    bad = []
    for t in ("dna", "pil", "nupack"):
        g, c = T["group"][t], T["compl"][t]
        for code in sorted(set(g) | set(c)):
            if code not in g or code not in c:
                bad.append(("missing:%s:%s" % (t, code), "code %r is not in both group and complement of the %s tables" % (code, t))); continue
            cc = c[code]
            if cc not in g or set(g[cc]) != set(BCOMP[b] for b in g[code]):
                bad.append(("compl_sound:%s:%s" % (t, code), "%s: complement[%s]=%s does not denote the complements of %s" % (t, code, cc, g[code])))
            if c.get(cc) != code:
                bad.append(("compl_invol:%s:%s" % (t, code), "%s: complement[complement[%s]] = %r" % (t, code, c.get(cc))))
        for a, b in itertools.product(sorted(g), repeat=2):
            inter = "".join(sorted(set(g[a]) & set(g[b])))
            if inter and inter not in T["rev"][t]:
                bad.append(("inter:%s:%s%s" % (t, a, b), "%s: %s and %s share %s, which is no code (rev_group)" % (t, a, b, inter)))
    for t in ("pil", "nupack"):
        if T["group"][t] != T["group"]["dna"] or T["compl"][t] != T["compl"]["dna"]:
            diff = sorted(set(T["group"][t].items()) ^ set(T["group"]["dna"].items())) + sorted(set(T["compl"][t].items()) ^ set(T["compl"]["dna"].items()))
            bad.append(("copies:%s" % t, "the %s copy differs from DNA_classes at %r" % (t, diff[:4])))
    if C is not None:
        g, c = T["group"]["dna"], T["compl"]["dna"]
        for code in sorted(set(g) | set(k for k, v in C["wc"].items() if v != " ")):
            if C["wc"].get(code, " ") != c.get(code, " "):
                bad.append(("c_wc:%s" % code, "spuriousSSM WC(%s)=%r but the Python tables say %r" % (code, C["wc"].get(code), c.get(code))))
        degpairs = set(C["deg"].split(" "))
        want = set(k + b for k in g for b in g[k])
        if degpairs != want:
            bad.append(("c_deg", "spuriousSSM degenerates differs from the Python group table at %r" % sorted(degpairs ^ want)[:6]))
        for code in sorted(set(g) | set(k for k, v in C["rb"].items() if v.strip())):
            if "".join(sorted(C["rb"].get(code, " ").strip())) != "".join(sorted(g.get(code, ""))):
                bad.append(("c_rb:%s" % code, "spuriousSSM randbasec(%s) draws from %r, Python group is %r" % (code, C["rb"].get(code), g.get(code))))
    return bad

def run(tier, seed, build):
    rng = random.Random(seed)
    failures = []
    # 1. exhaustive intersection correspondence
    pairs = [("inter", a, b) for a in PROBE for b in PROBE]
    nstr = 300 if tier == "quick" else 5000
    strs = []
    for i in range(nstr):
        n = rng.choice([0, 1, 2, 3, 5, 8, 13, 40])
        alpha = CODES if rng.random() < 0.85 else PROBE
        strs.append(("wc", "".join(rng.choice(alpha) for _ in range(n))))
    cases = pairs + strs
    # every code first, last and alone in a record of a design file, and the random code strings: the reader must accept them
    mfes = [("mfe", x) for c in CODES for x in (c, c + "A", "A" + c, "AC" + c + "GT")] + [("mfe", x[1]) for x in strs[:100] if x[1] and all(ch in BASES for ch in x[1])]
    impl_all = fw.run_impl("props.c11", "impl_case", cases + mfes + [("tables",)])
    impl = impl_all[:len(cases)] + [impl_all[-1]]
    for c, r in zip(mfes, impl_all[len(cases):-1]):
        if not isinstance(r, dict) or r.get("reader") != ["ok", c[1]]:
            failures.append({"kind": "predicate", "key": "reader:" + c[1][:12], "summary": "the design-file reader does not accept the code string %r: %r" % (c[1], r),
                             "replay": {"input": list(c), "reproduce": "a .mfe with the single record `u` = %s through peppercompiler.kinetics.read_design" % c[1]}})
    T = impl[-1]
    model = fw.run_model([["C11", ["inter", c[1], c[2]]] if c[0] == "inter" else ["C11", ["wc", c[1]]] for c in cases])
    nontrivial = set()
    for c, m, r in zip(cases, model, impl):
        if not isinstance(r, dict) or "outcome" in r:
            failures.append({"kind": "disagreement", "key": "impl-crash:%s" % (c,), "summary": "implementation runner failed on %r: %r" % (c, r), "replay": {"case": c}})
            continue
        for tag, v in r.items():
            if list(v) != list(m):
                shares = c[0] == "inter" and c[1] in BASES and c[2] in BASES and set(BASES[c[1]]) & set(BASES[c[2]])
                f = {"kind": "predicate" if shares or c[0] == "wc" and all(ch in BASES for ch in c[1]) else "disagreement",
                     "key": "%s:%s:%s" % (c[0], tag, "".join(c[1:])),
                     "summary": "%s of %r by the %s code gives %r, the code algebra requires %r" % (
                         "intersection" if c[0] == "inter" else "reverse complement", c[1:], tag, v, m),
                     "replay": {"input": list(c), "expected": m, "observed": v, "component": tag,
                                "reproduce": "cd /repo && /venv/bin/python -c \"from peppercompiler.design.constraint_load import intersect_groups as i; from peppercompiler.DNA_classes import Sequence as S, wc; print(...)\"  # case %r" % (c,)}}
                failures.append(f)
        if c[0] == "inter" and m[0] == "ok" and m[1] not in (c[1], c[2]):
            nontrivial.add(tuple(c))
        if c[0] == "wc" and len(c[1]) >= 2 and m[0] == "ok" and m[1] != c[1]:
            nontrivial.add(tuple(c))
    # 2. the property predicate on live tables and the compiled C
    C = None
    cnote = ""
    try:
        C = cbuild.c_tables()
    except Exception as e:
        cnote = "C harness unavailable: %s" % e
        failures.append({"kind": "tie", "key": "c-harness", "summary": cnote, "replay": {}})
    for key, summ in predicate_tables(T, C):
        failures.append({"kind": "predicate", "key": key, "summary": summ,
                         "replay": {"input": key, "reproduce": "cd /verif && harness/check.py C11   # evaluates the table predicates on /repo's live modules and compiled C"}})
    return {"evaluations": len(cases) + len(mfes) + 1, "distinct_nontrivial": len(nontrivial),
            "rule": "exhaustive: every ordered pair over the 15 codes + 5 non-codes through constraint_load.intersect_groups and Sequence.fix_seq; random code strings through both wc functions; plus the table predicates on the live module dicts and on WC/degenerates/randbasec of a C harness built from the working tree. Non-trivial = intersection that is a third code, or a reverse complement of length>=2 differing from its input",
            "samples": [list(c) for c in cases[:3]] + [list(c) for c in strs[:3]],
            "distribution": {"pairs": len(pairs), "strings": len(strs), "c_harness": "ok" if C else cnote},
            "failures": failures, "exhaustive": True, "gen_needed": ["Base/TablesGen.v"],
            "notes": "theorems are stated over Base/TablesGen.v, regenerated from the source on this run"}

def replay(path):
    import json
    r = json.load(open(path))
    print("replay of", r.get("summary"))
    res = run("quick", r.get("seed", 1), {"gen": {}})
    hit = [f for f in res["failures"] if f["summary"] == r.get("summary")]
    print("still failing" if hit else "no longer failing")
    return 1 if hit else 0
