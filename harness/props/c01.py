"""C01 compiled PIL preserves the component: theorems about the compile/emit model +
correspondence on generated component programs + the denotation predicate on the real output."""
import random
import framework as fw
import pepper

ID = "C01"
LEVEL = "proof"
THEOREMS = ["C01_emit_defs", "C01_emit_strands", "C01_emit_named_sup", "C01_emit_named_base", "C01_emit_names", "C01_flat_rc", "C01_wf_check_sound", "C01_compile_wf", "C01_compile_emit", "C01_strand_written", "C01_sup_written", "C01_seq_written", "C01_struct_written", "C01_kin_written"]
TRUSTED = ["harness/pepper.py: printer of component ASTs to .comp text (random spelling), reader of .pil text, Python transcription of the denotations used by the failing-input search",
           "the regex layer of component_parser_regex.py is exercised, not modelled"]
ASSUMPTIONS = ["kinetic rate brackets use the `k > x` form only (a `<` inside a .comp line is taken for an <expression> by var_substitute)"]

def impl_case(case):
    import implrun
    r = implrun.compile_files({"prog.comp": case["text"]}, "prog")
    if r["outcome"] == "ok":
        try:
            r["lines"] = pepper.read_pil(r["text"])
        except ValueError as e:
            r["lines"] = None; r["unreadable"] = str(e)
        del r["text"]
    return r

def gen_cases(rng, n, allow_zero=True, density=None):
    cases = []
    for i in range(n):
        prog = pepper.CompGen(rng, name="prog", allow_zero=allow_zero and rng.random() < 0.8, density=density).build()
        cases.append({"prog": prog, "text": pepper.comp_text(rng, prog)})
    return cases

def features(prog):
    f = set()
    for st in prog["body"]:
        if st[0] in ("seq", "strand"):
            items = st[2] if st[0] == "seq" else st[3]
            for it in items:
                if it[0] == "dom": f.add("domains()")
                if it[0] != "nuc" and it[2]: f.add("complement")
                if it[0] == "nuc" and any(p[0] == "?" for p in it[1]): f.add("wildcard")
                if it[0] == "nuc" and len(items) > 1: f.add("anonymous")
        if st[0] == "struct":
            f.add("struct-" + ("domain" if st[4] else st[5][0]))
        if st[0] == "kin": f.add("kinetic")
    return f

def compare(case, m, r, pid="C01"):
    """returns list of failures for one case"""
    prog = case["prog"]
    fails = []
    if "outcome" not in r or r["outcome"] not in ("ok", "rejected"):
        return [{"kind": "disagreement", "key": "impl-run", "summary": "implementation runner: %r" % (r,), "replay": {"text": case["text"]}}]
    spec = pepper.den_src(prog, "", r["ctr0"])
    rep = {"files": {"prog.comp": case["text"]}, "api": "compiler.compiler('prog', [], 'out.pil', 'out.save', None, True, None)",
           "reproduce": "cd <dir with prog.comp> && PYTHONPATH=/repo /venv/bin/python -c \"from peppercompiler.compiler import compiler; compiler('prog',[], 'out.pil','out.save',None,True,None)\""}
    if r["outcome"] == "ok":
        if r.get("lines") is None:
            fails.append({"kind": "predicate", "key": "unreadable", "summary": "the emitted .pil is not well formed: %s" % r.get("unreadable"), "replay": rep})
        else:
            try:
                got = pepper.den_pil(r["lines"])
            except ValueError as e:
                got = None
                fails.append({"kind": "predicate", "key": "pil-illformed:" + str(e)[:40], "summary": "the emitted .pil is not well formed: %s" % e, "replay": rep})
            if got is not None and spec is not None:
                for part in ("doms", "named", "strands", "structs", "kins"):
                    if got[part] != spec[part]:
                        a, b = got[part], spec[part]
                        if isinstance(a, dict):
                            diff = [k for k in set(a) | set(b) if a.get(k) != b.get(k)][:3]
                        else:
                            diff = [x for x in a if x not in b][:2] + [x for x in b if x not in a][:2]
                        fails.append({"kind": "predicate", "key": "den-%s" % part,
                                      "summary": "the emitted .pil does not denote the source design: %s differ at %r" % (part, diff),
                                      "replay": dict(rep, expected=str({k: b.get(k) for k in diff} if isinstance(b, dict) else b)[:1500], observed=str({k: a.get(k) for k in diff} if isinstance(a, dict) else a)[:1500])})
                        break
            elif got is not None and spec is None:
                pass   # accepted although the spec calls it ill-formed: decided by the model comparison below (C09's subject)
    # model vs implementation
    if m[0] == "Ok":
        ml = pepper.canon_model_lines(m[1][1])
        if len(m[1]) > 4 and m[1][4] != "T":
            fails.append({"kind": "tie", "key": "names-nostar", "summary": "a generated program has a sequence or structure name containing '*': the name hypothesis of the composed C06 / C14 theorems (what the statement grammar yields) does not hold of it", "replay": rep})
        if len(m[1]) > 2 and m[1][2] != "T":
            fails.append({"kind": "tie", "key": "wf-hypothesis", "summary": "the verified checker wf_check rejects the model's component object: the hypothesis WF of the emission theorems is not established for this program", "replay": rep})
        if r["outcome"] != "ok":
            fails.append({"kind": "disagreement", "key": "model-accepts", "summary": "model compiles the program, implementation rejects it: %s" % r.get("error", "")[:150], "replay": rep})
        elif r.get("lines") is not None and ml != r["lines"]:
            d = [(a, b) for a, b in zip(ml, r["lines"]) if a != b][:2] or [("line count", len(ml), len(r["lines"]))]
            fails.append({"kind": "disagreement", "key": "lines", "summary": "model and implementation emit different PIL: %r" % (d,), "replay": dict(rep, model=str(ml)[:1500])})
        elif int(m[1][0]) != r["ctr1"]:
            fails.append({"kind": "disagreement", "key": "counter", "summary": "anonymous counter after compile: model %s, implementation %s" % (m[1][0], r["ctr1"]), "replay": rep})
    else:
        if r["outcome"] == "ok":
            fails.append({"kind": "disagreement", "key": "model-rejects:" + str(m[1]), "summary": "model rejects the program (%s), implementation compiles it" % m[1], "replay": rep})
    return fails

def run(tier, seed, build, pid="C01"):
    rng = random.Random(seed * 1009 + 1)
    n = 400 if tier == "quick" else 5000
    cases = gen_cases(rng, n)
    for i, c in enumerate(cases):      # every seventh program reaches two of its multipliers through a re-assigned `length` variable
        if i % 7 == 3: c["text"] = pepper.lengthify(random.Random(seed * 7919 + i), c["text"])
    impl = fw.run_impl("props.c01", "impl_case", [{"text": c["text"]} for c in cases])
    reqs = [["comp", [r.get("ctr0", 0), "", c["prog"]["decl"], c["prog"]["body"]]] for c, r in zip(cases, impl)]
    model = fw.run_model(reqs)
    failures = []; dist = {"accepted": 0, "rejected": 0, "features": {}, "statements": {}}
    nontrivial = set()
    for c, m, r in zip(cases, model, impl):
        fs = compare(c, m, r)
        failures += fs
        dist["accepted" if r.get("outcome") == "ok" else "rejected"] += 1
        f = features(c["prog"])
        for x in f: dist["features"][x] = dist["features"].get(x, 0) + 1
        k = str(len(c["prog"]["body"])); dist["statements"][k] = dist["statements"].get(k, 0) + 1
        if r.get("outcome") == "ok" and ({"complement", "domains()", "wildcard", "anonymous"} & f):
            nontrivial.add(c["text"])
    return {"evaluations": len(cases), "distinct_nontrivial": len(nontrivial),
            "rule": "component ASTs generated bottom-up (base sequences over all 15 codes with multipliers 0.. and at most one '?', super-sequences over earlier names with stars, domains(), anonymous regions, strands with [dummy], structures in plain / run-length / HU / domain-level notation, kinetics, ports), printed with random spelling; compiled by compiler.compiler(synth=True). Non-trivial = accepted and uses a complement, domains(), a wildcard or an anonymous region; every seventh text reaches two of its quoted multipliers through a `length` variable that is re-assigned between the uses",
            "samples": [c["text"] for c in cases[:2]], "distribution": dist, "failures": failures}

def replay(path):
    import json
    r = json.load(open(path))
    text = r["files"]["prog.comp"]
    print("replay is a .comp program; re-run the check to re-evaluate (the AST is regenerated from the seed):", path)
    return 0
