"""C10 wildcards and declared lengths: theorems on get_length_const / build_super +
correspondence over constraint lists x declared lengths, incl. the explicit-spelling comparison."""
import copy, random, re
import framework as fw
import pepper
from props import c01

ID = "C10"
LEVEL = "proof"
THEOREMS = ["C10_wild_exact", "C10_nowild_exact", "C10_order_kept", "C10_wild_rejects",
            "C10_composite_wild_position", "C10_composite_two_wild_rejected", "C10_composite_wild_exact", "C10_composite_written_order"]
TRUSTED = c01.TRUSTED + ["object dump read back from the .save file (pickle) to observe seqs / base_seqs"]
ASSUMPTIONS = c01.ASSUMPTIONS

def gen_parts(rng, nwild):
    k = rng.choice([1, 2, 3, 4, 6, 8])
    parts = [[rng.choice([0, 1, 1, 2, 3, 5, 7]), rng.choice(pepper.CODES)] for _ in range(k)]
    for i in rng.sample(range(k), min(nwild, k)):
        parts[i][0] = "?"
    return parts

def gen_case(rng):
    """a small program with one statement under test (the last sequence / strand statement)"""
    body = [["seq", "x", [["nuc", [[3, "N"]]]], None], ["seq", "z", [["nuc", [[0, "N"]]]], None],
            ["seq", "y", [["ref", "x", False], ["ref", "x", True]], None],
            ["seq", "w", [["ref", "y", True], ["nuc", [[2, "S"]]], ["ref", "z", False]], None]]
    lens = {"x": 3, "z": 0, "y": 6, "w": 8}
    kind = rng.choice(["base", "base", "sup", "strand", "strand"])
    nwild = rng.choice([0, 1, 1, 1, 2])
    if kind == "base":
        parts = gen_parts(rng, nwild)
        fixed = pepper.parts_len(parts, 0)
        L = rng.choice([None, None] + list(range(0, fixed + 4)) + [fixed, fixed + 2])
        body.append(["seq", "q", [["nuc", parts]], ["Some", L] if L is not None else None])
    else:
        k = rng.choice([1, 2, 3, 4, 5])
        items = []; fixed = 0; wild_idx = []
        for i in range(k):
            r = rng.random()
            if r < 0.5:
                n = rng.choice(["x", "y", "w", "z"]); items.append(["ref", n, rng.random() < 0.4]); fixed += lens[n]
            elif r < 0.6:
                n = rng.choice(["y", "w"]); items.append(["dom", n, rng.random() < 0.4]); fixed += lens[n]
            else:
                w = 1 if (nwild > len(wild_idx) and rng.random() < 0.6) else 0
                parts = gen_parts(rng, w)
                if w: wild_idx.append(i)
                items.append(["nuc", parts]); fixed += pepper.parts_len(parts, 0)
        if len(items) == 1 and items[0][0] == "nuc" and kind == "sup":
            items.append(["ref", "y", False]); fixed += 6
        L = rng.choice([None, None] + list(range(max(0, fixed - 2), fixed + 5)) + [fixed])
        if kind == "sup":
            body.append(["seq", "q", items, ["Some", L] if L is not None else None])
        else:
            body.append(["strand", rng.random() < 0.2, "q", items, ["Some", L] if L is not None else None])
    prog = {"decl": ["prog", [], []], "body": body}
    return prog

def explicit(prog):
    """the same program with every '?' written as the number the spec says it denotes (None if ill-formed or no '?')"""
    st = prog["body"][-1]
    items = st[2] if st[0] == "seq" else st[3]
    decl = st[3] if st[0] == "seq" else st[4]
    if decl is None: return None
    L = decl[1]
    wild = [(i, j) for i, it in enumerate(items) if it[0] == "nuc" for j, p in enumerate(it[1]) if p[0] == "?"]
    if len(wild) != 1: return None
    lens = {"x": 3, "z": 0, "y": 6, "w": 8}
    fixed = sum(lens[it[1]] if it[0] != "nuc" else pepper.parts_len(it[1], 0) for it in items)
    if L < fixed: return None
    p2 = copy.deepcopy(prog)
    st2 = p2["body"][-1]
    items2 = st2[2] if st2[0] == "seq" else st2[3]
    i, j = wild[0]
    items2[i][1][j][0] = L - fixed
    return p2

def impl_case(case):
    import implrun
    out = {}
    for tag in ("text", "text_explicit"):
        if case.get(tag) is None: continue
        r = implrun.compile_files({"prog.comp": case[tag]}, "prog", objects=True)
        if r["outcome"] == "ok":
            try:
                r["lines"] = pepper.read_pil(r["text"])
            except ValueError as e:
                r["lines"] = None; r["unreadable"] = str(e)
            del r["text"]
        out[tag] = r
    return out

def rename_anon(den, start):
    """consistent renumbering of anonymous domains by the order of their `sequence` lines
    (= their position in the items, the same for a '?' spelling and its explicit spelling)"""
    names = [n for n in den["doms"] if "_Anon" in n]
    mp = {n: "_@%d" % i for i, n in enumerate(names)}
    def nm(x): return mp.get(x, x)
    def nts(l): return [(nm(d), i, r) for (d, i, r) in l]
    return {"doms": {nm(k): v for k, v in den["doms"].items()},
            "named": {nm(k): nts(v) for k, v in den["named"].items()},
            "strands": {k: (v[0], nts(v[1])) for k, v in den["strands"].items()},
            "structs": den["structs"], "kins": den["kins"]}

def model_objs(m):
    def ref(x): return [x[0], x[1], x[2] == "T"]
    def sup(e): return [e[0], {"seqs": [ref(x) for x in e[1]], "base": [[x[0], x[1] == "T"] for x in e[2]], "len": int(e[3])}]
    o = m[1][3]
    return {"sups": [sup(e) for e in o[0]], "strands": [sup(e) for e in o[1]], "bases": [[e[0], e[1], int(e[2])] for e in o[2]]}

def run(tier, seed, build):
    rng = random.Random(seed * 613 + 10)
    n = 1500 if tier == "quick" else 30000
    cases = []
    for i in range(n):
        prog = gen_case(rng)
        ex = explicit(prog)
        cases.append({"prog": prog, "text": pepper.comp_text(rng, prog), "ex": ex, "text_explicit": pepper.comp_text(rng, ex) if ex else None})
    # once per run (appended, so the cases above stay as they were): a quoted region of a composite with two wildcards, the declared
    # length leaving exactly the region's fixed parts, or more
    helpers = gen_case(random.Random(0))["body"][:4]
    for k, (kind, items, L) in enumerate([("strand", [["ref", "x", False], ["nuc", [["?", "N"], [2, "T"], ["?", "A"]]], ["ref", "w", False]], 13),
                                          ("strand", [["ref", "x", False], ["nuc", [["?", "N"], [2, "T"], ["?", "A"]]], ["ref", "w", False]], 16),
                                          ("sup", [["nuc", [["?", "N"], ["?", "N"]]], ["ref", "y", False]], 6),
                                          ("sup", [["ref", "y", True], ["nuc", [[1, "S"], ["?", "N"], ["?", "W"]]]], 7)]):
        st = ["seq", "q", items, ["Some", L]] if kind == "sup" else ["strand", False, "q", items, ["Some", L]]
        prog = {"decl": ["prog", [], []], "body": copy.deepcopy(helpers) + [st]}
        cases.append({"prog": prog, "text": pepper.comp_text(random.Random(seed * 17 + k), prog), "ex": None, "text_explicit": None})
    impl = fw.run_impl("props.c10", "impl_case", [{"text": c["text"], "text_explicit": c["text_explicit"]} for c in cases])
    reqs = [["comp", [r["text"].get("ctr0", 0) if isinstance(r, dict) and "text" in r else 0, "", c["prog"]["decl"], c["prog"]["body"]]] for c, r in zip(cases, impl)]
    model = fw.run_model(reqs)
    failures = []; nontrivial = set()
    dist = {"accepted": 0, "rejected": 0, "wildcards": {"0": 0, "1": 0, "2+": 0}, "kind": {}, "explicit_compared": 0}
    for c, m, rr in zip(cases, model, impl):
        if not isinstance(rr, dict) or "text" not in rr:
            failures.append({"kind": "disagreement", "key": "impl-run", "summary": "runner failed: %r" % (rr,), "replay": {"text": c["text"]}}); continue
        r = rr["text"]
        st = c["prog"]["body"][-1]
        items = st[2] if st[0] == "seq" else st[3]
        nw = sum(1 for it in items if it[0] == "nuc" for p in it[1] if p[0] == "?")
        dist["wildcards"]["0" if nw == 0 else "1" if nw == 1 else "2+"] += 1
        kind = "strand" if st[0] == "strand" else ("base" if len(items) == 1 and items[0][0] == "nuc" else "sup")
        dist["kind"][kind] = dist["kind"].get(kind, 0) + 1
        dist["accepted" if r.get("outcome") == "ok" else "rejected"] += 1
        fs = c01.compare({"prog": c["prog"], "text": c["text"]}, m, r)
        spec = pepper.den_src(c["prog"], "", r.get("ctr0", 0))
        rep = {"files": {"prog.comp": c["text"]}, "reproduce": "compile prog.comp with compiler.compiler('prog',[], 'out.pil','out.save',None,True,None)"}
        if spec is None and r.get("outcome") == "ok":
            fs.append({"kind": "predicate", "key": "accepted-illformed", "summary": "a constraint list that must be rejected (several wildcards, wildcard without length, negative remainder or length mismatch) is accepted: %s" % pepper.stmt_text(random.Random(0), st), "replay": rep})
        if spec is not None and r.get("outcome") != "ok":
            fs.append({"kind": "predicate", "key": "rejected-wellformed", "summary": "a well-formed statement is rejected: %s (%s)" % (pepper.stmt_text(random.Random(0), st), r.get("error", "")[:100]), "replay": rep})
        # objects: seqs / base_seqs position of the wildcard region
        if m[0] == "Ok" and r.get("outcome") == "ok" and "objects" in r:
            mo = model_objs(m)
            if mo != r["objects"]:
                which = [k for k in mo if mo[k] != r["objects"][k]]
                fs.append({"kind": "predicate" if spec is not None else "disagreement", "key": "objects-" + which[0],
                           "summary": "item / base-sequence lists of the compiled objects differ from the written order (%s): implementation %r, required %r" % (
                               which[0], [x for x in r["objects"][which[0]] if x not in mo[which[0]]][:2], [x for x in mo[which[0]] if x not in r["objects"][which[0]]][:2]),
                           "replay": rep})
        # identical to writing the number explicitly
        if c["ex"] is not None and "text_explicit" in rr and r.get("outcome") == "ok":
            r2 = rr["text_explicit"]
            dist["explicit_compared"] += 1
            if r2.get("outcome") != "ok" or r2.get("lines") is None:
                fs.append({"kind": "predicate", "key": "explicit-rejected", "summary": "the explicit spelling of a wildcard statement is rejected", "replay": dict(rep, explicit=c["text_explicit"])})
            elif r.get("lines") is not None:
                try:
                    d1 = rename_anon(pepper.den_pil(r["lines"]), 0); d2 = rename_anon(pepper.den_pil(r2["lines"]), 0)
                    if d1 != d2:
                        fs.append({"kind": "predicate", "key": "explicit-differs", "summary": "a '?' statement does not compile like its explicit spelling", "replay": dict(rep, explicit=c["text_explicit"])})
                except ValueError:
                    pass
        failures += fs
        if nw >= 1: nontrivial.add(c["text"])
    return {"evaluations": len(cases), "distinct_nontrivial": len(nontrivial),
            "rule": "one statement under test (base sequence, super-sequence or strand) over helper sequences incl. a zero-length one and nested super-sequences with two base sequences; 1-8 parts with multipliers 0..7, 0/1/2 wildcards at random positions (also inside quoted regions of composites), declared length absent or in [sum-2, sum+4]; each single-wildcard case is also compiled in its explicit spelling and compared modulo anonymous numbering; seqs/base_seqs read back from the .save. Non-trivial = contains a wildcard",
            "samples": [c["text"] for c in cases[:3]], "distribution": dist, "failures": failures}

def replay(path):
    print("re-run the check; cases are regenerated from the seed"); return 0
