"""C16 saved state reloads to the same system: partial theorem + save/reload round trips in fresh
processes with canonical object-graph dumps, .pil cross-check and finishing both ways."""
import json, os, random, re, shutil, subprocess
import framework as fw
import pepper
from props import c02, c12, c17, c18

ID = "C16"
LEVEL = "proof"
THEOREMS = ["C16_pil_lines_match_objects_partial", "C16_system_lines_match_objects_partial"]
TRUSTED = c02.TRUSTED + ["harness/hist_worker.py: captures the in-memory system by wrapping compiler.save (no source hook), dumps canonical object graphs, reloads in a second fresh interpreter"]
ASSUMPTIONS = ["object graphs are compared up to identity classes (not addresses); dict ordering of the tables is part of the dump"]

def pil_tables(text):
    """name -> (kind, length, extra) from the .pil of the same compile"""
    out = {}
    for l in pepper.read_pil(text):
        if l[0] == "sequence": out[("seq", l[1])] = (l[3], l[2])
        elif l[0] == "sup-sequence": out[("seq", l[1])] = (l[3], None)
        elif l[0] == "strand": out[("strand", l[2])] = (l[4], l[1])
        elif l[0] == "structure": out[("struct", l[2])] = (len(l[4].replace("+", "")), l[4])
    return out

def port_struct(case):
    """some component used by the system declares an input port with a structure (`x(S) -> ..`)"""
    g = case.get("_gen")
    if g is None: return False
    for it in g.items.values():
        if it["kind"] == "comp" and any(p[2] for p in it["prog"]["decl"][1]):
            return True
    return False

SIGNAL_ONLY = {
    "files": {"gate.comp": "declare component gate: x -> y\nsequence x = \"8N\"\nsequence y = \"8N\"\nstrand In = x : 8\nstrand Out = y x* : 16\nstructure IN = In : 8.\nstructure G = Out : 16.\n",
              "inner.sys": "declare system inner: a -> c\nimport gate\ncomponent g1 = gate: a -> m\ncomponent g2 = gate: m -> c\n",
              "top.sys": "declare system top: p -> r\nimport inner\nimport gate\ncomponent s1 = inner: p -> q\ncomponent g3 = gate: q -> r\n"},
    "includes": [], "base": "top", "args": []}
SIGNAL_ONLY_FIXED = "signal p = ACGTSNGT\n"     # the only entry: a signal of the top system that is bound to nothing but a signal of a sub-system

def ladder_program(k):
    """k strands, each sharing a domain with the next (a staple / tile-chain topology): s_i = d_i d_{i+1}*"""
    body = [["seq", "d%d" % i, [["nuc", [[4, "N"]]]], None] for i in range(k + 1)]
    body += [["strand", False, "s%d" % i, [["ref", "d%d" % i, False], ["ref", "d%d" % (i + 1), True]], None] for i in range(k)]
    body.append(["struct", 1, "X0", ["s0"], False, ["ext", [[8, "."]]]])
    return {"decl": ["prog", [], []], "body": body}

def run(tier, seed, build):
    rng = random.Random(seed * 283 + 16)
    n = 14 if tier == "quick" else 150
    wd = fw.workdir("c16")
    failures = []; nontrivial = set()
    dist = {"round_trips": 0, "with_fixed": 0, "with_dummy_strand": 0, "earlier_compiles": {}, "finished_both_ways": 0, "objects_compared": 0}
    samples = []
    forced_port_struct = False
    try:
        for ti in range(n):
            ladder = (ti == 1); forced_now = False
            if ladder:      # once per run: a large component whose strands form a long chain through shared domains
                prog = ladder_program(400 if tier == "quick" else 1500)
                target = {"files": {"prog.comp": pepper.comp_text(random.Random(ti), prog)}, "includes": [], "base": "prog", "args": [], "_prog": prog}
            elif ti == 2:   # once per run: a nested system whose fixed file holds nothing but a signal routed through a sub-system
                target = dict(SIGNAL_ONLY, files=dict(SIGNAL_ONLY["files"]))
            elif rng.random() < 0.5:
                prog = pepper.sat_component(rng, name="prog", allow_zero=rng.random() < 0.4)
                if rng.random() < 0.6:
                    # a dummy strand marked [dummy]
                    strands = [st for st in prog["body"] if st[0] == "strand"]
                    if strands: rng.choice(strands)[1] = True
                target = {"files": {"prog.comp": pepper.comp_text(rng, prog)}, "includes": [], "base": "prog", "args": [], "_prog": prog}
            else:
                target = c02.gen_case(rng)
                if not forced_port_struct:       # once per run: an acceptable system in which some component input port carries a structure
                    def acceptable(t):
                        try: return pepper.expected_system_den(t["_gen"], t["_top"], t["args"], 0)[0] is not None
                        except (ValueError, KeyError, ZeroDivisionError, TypeError): return False
                    for _ in range(600):
                        if port_struct(target) and acceptable(target): break
                        target = c02.gen_case(rng)
                    forced_port_struct = True; forced_now = True
            root = os.path.join(wd, "t%d" % ti); c18.write_project(root, target["files"])
            try:
                if "_prog" in target:
                    den = pepper.den_src(target["_prog"], "", 0); den["equals"] = []
                elif "_gen" not in target:
                    den = None
                else:
                    den, _ = pepper.expected_system_den(target["_gen"], target["_top"], target["args"], 0)
            except (ValueError, KeyError, ZeroDivisionError, TypeError):
                den = None
            fixed = None
            if den is not None and rng.random() < 0.5 and not ladder and not forced_now:      # (the ladder must compile: no fixed file, whose entries may be wrong on purpose)
                ents = [e for e in c12.gen_fixed(rng, den) if "_Anon" not in e[1]]
                open(os.path.join(root, "fix.fixed"), "w").write(c12.fixed_text(rng, ents)); fixed = "fix.fixed"; dist["with_fixed"] += 1
            if ti == 2:
                open(os.path.join(root, "fix.fixed"), "w").write(SIGNAL_ONLY_FIXED); fixed = "fix.fixed"; dist["with_fixed"] += 1
            if "[dummy]" in "".join(target["files"].values()): dist["with_dummy_strand"] += 1
            nearlier = rng.choice([0, 1, 3, 5])
            dist["earlier_compiles"][str(nearlier)] = dist["earlier_compiles"].get(str(nearlier), 0) + 1
            jobs = []
            for k in range(nearlier):
                o = c02.gen_case(rng); r = os.path.join(wd, "t%d_o%d" % (ti, k)); c18.write_project(r, o["files"])
                jobs.append({"cwd": r, "base": o["base"], "args": o["args"], "includes": o["includes"] or None, "synth": True, "out": "o.pil", "save": "o.save"})
            # first process: compile (and produce a design so both sides can be finished)
            jobs.append({"cwd": root, "base": target["base"], "args": target["args"], "includes": target["includes"] or None, "synth": True,
                         "fixed": fixed, "out": "out.pil", "save": "out.save", "dump": True})
            res, err = c18.run_history(wd, jobs, rng.choice([0, 1, 7]))
            dist["round_trips"] += 1
            rep = {"files": target["files"], "fixed": open(os.path.join(root, "fix.fixed")).read() if fixed else None, "earlier_compiles": nearlier,
                   "reproduce": "compile in one interpreter (after the earlier compiles), load out.save in a fresh one (harness/hist_worker.py), compare dump_graph of both"}
            if ladder: rep["files"] = {"prog.comp": "(props.c16.ladder_program(%d): sequences d0..dK of 4 nt, strands s_i = d_i d_{i+1}*)" % (400 if tier == "quick" else 1500)}
            if res is None:
                failures.append({"kind": "disagreement", "key": "worker", "summary": "history worker failed: " + err, "replay": rep}); continue
            r1 = res[-1]
            if r1.get("outcome") != "ok" or "memory_dump" not in r1:
                if ladder:
                    failures.append({"kind": "predicate", "key": "save-fails", "summary": "a valid component of many chained strands cannot be compiled and saved: %s" % str(r1.get("error", r1))[:300], "replay": rep})
                continue
            # a design for this program, produced from the .pil (in this harness process)
            import implrun
            a, conv = implrun.designer_arrays(os.path.join(root, "out.pil"), False)
            mfe = None
            if a["outcome"] == "ok":
                nts = implrun.fill_design(a["eq"], a["wc"], a["st"], random.Random(ti))
                try:
                    conv.process_results(nts); conv.output(os.path.join(root, "out.mfe"), findmfe=False); mfe = os.path.join(root, "out.mfe")
                except BaseException:
                    mfe = None
            # memory-side finish needs the in-memory object: rerun the compile process with finish_mfe (same history)
            if mfe:
                jobs[-1]["finish_mfe"] = mfe
                res2, err = c18.run_history(wd, jobs, 0)
                r1b = res2[-1] if res2 else {}
            else:
                r1b = {}
            # second, fresh process: reload only
            p = subprocess.run([fw.PY, os.path.join(fw.HERE, "hist_worker.py")],
                               input=json.dumps({"repo": fw.REPO, "jobs": [], "reload": {"save": os.path.join(root, "out.save"), "mfe": mfe}}),
                               stdout=subprocess.PIPE, stderr=subprocess.PIPE, text=True, env=dict(os.environ, PYTHONPATH=fw.REPO, PYTHONHASHSEED=str(rng.choice([0, 3, 9]))), timeout=120, cwd=wd)
            if p.returncode != 0:
                failures.append({"kind": "predicate", "key": "reload-fails", "summary": "the .save file cannot be reloaded in a fresh process: " + p.stderr[-300:], "replay": rep}); continue
            r2 = json.loads(p.stdout)[-1]
            mem, rel = r1["memory_dump"], r2["reloaded_dump"]
            dist["objects_compared"] += len(mem["objects"])
            nontrivial.add(ti)
            if mem != rel:
                what = "tables" if mem["tables"] != rel["tables"] else "components" if mem["components"] != rel["components"] else "objects" if mem["objects"] != rel["objects"] else "attributes"
                detail = ""
                if what == "attributes":
                    for a_, b_ in zip(mem["full"], rel["full"]):
                        if a_ != b_:
                            da, db = dict(a_["attrs"]), dict(b_["attrs"])
                            detail = "%s object %d: %r" % (a_.get("class"), a_.get("id"), {k: (str(da.get(k, "<absent>"))[:80], str(db.get(k, "<absent>"))[:80]) for k in set(da) | set(db) if da.get(k, "<absent>") != db.get(k, "<absent>")}); break
                    else:
                        detail = "object counts %d vs %d" % (len(mem["full"]), len(rel["full"]))
                if what == "objects":
                    for a_, b_ in zip(mem["objects"], rel["objects"]):
                        if a_ != b_:
                            detail = "%s %s: %r" % (a_.get("class"), a_.get("full_name"), {k: (a_.get(k), b_.get(k)) for k in set(a_) | set(b_) if a_.get(k) != b_.get(k)}); break
                failures.append({"kind": "predicate", "key": "graph-" + what, "summary": "the reloaded system differs from the in-memory system (%s) %s" % (what, detail[:300]), "replay": rep})
            # names / lengths / constraint strings / dummy flags of the reloaded state vs the .pil of the same compile
            try:
                pt = pil_tables(r1["text"])
                byid = {o["id"]: o for o in rel["objects"]}
                for tname, kind in (("seqs", "seq"), ("strands", "strand"), ("structs", "struct")):
                    for name, oid in rel["tables"][tname]:
                        o = byid[oid]
                        key = (kind, o["full_name"])
                        if kind == "seq" and o.get("length") == 0: continue
                        if key not in pt:
                            if kind == "seq" and o["full_name"].endswith("*"): continue
                            failures.append({"kind": "predicate", "key": "pil-missing", "summary": "%s %s of the saved state is not in the .pil" % (kind, o["full_name"]), "replay": rep}); break
                        ln, extra = pt[key]
                        olen = o.get("length") if kind != "struct" else len((o.get("struct") or "").replace("+", ""))
                        if ln != olen or (kind == "seq" and extra is not None and extra != o.get("const")) or (kind == "strand" and bool(extra) != bool(o.get("dummy"))):
                            failures.append({"kind": "predicate", "key": "pil-mismatch:" + kind, "summary": "%s %s: saved state has length %r const %r dummy %r, the .pil of the same compile says %r" % (kind, o["full_name"], olen, o.get("const"), o.get("dummy"), (ln, extra)), "replay": rep}); break
            except (ValueError, KeyError) as e:
                failures.append({"kind": "tie", "key": "pil-read", "summary": "cannot cross-check with the .pil: %s" % e, "replay": rep})
            if "memory_finish" in r1b and "reloaded_finish" in r2:
                dist["finished_both_ways"] += 1
                if r1b["memory_finish"] != r2["reloaded_finish"]:
                    failures.append({"kind": "predicate", "key": "finish-differs", "summary": "finishing from the reloaded state differs from finishing from memory: %s vs %s" % (str(r1b["memory_finish"])[:150], str(r2["reloaded_finish"])[:150]), "replay": rep})
            if ti < 1: samples.append({"files": target["files"], "earlier_compiles": nearlier})
    finally:
        shutil.rmtree(wd, ignore_errors=True)
    return {"evaluations": dist["round_trips"], "distinct_nontrivial": len(nontrivial),
            "rule": "satisfiable components (60% with a [dummy] strand) and system libraries, half with a fixed-sequence file, compiled after 0/1/3/5 earlier compiles in the same interpreter; the in-memory system is captured at compiler.save, the .save is loaded in a second fresh interpreter (other hash seed); canonical graph dumps compared (tables, attributes, item lists by identity class, complement links, sharing with component tables, signal tables, and a generic dump of every instance attribute of every reachable object, whoever attached it), cross-checked with the .pil of the same compile, and apply_design run on both. Non-trivial = round trip that compiled",
            "samples": samples, "distribution": dist, "failures": failures}

def replay(path):
    print("re-run the check; cases are regenerated from the seed"); return 0
