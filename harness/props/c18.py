"""C18 compilation is a pure function: partial theorems + correspondence over histories in fresh
processes (earlier compilations, invocation directory, PYTHONHASHSEED, back-end, fixed files)."""
import json, os, random, re, shutil, subprocess
import framework as fw
import pepper
from props import c02, c03, c12

ID = "C18"
LEVEL = "proof"
THEOREMS = ["C18_anon_name_injective", "C18_names_unique_in_output", "C18_compile_renumber", "C18_emit_renumber", "C18_wf_document_names_unique", "C18_system_output_names_unique", "C18_system_load_renumber", "C18_system_compile_history_independent", "C18_compile_emit_renumber", "C18_system_specifications_correspond"]
TRUSTED = c02.TRUSTED + ["harness/hist_worker.py: runs a list of compilations in one fresh interpreter (PYTHONHASHSEED set per process)"]
ASSUMPTIONS = ["histories are 0-3 earlier compilations of other projects that use the same relative file names, in one process; invocation from the project root or from its parent; hash seeds 0.. ; both back-ends; with and without a fixed-sequence file"]

def canon_text(text):
    """drop the timestamp line, renumber anonymous names by first occurrence"""
    lines = text.split("\n")[1:]
    body = "\n".join(lines)
    names = []
    for m in re.finditer(r"_Anon(\d+)", body):
        if m.group(0) not in names: names.append(m.group(0))
    for i, n in enumerate(names):
        body = re.sub(re.escape(n) + r"\b", "_@%d" % i, body)
    return body

def canon_err(e):
    """the error of a rejected compile, without ANSI colours and without the 'Compiling <path>' banner
    (which spells the path as it was given on the command line)"""
    e = re.sub(r"\x1b\[[0-9;]*m", "", e or "")
    m = re.search(r"ERROR:.*", e, re.S)
    e = (m.group(0) if m else e).strip()
    e = re.sub(r"[\w./-]*/([\w.-]+\.(?:comp|sys))", r"\1", e)      # a message names a file by the path that led to it (relative to where the compiler was started)
    return re.sub(r"_Anon\d+", "_Anon#", e)[:160]      # anonymous names in a message are renumbered like those of an output

def defined_names(text, synth):
    out = []
    for l in text.split("\n"):
        m = re.match(r"(sequence|sup-sequence|strand|structure)\s+(?:\[[^\]]*\]\s+)?(\S+)\s*=", l)
        if m: out.append((m.group(1) if m.group(1) in ("strand", "structure") else "sequence", m.group(2)))
    return out

def include_race(case):
    """some template is provided by two include directories: their order decides which one is compiled"""
    g = case["_gen"]
    if g is None: return False
    incs = list(g.includes)
    for (d, name) in g.items:
        if d in incs and any((e, name) in g.items for e in incs[incs.index(d) + 1:]):
            return True
    return False

def reserved_target(rng):
    """a component that mentions an anonymous name explicitly: whether _AnonK exists depends on how many
    anonymous sequences earlier compilations created, so the compiler must reject the name outright"""
    k = rng.choice([0, 1, 2])
    kind = rng.choice(["ref", "def", "port"])
    lines = ["declare component proj: a -> a" if kind != "port" else "declare component proj: _Anon%d -> a" % k,
             'sequence a = "3N"', 'strand t = "2S" a "2W"']
    if kind == "ref": lines.append("strand s = _Anon%d a" % k)
    elif kind == "def": lines.append('sequence _Anon%d = "4N"' % (k + 2)); lines.append('strand s = "1N" "1N" "1N" "1N" a')
    else: lines.append("strand s = a a")
    lines += ["structure T = t : 7.", "structure S = s : %d." % (5 if kind == "ref" else 7 if kind == "def" else 6)]
    return {"files": {"proj.comp": "\n".join(lines) + "\n"}, "entries": None, "includes": [], "base": "proj", "args": [], "_gen": None, "_top": None}

def dashed_target(rng):
    """instance names with a dash (the .sys grammar refuses them): `a` owning a sequence `b-c` next to `a-b` owning `c` would
    both emit `a-b-c`; whatever is accepted must have unique object names"""
    files = {"P.comp": 'declare component P: x -> x\nsequence x = "4N"\nsequence b-c = "3N"\nstrand s = x b-c\nstructure T = s : 7.\n',
             "Q.comp": 'declare component Q: x -> x\nsequence x = "4N"\nsequence c = "3N"\nstrand s = x c\nstructure T = s : 7.\n',
             "proj.sys": "declare system proj: ->\nimport P, Q\ncomponent a = P: w0 -> w0\ncomponent a-b = Q: w1 -> w1\n"}
    return {"files": files, "entries": None, "includes": [], "base": "proj", "args": [], "_gen": None, "_top": None}

def gen_target(rng, want_race):
    for _ in range(200):
        t = c02.gen_case(rng)
        if not want_race or include_race(t): return t
    return t

def write_project(root, files):
    for n, t in files.items():
        p = os.path.join(root, n); os.makedirs(os.path.dirname(p), exist_ok=True)
        with open(p, "w") as f: f.write(t)

def run_history(wd, jobs, hashseed):
    spec = {"repo": fw.REPO, "jobs": jobs}
    env = dict(os.environ, PYTHONHASHSEED=str(hashseed), PYTHONPATH=fw.REPO, PYTHONDONTWRITEBYTECODE="1")
    p = subprocess.run([fw.PY, os.path.join(fw.HERE, "hist_worker.py")], input=json.dumps(spec), stdout=subprocess.PIPE, stderr=subprocess.PIPE, text=True, env=env, timeout=300, cwd=wd)
    if p.returncode != 0:
        return None, p.stderr[-500:]
    return json.loads(p.stdout), ""

def run(tier, seed, build):
    rng = random.Random(seed * 431 + 18)
    ntargets = 8 if tier == "quick" else 60
    seeds = [0, 1, 6, 7, 11] if tier == "quick" else list(range(16))
    wd = fw.workdir("c18")
    failures = []; nontrivial = set()
    dist = {"targets": 0, "processes": 0, "compilations": 0, "hashseeds": len(seeds), "with_fixed": 0, "histories": {}, "model_compared": 0}
    samples = []
    try:
        model_reqs = []; model_where = []
        records = []
        for ti in range(ntargets):
            target = dashed_target(rng) if ti == 5 else reserved_target(rng) if ti % 4 == 1 else gen_target(rng, want_race=(ti % 3 == 0))     # every third target: an import provided by two include directories; every fourth: a reserved name
            dist["reserved_name"] = dist.get("reserved_name", 0) + (1 if target["_gen"] is None else 0)
            dist["include_race"] = dist.get("include_race", 0) + (1 if include_race(target) else 0)
            others = [c02.gen_case(rng) for _ in range(3)]
            troot = os.path.join(wd, "t%d" % ti, "pT")
            write_project(troot, target["files"])
            oroots = []
            for k, o in enumerate(others):
                r = os.path.join(wd, "t%d" % ti, "pO%d" % k, "pT"); write_project(r, o["files"]); oroots.append(r)
            # a twin of the target: the same relative file names and arguments, every component template slightly
            # different (one more, unused, sequence); compiled first in the same interpreter, from its own directory
            twroot = os.path.join(wd, "t%d" % ti, "pTwin", "pT")
            write_project(twroot, {n: (t + ('\nsequence zzztwin = "3N"\n' if n.endswith(".comp") else "")) for n, t in target["files"].items()})
            for n in target["files"]:       # as after `cp -p` / unpacking an archive: same relative names, same timestamps, other contents
                st_ = os.stat(os.path.join(troot, n)); os.utime(os.path.join(twroot, n), ns=(st_.st_atime_ns, st_.st_mtime_ns))
            fixed = None
            if target["_gen"] is not None and rng.random() < 0.5:
                try:
                    den, _ = pepper.expected_system_den(target["_gen"], target["_top"], target["args"], 0)
                    ents = [e for e in c12.gen_fixed(rng, den) if "_Anon" not in e[1]]
                    # degenerate codes over degenerate constraints exercise set handling
                    ents += [["sequence", n, "".join("S" if set("CG") <= set(pepper.GROUPS[c]) and rng.random() < 0.6 else "N" for c in t)] for n, t in list(den["doms"].items())[:3] if "_Anon" not in n]
                    open(os.path.join(troot, "fix.fixed"), "w").write(c12.fixed_text(rng, ents)); fixed = ents
                    dist["with_fixed"] += 1
                except (ValueError, KeyError, ZeroDivisionError):
                    fixed = None
            dist["targets"] += 1
            outs = {}   # (backend) -> list of (label, canon text)
            plan = []
            for hs in seeds:
                for nearlier in ([0, 2] if tier == "quick" else [0, 1, 3]):
                    for where in ("root", "parent") + (("filedir",) if nearlier == 0 and os.path.dirname(target["base"]) else ()):
                        jobs = []
                        for k in range(nearlier):
                            o = others[k]
                            jobs.append({"cwd": oroots[k], "base": o["base"], "args": o["args"], "includes": o["includes"] or None, "synth": True, "out": "o_%d_%d_%s.pil" % (hs, nearlier, where), "save": "o_%d_%d_%s.save" % (hs, nearlier, where)})
                        for synth in (True, False):
                            if where == "root":
                                j = {"cwd": troot, "base": target["base"], "includes": target["includes"] or None, "fixed": "fix.fixed" if fixed else None}
                            elif where == "filedir":      # started in the directory of the top-level file itself
                                fd = os.path.join(troot, os.path.dirname(target["base"]))
                                j = {"cwd": fd, "base": os.path.basename(target["base"]), "includes": [os.path.relpath(os.path.join(troot, i), fd) for i in target["includes"]] or None,
                                     "fixed": os.path.relpath(os.path.join(troot, "fix.fixed"), fd) if fixed else None}
                            else:
                                j = {"cwd": os.path.dirname(troot), "base": "pT/" + target["base"], "includes": ["pT/" + i for i in target["includes"]] or None, "fixed": "pT/fix.fixed" if fixed else None}
                            # half of the histories go through the command-line entry point (pepper-compiler's own option handling)
                            if nearlier == 0 and all(isinstance(a, int) and a >= 0 for a in target["args"]): j["cli"] = True
                            j.update(args=target["args"], synth=synth, out=os.path.join(troot, "out_%d_%d_%s_%s" % (hs, nearlier, where, "pil" if synth else "des")), save=os.path.join(troot, "out_%d_%d_%s_%s.save" % (hs, nearlier, where, "pil" if synth else "des")))
                            jobs.append(j)
                        plan.append((hs, nearlier, where, jobs))
            for hs in seeds[:2]:
                for where in ("root", "parent"):
                    jobs = []
                    for synth in (True, False):
                        for root in (twroot, troot):
                            if where == "root":
                                j = {"cwd": root, "base": target["base"], "includes": target["includes"] or None, "fixed": None}
                            else:
                                j = {"cwd": os.path.dirname(root), "base": "pT/" + target["base"], "includes": ["pT/" + i for i in target["includes"]] or None, "fixed": None}
                            if root == troot and fixed: j["fixed"] = "fix.fixed" if where == "root" else "pT/fix.fixed"
                            j.update(args=target["args"], synth=synth, out=os.path.join(root, "tw_%d_%s_%s" % (hs, where, "pil" if synth else "des")), save=os.path.join(root, "tw_%d_%s_%s.save" % (hs, where, "pil" if synth else "des")))
                            jobs.append(j)
                    plan.append((hs, "twin", where, jobs))
            # the twin once more, compiled with the include directories in the opposite order (an import provided by two of them
            # then resolves differently there), before the target with its own include list
            if len(target["includes"]) > 1:
                for hs in seeds[:2]:
                    jobs = []
                    for synth in (True, False):
                        for root in (twroot, troot):
                            incs = list(target["includes"]) if root == troot else list(reversed(target["includes"]))
                            j = {"cwd": root, "base": target["base"], "includes": incs, "fixed": ("fix.fixed" if (root == troot and fixed) else None)}
                            j.update(args=target["args"], synth=synth, out=os.path.join(root, "twr_%d_%s" % (hs, "pil" if synth else "des")), save=os.path.join(root, "twr_%d_%s.save" % (hs, "pil" if synth else "des")))
                            jobs.append(j)
                    plan.append((hs, "twin", "root", jobs))
            # the histories are independent fresh processes: run them side by side
            from concurrent.futures import ThreadPoolExecutor
            with ThreadPoolExecutor(max_workers=12) as ex:
                done = list(ex.map(lambda pl: run_history(wd, pl[3], pl[0]), plan))
            for (hs, nearlier, where, jobs), (res, err) in zip(plan, done):
                        dist["processes"] += 1
                        label = "hashseed=%d earlier=%s from=%s" % (hs, nearlier, where)
                        dist["histories"]["earlier=%s from=%s" % (nearlier, where)] = dist["histories"].get("earlier=%s from=%s" % (nearlier, where), 0) + 1
                        if res is None:
                            failures.append({"kind": "disagreement", "key": "worker", "summary": "history worker failed: " + err, "replay": {}}); continue
                        dist["compilations"] += len(res)
                        pairs = list(zip(jobs, res))[1::2] if nearlier == "twin" else list(zip(jobs[nearlier:], res[nearlier:]))
                        for job, r in pairs:
                            be = "pil" if job["synth"] else "des"
                            outs.setdefault(be, []).append((label, r.get("outcome"), canon_text(r["text"]) if r.get("outcome") == "ok" else canon_err(r.get("error", "")), r))
                            if r.get("outcome") == "ok":
                                names = defined_names(r["text"], job["synth"])
                                if len(set(names)) != len(names):
                                    dup = [n for n in names if names.count(n) > 1][:3]
                                    if not (be == "des" and all(re.search(r"-i\d+-", n[1]) and n[0] == "structure" for n in dup)):   # known finding of C03
                                        failures.append({"kind": "predicate", "key": "duplicate-names", "summary": "object names are not unique within one %s output: %r" % (be, dup), "replay": {"files": target["files"], "history": label}})
                                # model comparison (needs the file table with the invocation prefix)
                                if where == "root" and be == "pil" and nearlier == 0 and hs == seeds[0] and target["entries"] is not None:
                                    model_reqs.append(c02.model_req(target, r["ctr0"], fixed or [])); model_where.append((ti, r))
            for be, lst in outs.items():
                ref = lst[0]
                for item in lst[1:]:
                    if (item[1], item[2]) != (ref[1], ref[2]):
                        a, b = ref[2].split("\n"), item[2].split("\n")
                        diff = [(x, y) for x, y in zip(a, b) if x != y][:2] or [("outcome/length", ref[1], item[1])]
                        failures.append({"kind": "predicate", "key": "history-dependent:" + be, "summary": "the same compilation gives different %s output under [%s] and [%s]: %r" % (be, ref[0], item[0], diff),
                                         "replay": {"files": target["files"], "fixed": c12.fixed_text(random.Random(0), fixed) if fixed else None, "histories": [ref[0], item[0]],
                                                    "earlier_projects": [o["files"] for o in others[:2]],
                                                    "reproduce": "run the earlier compilations and then this one in one interpreter (harness/hist_worker.py) with the given PYTHONHASHSEED / directory"}})
                        break
                if ref[1] == "ok": nontrivial.add((ti, be))
            if ti < 1: samples.append({"files": target["files"], "histories": [x[0] for x in outs.get("pil", [])][:6]})
        mres = fw.run_model(model_reqs)
        for (ti, r), m in zip(model_where, mres):
            dist["model_compared"] += 1
            if r.get("outcome") == "ok":
                try: lines = pepper.read_pil(r["text"])
                except ValueError: lines = None
                if m[0] != "Ok" or lines is None or pepper.canon_model_lines(m[1][1]) != lines:
                    failures.append({"kind": "disagreement", "key": "model", "summary": "model and implementation differ on target %d (%s)" % (ti, str(m)[:100]), "replay": {}})
            elif m[0] == "Ok":
                failures.append({"kind": "disagreement", "key": "model-accepts", "summary": "model accepts, implementation rejects: %s" % r.get("error", "")[:100], "replay": {}})
    finally:
        shutil.rmtree(wd, ignore_errors=True)
    return {"evaluations": dist["compilations"], "distinct_nontrivial": len(nontrivial),
            "rule": "%d target projects (system libraries as C02, half with a fixed-sequence file using S/N over degenerate constraints) x hash seeds %r x {0, 2(+)} earlier compilations of other projects in the same process, plus (two hash seeds) a twin of the target - same relative file names and arguments, every component template one unused sequence longer - compiled first from its own directory, x invocation from the project root / its parent x {pil, des}; every third target has an import provided by two include directories (their order must decide), every fourth is a component that defines or mentions a name of the reserved form _AnonK (must be rejected whatever was compiled before); outputs must be identical modulo the timestamp line and a consistent renumbering of anonymous names, names within an output unique; one run per target compared with the model. Non-trivial = (target, back-end) that compiles" % (ntargets, seeds),
            "samples": samples, "distribution": dist, "failures": failures}

def replay(path):
    print("re-run the check; cases are regenerated from the seed"); return 0
