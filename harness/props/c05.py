"""C05 constraint files honour the spuriousSSM contract: rep-level theorems + the Coq-extracted
contract predicate on the real .st/.wc/.eq files + acceptance by a sanitised binary built from
the working tree."""
import os, random, re, shutil, subprocess
import framework as fw
import pepper, cbuild
from props import c04

ID = "C05"
LEVEL = "proof"
THEOREMS = ["C05_eq_defined", "C05_eq_idempotent", "C05_eq_lowest", "C05_wc_of_wc_is_eq", "C05_wc_points_at_rep", "C05_template_codes_agree", "C05_files_contract", "C05_loaded_files_contract", "C05_table_on_keys", "C05_struct_loaded_files_contract"]
TRUSTED = c04.TRUSTED + ["clang ASan/UBSan build of spuriousSSM.c from the working tree (detect_leaks=0: the one-block oldS leak at exit is not a memory error)"]
ASSUMPTIONS = ["the binary is run with imax=1 and a harness-chosen initial sequence (within the templates, not yet obeying eq/wc) so that the run is reproducible"]

def impl_case(case):
    import implrun, contextlib, io
    from peppercompiler.design import spurious_design as SD
    d = implrun.fresh_dir()
    out = {}
    try:
        path = os.path.join(d, "doc.pil")
        open(path, "w").write(case["text"])
        for so in (False, True):
            lay = "struct" if so else "strand"
            tmp = os.path.join(d, "tmp_" + lay)
            buf = io.StringIO()
            try:
                with contextlib.redirect_stdout(buf), contextlib.redirect_stderr(buf):
                    SD.design(os.path.join(d, "doc"), path, os.path.join(d, "doc.mfe"), just_files=True, struct_orient=so, tempname=tmp, spuriousbinary=case["binary"])
                st = open(tmp + ".st").read(); wc = open(tmp + ".wc").read(); eq = open(tmp + ".eq").read()
                r = {"outcome": "ok", "st": st, "wc": wc, "eq": eq}
                # run the sanitised binary on exactly these files
                rng = random.Random(case["seed"])
                runs = []
                for k in range(2):
                    args = [case["binary"], "score=automatic", "template=" + tmp + ".st", "wc=" + tmp + ".wc", "eq=" + tmp + ".eq", "imax=1", "quiet=TRUE"]
                    if k == 0:
                        seqf = tmp + ".rS"
                        open(seqf, "w").write("".join(rng.choice(implrun.GROUP[c]) if c in implrun.GROUP else " " for c in st))
                        args.append("sequence=" + seqf)
                    env = dict(os.environ, ASAN_OPTIONS="detect_leaks=0:abort_on_error=0", UBSAN_OPTIONS="print_stacktrace=1")
                    try:
                        p = subprocess.run(args, stdout=subprocess.PIPE, stderr=subprocess.PIPE, timeout=25, env=env)
                        runs.append({"rc": p.returncode, "stderr": p.stderr.decode("latin-1")[-600:], "stdout": p.stdout.decode("latin-1")[-300:]})
                    except subprocess.TimeoutExpired:
                        runs.append({"rc": "timeout", "stderr": "", "stdout": ""})
                r["runs"] = runs
                # the same run again in place, over files left by an earlier run under the same temp name: first over files of the
                # same sizes with other contents, then over longer files - what is written must be what a fresh directory gets
                if case["seed"] % 3 == 0:
                    rr = {}
                    for tag, stale in (("same-size", lambda t: "".join(" " if c == "\n" else ("N" if c.isalpha() else "7" if c.isdigit() else c) for c in t)),
                                       ("longer", lambda t: t + t[: max(3, len(t) // 5)])):
                        for ext, good in ((".st", st), (".wc", wc), (".eq", eq)):
                            open(tmp + ext, "w").write(stale(good))
                        with contextlib.redirect_stdout(buf), contextlib.redirect_stderr(buf):
                            SD.design(os.path.join(d, "doc"), path, os.path.join(d, "doc.mfe"), just_files=True, struct_orient=so, tempname=tmp, spuriousbinary=case["binary"])
                        rr[tag] = (open(tmp + ".st").read(), open(tmp + ".wc").read(), open(tmp + ".eq").read()) == (st, wc, eq)
                    r["rerun"] = rr
            except SystemExit:
                r = {"outcome": "rejected", "error": "exit " + buf.getvalue()[-200:]}
            except Exception as e:
                r = {"outcome": "rejected", "error": "%s: %s" % (type(e).__name__, e)}
            out[lay] = r
        return out
    finally:
        shutil.rmtree(d, ignore_errors=True)

def parse_ints(s):
    toks = s.split()
    return [int(t) for t in toks]

def separators_ok(st, lines, so):
    """>= 1 blank between strands, >= 2 between complexes, nucleotides exactly where the layout says"""
    strands = {}; order = []; structs = []
    env = {}
    for l in lines:
        if l[0] == "sequence": env[l[1]] = l[3]
        elif l[0] == "sup-sequence": env[l[1]] = l[3]
        elif l[0] == "strand": strands[l[2]] = l[4]; order.append(l[2])
        elif l[0] == "structure": structs.append(l[3])
    groups = structs if so else [[s] for s in order]
    runs = [(m.start(), m.end()) for m in re.finditer(r"[^ ]+", st)]
    # an empty strand has no nucleotides: it contributes no run (and no requirement of its own)
    want = [(gi, strands[s]) for gi, g in enumerate(groups) for s in g if strands[s] > 0]
    if [b - a for a, b in runs] != [l for _, l in want]:
        return "nucleotide runs %r do not match the strands %r" % ([b - a for a, b in runs][:8], [l for _, l in want][:8])
    for k in range(1, len(runs)):
        gap = runs[k][0] - runs[k - 1][1]
        need = 2 if want[k][0] != want[k - 1][0] else 1
        if gap < need:
            return "only %d blank(s) before run %d (need %d)" % (gap, k, need)
    return None

def run(tier, seed, build):
    rng = random.Random(seed * 389 + 5)
    n = 120 if tier == "quick" else 1500
    binary, log = cbuild.ssm_asan()
    if binary is None:
        return {"evaluations": 0, "distinct_nontrivial": 0, "rule": "", "samples": [],
                "failures": [{"kind": "tie", "key": "c-build", "summary": "cannot build the sanitised spuriousSSM from the working tree: " + log[-300:], "replay": {}}]}
    docs = [d for d in c04.gen_docs(rng, n)]
    # extra: self-complementary domains and homodimers
    for i in range(n // 6):
        L = rng.choice([2, 4, 6, 8])
        lines = [["sequence", "sc", "N" * L, L], ["sequence", "t", "NNN", 3], ["equal", [["sc", False], ["sc", True]]],
                 ["strand", False, "s0", [["t", False], ["sc", False]], L + 3], ["structure", 1, "X", ["s0", "s0"], "..." + "(" * L + "+" + "..." + ")" * L]]
        docs.append({"source": "hand", "lines": lines, "text": pepper.pil_text(rng, lines)})
    # late odd-length self-complementary classes (unsatisfiable: no files may be written) behind more than 256 positions
    for i in range(max(2, n // 40)):
        B = rng.choice([261, 300, 330]); L = rng.choice([1, 3])
        lines = [["sequence", "big", "N" * B, B], ["strand", False, "sb", [["big", False]], B], ["structure", 1, "Hb", ["sb"], "." * B],
                 ["sequence", "q", "N" * L, L], ["strand", False, "sq", [["q", False]], L], ["structure", 1, "Hq", ["sq"], "." * L],
                 ["structure", 1, "D", ["sq", "sq"], "(" * L + "+" + ")" * L]]
        docs.append({"source": "hand", "lines": lines, "text": pepper.pil_text(rng, lines)})
    # a design whose first strand ends right before a multiple of 4096 (the writer works block-wise); too large for
    # the model: only the contract predicate on the real files, the separator check and the binary decide
    B = 4094
    lines = [["sequence", "big", "N" * B, B], ["strand", False, "sb", [["big", False]], B], ["structure", 1, "Hb", ["sb"], "." * B],
             ["sequence", "t", "SWN", 3], ["strand", False, "s2", [["t", False], ["t", True]], 6], ["structure", 1, "H2", ["s2"], "(((" + ")))"]]
    docs.append({"source": "hand", "lines": lines, "text": pepper.pil_text(rng, lines), "nomodel": True})
    impl = fw.run_impl("props.c05", "impl_case", [{"text": d["text"], "binary": binary, "seed": rng.randrange(10**9)} for d in docs], per_case_timeout=120, procs=8)
    reqs = []; where = []
    for i, (d, r) in enumerate(zip(docs, impl)):
        for so in (False, True):
            lay = "struct" if so else "strand"
            if not d.get("nomodel"):
                reqs.append(["files", [c04.lines_sexp(d["lines"]), so]]); where.append((i, lay, "model"))
            if isinstance(r, dict) and r.get(lay, {}).get("outcome") == "ok":
                try:
                    reqs.append(["contract", [parse_ints(r[lay]["eq"]), parse_ints(r[lay]["wc"]), r[lay]["st"]]]); where.append((i, lay, "contract"))
                except ValueError:
                    pass
    res = fw.run_model(reqs)
    got = {}
    for w, m in zip(where, res): got[w] = m
    failures = []; nontrivial = set(); dist = {"files_written": 0, "rejected": 0, "binary_runs": 0, "self_complementary": n // 6}
    for i, (d, r) in enumerate(zip(docs, impl)):
        if not isinstance(r, dict) or "strand" not in r:
            failures.append({"kind": "disagreement", "key": "impl-run", "summary": "runner failed: %r" % (r,), "replay": {"text": d["text"]}}); continue
        for so in (False, True):
            lay = "struct" if so else "strand"
            a = r[lay]; m = got.get((i, lay, "model"), ("ok", None, None, None))
            rep = {"files": {"doc.pil": d["text"]}, "layout": lay,
                   "reproduce": "pepper-design-spurious doc.pil --just-files %s -t tmp; spuriousSSM score=automatic template=tmp.st wc=tmp.wc eq=tmp.eq imax=1 quiet=TRUE" % ("--struct" if so else "")}
            if a["outcome"] != "ok":
                dist["rejected"] += 1
                if m[0] == "ok":
                    failures.append({"kind": "disagreement", "key": "files-rejected", "summary": "design(just_files) fails on a document the model accepts: %s" % a.get("error", "")[:120], "replay": rep})
                continue
            dist["files_written"] += 1
            if m[0] != "ok":
                failures.append({"kind": "disagreement", "key": "files-written", "summary": "files are written for a document the model rejects (%s)" % (m,), "replay": rep}); continue
            try:
                eq = parse_ints(a["eq"]); wc = parse_ints(a["wc"])
            except ValueError:
                failures.append({"kind": "predicate", "key": "files-unparsable", "summary": "eq/wc file is not a list of integers", "replay": rep}); continue
            if m[1] is not None and ([str(x) for x in eq] != list(m[1]) or [str(x) for x in wc] != list(m[2]) or a["st"] != m[3]):
                failures.append({"kind": "disagreement", "key": "files-differ", "summary": "file contents differ from the model's", "replay": dict(rep, model=str(m)[:800], files=str(a)[:800])})
            if got.get((i, lay, "contract")) != "T":
                failures.append({"kind": "predicate", "key": "contract:" + lay, "summary": "the written st/wc/eq triple violates the spuriousSSM input contract (%s layout)" % lay, "replay": dict(rep, st=a["st"], wc=a["wc"], eq=a["eq"])})
            sep = separators_ok(a["st"], d["lines"], so)
            if sep:
                failures.append({"kind": "predicate", "key": "separators:" + lay, "summary": "blank separators / layout: " + sep, "replay": dict(rep, st=a["st"])})
            for tag, same in a.get("rerun", {}).items():
                dist["reruns_in_place"] = dist.get("reruns_in_place", 0) + 1
                if not same:
                    failures.append({"kind": "predicate", "key": "rerun:" + tag, "summary": "run again in place over %s files left under the same temp name, the designer input files differ from those a fresh directory gets (%s layout)" % (tag, lay), "replay": rep})
            for run_ in a.get("runs", []):
                dist["binary_runs"] += 1
                bad = run_["rc"] != 0 or "ERROR" in run_["stderr"] or "runtime error" in run_["stderr"] or "AddressSanitizer" in run_["stderr"]
                if bad:
                    failures.append({"kind": "predicate", "key": "binary:" + lay, "summary": "spuriousSSM built from the working tree does not accept the written triple: rc=%s %s" % (run_["rc"], run_["stderr"][-200:].replace("\n", " | ")), "replay": dict(rep, st=a["st"], wc=a["wc"], eq=a["eq"])})
            if any(x != -1 for x in wc): nontrivial.add(d["text"] + lay)
    return {"evaluations": 2 * len(docs), "distinct_nontrivial": len(nontrivial),
            "rule": "PIL documents as in C04 plus self-complementary even-length domains in homodimers, odd-length self-complementary classes placed behind more than 256 positions (no files may be written), and one 4100-position design whose first strand ends right before position 4096 (contract predicate, separators and binary only); design(..., just_files=True) in both layouts; contents compared with the model, checked with the Coq-extracted contract predicate and a separator check, and fed twice (harness-chosen and random initial sequence) to an ASan/UBSan spuriousSSM built from the working tree (imax=1). Non-trivial = some position has a complement",
            "samples": [d["text"] for d in docs[:2]], "distribution": dist, "failures": failures}

def replay(path):
    print("re-run the check; cases are regenerated from the seed"); return 0
