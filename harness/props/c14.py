"""C14 zero-length domains are inert: theorems on the emission model + correspondence on
(program, program with zero-length domains inserted) pairs through compiler, designer front-end, finisher."""
import copy, random
import framework as fw
import pepper
from props import c01, c10

ID = "C14"
LEVEL = "proof"
THEOREMS = ["C14_flat_ignores_dummy", "C14_emitted_items_ignore_dummy", "C14_emitted_items_nonempty", "C14_no_empty_lines",
            "C14_dummy_denotes_nothing", "C14_strands_reread"]
TRUSTED = c01.TRUSTED + ["harness filler producing a nucleotide string that satisfies the arrays (for the finisher leg)"]
ASSUMPTIONS = c01.ASSUMPTIONS

def insert_zeros(rng, prog):
    """p' : zero-length base sequences / super-sequences inserted into super-sequences and strands"""
    p = copy.deepcopy(prog)
    body = p["body"]
    domain_strands = set(n for st in body if st[0] == "struct" and st[4] for n in st[3])
    has_domain = bool(domain_strands)
    znames = []
    new = []
    how = []
    k = rng.choice([1, 2, 3])
    for i in range(k):
        zn = "zz%d" % i
        spelling = rng.choice([[[0, "N"]], [["?", "S"]], [[0, "A"], [0, "C"]]])
        decl = ["Some", 0] if any(x[0] == "?" for x in spelling) or rng.random() < 0.3 else None
        new.append(["seq", zn, [["nuc", spelling]], decl]); znames.append(("base", zn))
    if rng.random() < 0.6:
        items = [["ref", znames[0][1], rng.random() < 0.5]] + ([["ref", znames[-1][1], rng.random() < 0.5]] if rng.random() < 0.7 else [["nuc", [[0, "N"]]]])
        new.append(["seq", "zsup", items, None]); znames.append(("sup", "zsup"))
    body[0:0] = new
    touched = 0
    for st in body[len(new):]:
        its = st[2] if st[0] == "seq" else st[3] if st[0] == "strand" else None
        if its is None: continue
        if st[0] == "seq" and len(its) == 1 and its[0][0] == "nuc": continue      # a base sequence
        if st[0] == "strand" and st[2] in domain_strands: continue
        if st[0] == "seq" and has_domain: continue    # a super-sequence may reach a domain-level structure through domains()
        if rng.random() < 0.7:
            for _ in range(rng.choice([1, 1, 2])):
                kind, zn = rng.choice(znames)
                r = rng.random()
                if kind == "sup" and r < 0.3: it = ["dom", zn, rng.random() < 0.5]; how.append("domains()")
                elif r < 0.85: it = ["ref", zn, rng.random() < 0.5]; how.append("starred" if it[2] else "plain")
                else: it = ["nuc", [[0, rng.choice("NSA")]]]; how.append("anonymous")
                pos = rng.choice([0, len(its), rng.randrange(len(its) + 1)])
                how.append("first" if pos == 0 else "last" if pos == len(its) else "middle")
                its.insert(pos, it); touched += 1
    if rng.random() < 0.4:
        body.append(["seq", "zlast", [["nuc", [[0, "N"]]]], None]); how.append("last-definition")
        if rng.random() < 0.5:
            body.append(["seq", "zlastsup", [["ref", "zlast", False], ["ref", "zlast", True]], None]); how.append("last-definition-sup")
    return p, how, touched

def impl_case(case):
    import implrun, os, shutil, random as R
    out = {}
    rng = R.Random(case["seed"])
    for tag in ("base", "zero"):
        r = implrun.compile_files({"prog.comp": case[tag]}, "prog", keep=True)
        d = r["dir"]
        try:
            if r["outcome"] == "ok":
                try:
                    r["lines"] = pepper.read_pil(r["text"])
                except ValueError as e:
                    r["lines"] = None; r["unreadable"] = str(e)
                del r["text"]
                pil = os.path.join(d, "out.pil")
                r["arrays"] = {}
                for so in (False, True):
                    a, conv = implrun.designer_arrays(pil, so)
                    r["arrays"]["struct" if so else "strand"] = a
                    if tag == "zero" and not so and a["outcome"] == "ok":
                        nts = implrun.fill_design(a["eq"], a["wc"], a["st"], rng)
                        f = implrun.finish_pipeline(d, conv, nts)
                        r["finish"] = {"outcome": f["outcome"], "error": f.get("error")}
        finally:
            shutil.rmtree(d, ignore_errors=True)
        out[tag] = r
    return out

def strip_zero(den):
    return den

def run(tier, seed, build):
    rng = random.Random(seed * 419 + 14)
    n = 250 if tier == "quick" else 4000
    cases = []
    for i in range(n):
        prog = pepper.CompGen(rng, name="prog", allow_zero=False).build()
        p2, how, touched = insert_zeros(rng, prog)
        cases.append({"prog": prog, "prog2": p2, "how": how, "touched": touched,
                      "base": pepper.comp_text(rng, prog), "zero": pepper.comp_text(rng, p2), "seed": rng.randrange(10**9)})
    impl = fw.run_impl("props.c14", "impl_case", [{"base": c["base"], "zero": c["zero"], "seed": c["seed"]} for c in cases], per_case_timeout=40)
    reqs = []
    for c, r in zip(cases, impl):
        z = r.get("zero", {}) if isinstance(r, dict) else {}
        reqs.append(["comp", [z.get("ctr0", 0), "", c["prog2"]["decl"], c["prog2"]["body"]]])
    model = fw.run_model(reqs)
    failures = []; nontrivial = set(); dist = {"placements": {}, "both_accepted": 0, "unused_strand_skipped": 0}
    for c, m, r in zip(cases, model, impl):
        if not isinstance(r, dict) or "zero" not in r:
            failures.append({"kind": "disagreement", "key": "impl-run", "summary": "runner failed: %r" % (r,), "replay": {"text": c["zero"]}}); continue
        for h in set(c["how"]): dist["placements"][h] = dist["placements"].get(h, 0) + 1
        b, z = r["base"], r["zero"]
        rep = {"files": {"prog.comp": c["zero"], "without_zero_length.comp": c["base"]},
               "reproduce": "compile both with compiler.compiler('prog',[], 'out.pil','out.save',None,True,None); Convert('out.pil').get_constraints()"}
        failures += c01.compare({"prog": c["prog2"], "text": c["zero"]}, m, z)
        if b.get("outcome") != "ok":
            continue
        if z.get("outcome") != "ok":
            failures.append({"kind": "predicate", "key": "zero-rejected", "summary": "inserting zero-length domains makes an accepted program fail: %s" % z.get("error", "")[:150], "replay": rep}); continue
        dist["both_accepted"] += 1
        if c["touched"]: nontrivial.add(c["zero"])
        if b.get("lines") is None or z.get("lines") is None:
            failures.append({"kind": "predicate", "key": "unreadable", "summary": "emitted .pil unreadable: %s" % (z.get("unreadable") or b.get("unreadable")), "replay": rep}); continue
        for l in z["lines"]:
            if (l[0] == "sequence" and l[3] == 0) or (l[0] == "sup-sequence" and (l[3] == 0 or not l[2])) or (l[0] == "strand" and not l[3]):
                failures.append({"kind": "predicate", "key": "empty-object", "summary": "an empty object is emitted: %r" % (l,), "replay": rep})
        try:
            d1 = c10.rename_anon(pepper.den_pil(b["lines"]), 0); d2 = c10.rename_anon(pepper.den_pil(z["lines"]), 0)
            if d1 != d2:
                part = [k for k in d1 if d1[k] != d2[k]][0]
                failures.append({"kind": "predicate", "key": "den-changed-" + part, "summary": "inserting zero-length domains changes the emitted design (%s)" % part, "replay": rep})
        except ValueError as e:
            failures.append({"kind": "predicate", "key": "pil-illformed", "summary": "with zero-length domains the emitted .pil is not well formed: %s" % e, "replay": rep})
        for lay in ("strand", "struct"):
            a1, a2 = b["arrays"][lay], z["arrays"][lay]
            if a1["outcome"] == "ok" and a2 != a1:
                failures.append({"kind": "predicate", "key": "arrays-" + lay, "summary": "designer front-end (%s layout) gives different arrays / fails once zero-length domains are inserted: %s" % (lay, a2.get("error", "arrays differ")[:150]), "replay": rep})
        if z["arrays"]["strand"]["outcome"] == "ok" and z.get("finish", {}).get("outcome") != "ok":
            failures.append({"kind": "predicate", "key": "finish", "summary": "the finisher cannot process the program with zero-length domains: %s" % str(z.get("finish"))[:200], "replay": rep})
    return {"evaluations": len(cases), "distinct_nontrivial": len(nontrivial),
            "rule": "generated components without zero-length domains, and the same with zero-length base sequences (\"0N\", \"?S\" : 0, several zero parts), zero-length super-sequences, zero-length anonymous regions inserted first / middle / last into super-sequences and strands, starred, through domains(), and as the last definition; both compiled; designs compared modulo anonymous numbering, designer arrays compared in both layouts, the zero-length variant pushed through fill -> .mfe -> finish. Non-trivial = at least one insertion into an item list and both variants accepted",
            "samples": [c["zero"] for c in cases[:2]], "distribution": dist, "failures": failures}

def replay(path):
    print("re-run the check; cases are regenerated from the seed"); return 0
