"""C14 zero-length domains are inert: theorems on the emission model + correspondence on
(program, program with zero-length domains inserted) pairs through compiler, designer front-end, finisher."""
import copy, random
import framework as fw
import pepper
from props import c01, c10

ID = "C14"
LEVEL = "proof"
THEOREMS = ["C14_flat_ignores_dummy", "C14_emitted_items_ignore_dummy", "C14_emitted_items_nonempty", "C14_no_empty_lines",
            "C14_dummy_denotes_nothing", "C14_strands_reread", "C14_designer_accepts", "C14_finisher_accepts", "C14_system_designer_accepts", "C14_finisher_accepts_unconditional", "C14_system_finisher_accepts", "C14_system_finisher_accepts_unconditional", "C14_fixed_system_designer_accepts"]
TRUSTED = c01.TRUSTED + ["harness filler producing a nucleotide string that satisfies the arrays (for the finisher leg)"]
ASSUMPTIONS = c01.ASSUMPTIONS

def insert_zeros(rng, prog):
    """p' : zero-length base sequences / super-sequences inserted into super-sequences and strands"""
    p = copy.deepcopy(prog)
    body = p["body"]
    domain_strands = set(n for st in body if st[0] == "struct" and st[4] for n in st[3])
    has_domain = bool(domain_strands)
    znames = []
    new = []
    how = []
    k = rng.choice([1, 2, 3])
    for i in range(k):
        zn = "zz%d" % i
        spelling = rng.choice([[[0, "N"]], [["?", "S"]], [[0, "A"], [0, "C"]]])
        decl = ["Some", 0] if any(x[0] == "?" for x in spelling) or rng.random() < 0.3 else None
        new.append(["seq", zn, [["nuc", spelling]], decl]); znames.append(("base", zn))
    if rng.random() < 0.6:
        items = [["ref", znames[0][1], rng.random() < 0.5]] + ([["ref", znames[-1][1], rng.random() < 0.5]] if rng.random() < 0.7 else [["nuc", [[0, "N"]]]])
        new.append(["seq", "zsup", items, None]); znames.append(("sup", "zsup"))
    body[0:0] = new
    touched = 0
    for st in body[len(new):]:
        its = st[2] if st[0] == "seq" else st[3] if st[0] == "strand" else None
        if its is None: continue
        if st[0] == "strand" and st[2] == "zwild":     # a strand that is one wildcard region: its only sized member is now empty
            its.insert(rng.choice([0, len(its)]), ["ref", znames[0][1], rng.random() < 0.5]); touched += 1; how.append("wild-only"); continue
        if st[0] == "seq" and len(its) == 1 and its[0][0] == "nuc": continue      # a base sequence
        if st[0] == "strand" and st[2] in domain_strands: continue
        if st[0] == "seq" and has_domain: continue    # a super-sequence may reach a domain-level structure through domains()
        if rng.random() < 0.7:
            for _ in range(rng.choice([1, 1, 2])):
                kind, zn = rng.choice(znames)
                r = rng.random()
                if kind == "sup" and r < 0.3: it = ["dom", zn, rng.random() < 0.5]; how.append("domains()")
                elif r < 0.85: it = ["ref", zn, rng.random() < 0.5]; how.append("starred" if it[2] else "plain")
                else: it = ["nuc", [[0, rng.choice("NSA")]]]; how.append("anonymous")
                pos = rng.choice([0, len(its), rng.randrange(len(its) + 1)])
                how.append("first" if pos == 0 else "last" if pos == len(its) else "middle")
                its.insert(pos, it); touched += 1
    if rng.random() < 0.4:
        body.append(["seq", "zlast", [["nuc", [[0, "N"]]]], None]); how.append("last-definition")
        if rng.random() < 0.5:
            body.append(["seq", "zlastsup", [["ref", "zlast", False], ["ref", "zlast", True]], None]); how.append("last-definition-sup")
    return p, how, touched

def impl_case(case):
    import implrun, os, shutil, random as R
    out = {}
    rng = R.Random(case["seed"])
    for tag in ("base", "zero"):
        r = implrun.compile_files({"prog.comp": case[tag]}, "prog", keep=True)
        d = r["dir"]
        try:
            if r["outcome"] == "ok":
                try:
                    r["lines"] = pepper.read_pil(r["text"])
                except ValueError as e:
                    r["lines"] = None; r["unreadable"] = str(e)
                del r["text"]
                pil = os.path.join(d, "out.pil")
                r["arrays"] = {}
                for so in (False, True):
                    a, conv = implrun.designer_arrays(pil, so)
                    r["arrays"]["struct" if so else "strand"] = a
                    if tag == "zero" and not so and a["outcome"] == "ok":
                        nts = implrun.fill_design(a["eq"], a["wc"], a["st"], rng)
                        f = implrun.finish_pipeline(d, conv, nts)
                        r["finish"] = {"outcome": f["outcome"], "error": f.get("error")}
        finally:
            shutil.rmtree(d, ignore_errors=True)
        if case.get("fixed") and r["outcome"] == "ok":
            # the same pair once more with a fixed-sequence file (pepper-compiler --fixed)
            fr = implrun.compile_files({"prog.comp": case[tag], "fix.fixed": case["fixed"]}, "prog", fixed="fix.fixed", keep=True)
            fd = fr.pop("dir", None)
            try:
                if fr["outcome"] == "ok":
                    try: fr["lines"] = pepper.read_pil(fr["text"])
                    except ValueError as e: fr["lines"] = None
                    del fr["text"]
                    # ... and through the designer front-end and the finisher as well
                    a, conv = implrun.designer_arrays(os.path.join(fd, "out.pil"), False)
                    if a["outcome"] == "ok":
                        f = implrun.finish_pipeline(fd, conv, implrun.fill_design(a["eq"], a["wc"], a["st"], R.Random(case["seed"] + 1)))
                        fr["finish"] = {"outcome": f["outcome"], "error": f.get("error")}
            finally:
                if fd: shutil.rmtree(fd, ignore_errors=True)
            r["fixed"] = fr
        out[tag] = r
    return out

BASES = {"A": "A", "C": "C", "G": "G", "T": "T", "R": "AG", "Y": "CT", "W": "AT", "S": "CG", "M": "AC", "K": "GT", "B": "CGT", "V": "ACG", "D": "AGT", "H": "ACT", "N": "ACGT"}
def fixed_for(rng, prog):
    """a fixed-sequence file pinning one or two strands of the program to concrete bases allowed by their templates"""
    try: den = pepper.den_src(prog, "", 0)
    except (ValueError, KeyError, ZeroDivisionError, TypeError): return None
    if not den or not den["strands"]: return None
    names = [n for n in den["strands"] if den["strands"][n][1]]
    if not names: return None
    chosen = {}; out = []
    for n in rng.sample(names, min(len(names), rng.choice([1, 2]))):
        s = ""
        for (d, i, r) in den["strands"][n][1]:
            x = chosen.setdefault((d, i), rng.choice(BASES.get(den["doms"][d][i], "ACGT")))
            s += {"A": "T", "T": "A", "C": "G", "G": "C"}[x] if r else x
        out.append("strand %s = %s" % (n, s))
    return "\n".join(out) + "\n"

def strip_zero(den):
    return den

def sys_case(case):
    """the component wrapped into a one-instance system whose signal is bound to a super-sequence port that has a
    zero-length member; compiled with both back-ends, with and without the zero-length member"""
    import implrun
    out = {}
    for tag in ("base", "zero"):
        files = {"prog.comp": case[tag], "top.sys": case["sys"]}
        r = {}
        for synth in (True, False):
            c = implrun.compile_files(files, "top", synth=synth)
            r["pil" if synth else "des"] = {"outcome": c["outcome"], "text": c.get("text"), "error": c.get("error")}
        out[tag] = r
    return out

def des_problem(text):
    """why a .des file cannot be processed: a sequence used in an assignment is never defined"""
    from props import c03
    try: lines = c03.read_des(text)
    except ValueError as e: return "unreadable line %s" % e
    defined = {l[1] for l in lines if l[0] == "sequence"}; structs = {l[1] for l in lines if l[0] == "structure"}
    for l in lines:
        if l[0] == "assign":
            if l[1] not in structs: return "assignment to undefined structure %s" % l[1]
            for n, st in l[2]:
                if n not in defined: return "structure %s uses undefined sequence %s" % (l[1], n)
    return None

def sys_leg(rng, k):
    """components with a port `zport = a <zero-length>` instantiated in a system"""
    cases = []
    for _ in range(k * 6):
        if len(cases) >= k: break
        prog = pepper.CompGen(rng, name="prog", allow_zero=False).build()
        bases = [st[1] for st in prog["body"] if st[0] == "seq" and len(st[2]) == 1 and st[2][0][0] == "nuc" and st[3] is None
                 and all(p[0] not in ("?",) and p[0] > 0 for p in st[2][0][1])]
        if not bases: continue
        a = rng.choice(bases)
        def variant(with_zero):
            p = copy.deepcopy(prog)
            extra = []
            if with_zero:
                extra.append(["seq", "zz", [["nuc", [[0, "N"]]]], None])
            items = [["ref", a, False]] + ([["ref", "zz", rng.random() < 0.5]] if with_zero else [])
            if with_zero and rng.random() < 0.5: items.reverse()
            idx = max(i for i, st in enumerate(p["body"]) if st[0] == "seq" and st[1] == a) + 1
            p["body"][idx:idx] = extra + [["seq", "zport", items, None]]
            p["decl"] = [p["decl"][0], [], [["zport", False, None]]]
            return p
        pb, pz = variant(False), variant(True)
        sysfile = "declare system top: -> \nimport prog\ncomponent g1 = prog: -> sx\ncomponent g2 = prog: -> sx\n"
        cases.append({"base": pepper.comp_text(rng, pb), "zero": pepper.comp_text(rng, pz), "sys": sysfile})
    return cases

def run(tier, seed, build):
    rng = random.Random(seed * 419 + 14)
    n = 250 if tier == "quick" else 4000
    cases = []
    for i in range(n):
        prog = pepper.CompGen(rng, name="prog", allow_zero=False).build()
        if i % 5 == 2:      # a strand that is nothing but a wildcard region, in a structure of its own
            L = rng.choice([3, 4, 6])
            prog["body"].append(["strand", False, "zwild", [["nuc", [["?", rng.choice("NSW")]]]], ["Some", L]])
            prog["body"].append(["struct", 1, "zwildX", ["zwild"], False, ["ext", [[L, "."]]]])
        p2, how, touched = insert_zeros(rng, prog)
        if i % 5 == 4:      # a super-sequence whose only sized member is a wildcard region, between zero-length members (both programs)
            L = rng.choice([3, 5])
            extra = [["seq", "zq", [["nuc", [[0, "N"]]]], None],
                     ["seq", "zwsup", [["ref", "zq", False], ["nuc", [["?", rng.choice("NS")]]], ["ref", "zq", True]], ["Some", L]],
                     ["strand", False, "zwsupS", [["ref", "zwsup", False]], ["Some", L]],
                     ["struct", 1, "zwsupX", ["zwsupS"], False, ["ext", [[L, "."]]]]]
            prog["body"] += copy.deepcopy(extra); p2["body"] += copy.deepcopy(extra); how.append("wildcard-between-zeros")
        cases.append({"prog": prog, "prog2": p2, "how": how, "touched": touched,
                      "base": pepper.comp_text(rng, prog), "zero": pepper.comp_text(rng, p2), "seed": rng.randrange(10**9)})
        cases[-1]["fixed"] = fixed_for(rng, prog) if i % 3 == 1 else None
    impl = fw.run_impl("props.c14", "impl_case", [{"base": c["base"], "zero": c["zero"], "seed": c["seed"], "fixed": c["fixed"]} for c in cases], per_case_timeout=40)
    reqs = []
    for c, r in zip(cases, impl):
        z = r.get("zero", {}) if isinstance(r, dict) else {}
        reqs.append(["comp", [z.get("ctr0", 0), "", c["prog2"]["decl"], c["prog2"]["body"]]])
    model = fw.run_model(reqs)
    failures = []; nontrivial = set(); dist = {"placements": {}, "both_accepted": 0, "unused_strand_skipped": 0}
    for c, m, r in zip(cases, model, impl):
        if not isinstance(r, dict) or "zero" not in r:
            failures.append({"kind": "disagreement", "key": "impl-run", "summary": "runner failed: %r" % (r,), "replay": {"text": c["zero"]}}); continue
        for h in set(c["how"]): dist["placements"][h] = dist["placements"].get(h, 0) + 1
        b, z = r["base"], r["zero"]
        rep = {"files": {"prog.comp": c["zero"], "without_zero_length.comp": c["base"]},
               "reproduce": "compile both with compiler.compiler('prog',[], 'out.pil','out.save',None,True,None); Convert('out.pil').get_constraints()"}
        failures += c01.compare({"prog": c["prog2"], "text": c["zero"]}, m, z)
        if b.get("outcome") != "ok":
            continue
        if z.get("outcome") != "ok":
            failures.append({"kind": "predicate", "key": "zero-rejected", "summary": "inserting zero-length domains makes an accepted program fail: %s" % z.get("error", "")[:150], "replay": rep}); continue
        dist["both_accepted"] += 1
        if c["touched"]: nontrivial.add(c["zero"])
        if b.get("lines") is None or z.get("lines") is None:
            failures.append({"kind": "predicate", "key": "unreadable", "summary": "emitted .pil unreadable: %s" % (z.get("unreadable") or b.get("unreadable")), "replay": rep}); continue
        for l in z["lines"]:
            if (l[0] == "sequence" and l[3] == 0) or (l[0] == "sup-sequence" and (l[3] == 0 or not l[2])) or (l[0] == "strand" and not l[3]):
                failures.append({"kind": "predicate", "key": "empty-object", "summary": "an empty object is emitted: %r" % (l,), "replay": rep})
        try:
            d1 = c10.rename_anon(pepper.den_pil(b["lines"]), 0); d2 = c10.rename_anon(pepper.den_pil(z["lines"]), 0)
            if d1 != d2:
                part = [k for k in d1 if d1[k] != d2[k]][0]
                failures.append({"kind": "predicate", "key": "den-changed-" + part, "summary": "inserting zero-length domains changes the emitted design (%s)" % part, "replay": rep})
        except ValueError as e:
            failures.append({"kind": "predicate", "key": "pil-illformed", "summary": "with zero-length domains the emitted .pil is not well formed: %s" % e, "replay": rep})
        for lay in ("strand", "struct"):
            a1, a2 = b["arrays"][lay], z["arrays"][lay]
            if a1["outcome"] == "ok" and a2 != a1:
                failures.append({"kind": "predicate", "key": "arrays-" + lay, "summary": "designer front-end (%s layout) gives different arrays / fails once zero-length domains are inserted: %s" % (lay, a2.get("error", "arrays differ")[:150]), "replay": rep})
        bf, zf = b.get("fixed"), z.get("fixed")
        if bf and bf.get("outcome") == "ok" and bf.get("lines") is not None:
            dist["with_fixed_file"] = dist.get("with_fixed_file", 0) + 1
            frep = dict(rep, files=dict(rep["files"], **{"fix.fixed": c["fixed"]}), reproduce="compile both with --fixed fix.fixed")
            if not zf or zf.get("outcome") != "ok" or zf.get("lines") is None:
                failures.append({"kind": "predicate", "key": "fixed-zero-rejected", "summary": "with a fixed-sequence file, inserting zero-length domains makes an accepted program fail: %s" % (zf or {}).get("error", "")[:150], "replay": frep})
            else:
                try:
                    if c10.rename_anon(pepper.den_pil(bf["lines"]), 0) != c10.rename_anon(pepper.den_pil(zf["lines"]), 0):
                        failures.append({"kind": "predicate", "key": "fixed-den-changed", "summary": "with a fixed-sequence file, inserting zero-length domains changes the templates of other nucleotides", "replay": frep})
                except ValueError as e:
                    failures.append({"kind": "predicate", "key": "fixed-pil-illformed", "summary": "fixed + zero-length: the emitted .pil is not well formed: %s" % e, "replay": frep})
                if bf.get("finish", {}).get("outcome") == "ok" and zf.get("finish", {}).get("outcome") != "ok":
                    failures.append({"kind": "predicate", "key": "fixed-finish", "summary": "with a fixed-sequence file, the finisher cannot process the program once zero-length domains are inserted: %s" % str(zf.get("finish"))[:200], "replay": frep})
                elif bf.get("finish", {}).get("outcome") == "ok": dist["fixed_finished_both"] = dist.get("fixed_finished_both", 0) + 1
        if z["arrays"]["strand"]["outcome"] == "ok" and z.get("finish", {}).get("outcome") != "ok":
            failures.append({"kind": "predicate", "key": "finish", "summary": "the finisher cannot process the program with zero-length domains: %s" % str(z.get("finish"))[:200], "replay": rep})
    # system leg: a signal bound to a super-sequence port with a zero-length member, both back-ends
    scases = sys_leg(rng, 12 if tier == "quick" else 150)
    simpl = fw.run_impl("props.c14", "sys_case", scases, per_case_timeout=60)
    dist["system_cases"] = len(scases)
    for sc, r in zip(scases, simpl):
        rep = {"files": {"prog.comp": sc["zero"], "top.sys": sc["sys"], "without_zero_length.comp": sc["base"]}, "reproduce": "pepper-compiler top (and with --des)"}
        if not isinstance(r, dict) or "zero" not in r:
            failures.append({"kind": "disagreement", "key": "impl-run", "summary": "runner failed: %r" % (r,), "replay": rep}); continue
        for be in ("pil", "des"):
            b, z = r["base"][be], r["zero"][be]
            if b["outcome"] != "ok": continue
            if z["outcome"] != "ok":
                failures.append({"kind": "predicate", "key": "sys-zero-rejected:" + be, "summary": "a zero-length member in a port's super-sequence makes the system fail (%s back-end): %s" % (be, (z.get("error") or "")[:120]), "replay": rep}); continue
            if be == "des":
                why = des_problem(z["text"])
                if why:
                    failures.append({"kind": "predicate", "key": "sys-des", "summary": "with a zero-length member in a port's super-sequence the .des cannot be processed: " + why, "replay": rep})
            else:
                try:
                    d1 = c10.rename_anon(pepper.den_pil(pepper.read_pil(b["text"])), 0); d2 = c10.rename_anon(pepper.den_pil(pepper.read_pil(z["text"])), 0)
                    if d1 != d2:
                        failures.append({"kind": "predicate", "key": "sys-den-changed", "summary": "a zero-length member in a port's super-sequence changes the system's emitted design", "replay": rep})
                except ValueError as e:
                    failures.append({"kind": "predicate", "key": "sys-pil-illformed", "summary": "system .pil not well formed with a zero-length member: %s" % e, "replay": rep})
    return {"evaluations": len(cases) + 4 * len(scases), "distinct_nontrivial": len(nontrivial),
            "rule": "generated components without zero-length domains, and the same with zero-length base sequences (\"0N\", \"?S\" : 0, several zero parts), zero-length super-sequences, zero-length anonymous regions inserted first / middle / last into super-sequences and strands, starred, through domains(), and as the last definition; both compiled; designs compared modulo anonymous numbering, designer arrays compared in both layouts, the zero-length variant pushed through fill -> .mfe -> finish; plus components with an output port `zport = a <zero-length>` instantiated twice in a system on one signal, compiled with the PIL and the NUPACK back-end with and without the zero-length member (same design; every sequence a .des assignment uses must be defined). Non-trivial = at least one insertion into an item list and both variants accepted",
            "samples": [c["zero"] for c in cases[:2]], "distribution": dist, "failures": failures}

def replay(path):
    print("re-run the check; cases are regenerated from the seed"); return 0
