"""C08 structure notations: theorems on the notation model + correspondence with
HU2dotParen / extended2dotParen / dotParen2HU / parse_structure_statement / add_structure."""
import random, re
import framework as fw
import pepper

ID = "C08"
LEVEL = "proof"
THEOREMS = ["C08_hu_balanced", "C08_ext_accept", "C08_ext_rejects", "C08_notations_agree", "C08_compiled_balanced",
            "C08_hu_roundtrip", "C08_domain_balanced", "C08_domain_lengths", "C08_structure_ok"]
TRUSTED = ["pyparsing lexing of HU / run-length / plain notation is exercised with random spacing, not modelled",
           "harness/pepper.py generators of balanced structures and of their spellings; the harness's reader of dotParen2HU's text"]
ASSUMPTIONS = ["DotParen_grammar acceptance is modelled as parenthesis balance (strand breaks and dots free)"]

def parse_hu_text(t):
    """own reader of HU text -> AST"""
    toks = re.findall(r"\+|U\d+|H\d+\(|\)", t)
    if "".join(toks) != re.sub(r"\s+", "", t):
        raise ValueError(t)
    pos = 0
    def seq():
        nonlocal pos
        out = []
        while pos < len(toks) and toks[pos] != ")":
            tk = toks[pos]; pos += 1
            if tk == "+": out.append(["+"])
            elif tk[0] == "U": out.append(["U", int(tk[1:])])
            else:
                body = seq()
                assert toks[pos] == ")"; pos += 1
                out.append(["H", int(tk[1:-1]), body])
        return out
    r = seq()
    if pos != len(toks): raise ValueError(t)
    return r

def impl_case(case):
    from peppercompiler import HU2dotParen as H
    from peppercompiler.component_parser_regex import parse_structure_statement
    def call(f, *a):
        try:
            return ["ok", f(*a)]
        except SystemExit:
            return ["rejected"]
        except BaseException as e:
            return ["rejected"]
    k = case["kind"]
    if k == "spell":
        out = {}
        out["hu"] = call(H.HU2dotParen, case["hu_text"])
        out["ext"] = call(H.extended2dotParen, case["ext_text"])
        out["plain"] = call(H.extended2dotParen, case["plain_text"])
        r = call(H.dotParen2HU, case["dp"])
        out["dp2hu"] = r
        if r[0] == "ok":
            out["roundtrip"] = call(H.HU2dotParen, r[1])
        for tag in ("hu_text", "ext_text", "plain_text"):
            r = call(parse_structure_statement, "structure [3nt] X = s1 + s2 : " + case[tag])
            out["stmt_" + tag] = ["ok", r[1][3][1], r[1][0]] if r[0] == "ok" else r
        # the same HU text with blanks inside the terms (`U 2 H 3 ( .. )`): another spelling of the same structure
        spaced = re.sub(r"(\d+)\(", r"\1 (", re.sub(r"([UH])(\d+)", r"\1 \2", case["hu_text"]))
        out["hu_spaced"] = call(H.HU2dotParen, spaced)
        r = call(parse_structure_statement, "structure [3nt] X = s1 + s2 : " + spaced)
        out["stmt_hu_spaced"] = ["ok", r[1][3][1], r[1][0]] if r[0] == "ok" else r
        return out
    if k == "bad":
        return {"ext": call(H.extended2dotParen, case["text"]), "dp2hu": call(H.dotParen2HU, case["plain"])}
    if k == "domain":
        import implrun
        r = implrun.compile_files({"prog.comp": case["text"]}, "prog")
        if r["outcome"] == "ok":
            m = re.search(r"structure \[\d+nt\] X = [^:]*: (\S*)", r["text"])
            return {"outcome": "ok", "struct": m.group(1) if m else None}
        return {"outcome": "rejected", "error": r.get("error")}

def gen_spell(rng):
    lens = [rng.choice([0, 1, 2, 3, 5, 8, 13, 30]) for _ in range(rng.choice([1, 1, 2, 3, 4]))]
    dp = pepper.random_structure(rng, lens)
    hu = pepper.tree_to_hu(rng, pepper.dp_to_tree(dp))
    ext = pepper.dp_to_ext(rng, dp)
    plain = pepper.dp_to_ext(rng, dp, plain=True)
    return {"kind": "spell", "dp": dp, "hu": hu, "ext": ext, "plain": plain,
            "hu_text": pepper.hu_text(rng, hu) or "U0", "ext_text": pepper.ext_text(rng, ext) or "0.", "plain_text": pepper.ext_text(rng, plain, plain=True) or "0."}

def gen_bad(rng):
    c = gen_spell(rng)
    dp = list(c["dp"])
    for _ in range(rng.choice([1, 1, 2])):
        i = rng.randrange(len(dp) + 1)
        if rng.random() < 0.5 and dp:
            del dp[min(i, len(dp) - 1)]
        else:
            dp.insert(i, rng.choice("()"))
    dp = "".join(dp)
    ext = pepper.dp_to_ext(rng, dp)
    return {"kind": "bad", "dp": dp, "ext": ext, "text": pepper.ext_text(rng, ext) or "0.", "plain": dp}

def gen_domain(rng):
    ns = rng.choice([1, 1, 2, 3])
    doms = [[rng.choice([0, 1, 2, 3, 4, 6]) for _ in range(rng.choice([1, 2, 3, 4, 5]))] for _ in range(ns)]
    for d in doms:
        if sum(d) == 0: d[0] = 2
    equalize = rng.random() < 0.6
    nd = sum(len(d) for d in doms)
    flatlens = [L for d in doms for L in d]
    syms = ["."] * nd; opened = []
    for i in range(nd):
        r = rng.random()
        if opened and r < 0.35:
            j = opened[-1]
            if (not equalize) or flatlens[j] == flatlens[i]:
                opened.pop(); syms[j] = "("; syms[i] = ")"
        elif r < 0.65:
            opened.append(i)
    if rng.random() < 0.3:
        # sibling helices whose closing lengths are a permutation of the opening lengths:
        # the bracket counts still agree, the nesting does not
        h = rng.choice([2, 2, 3])
        opens = [rng.choice([1, 2, 3, 4]) for _ in range(h)]
        closes = list(opens); rng.shuffle(closes)
        d = []; sy = []
        for a, b in zip(opens, closes):
            d += [a, rng.choice([0, 1, 3]), b]; sy += ["(", ".", ")"]
        doms = [d]; syms = sy
    k = 0; segs = []
    for d in doms:
        segs.append("".join(syms[k:k + len(d)])); k += len(d)
    dl = "+".join(segs)
    if rng.random() < 0.1 and nd > 1:   # wrong size
        dl = dl[:-1] if rng.random() < 0.5 else dl + "."
    lines = ["declare component prog: -> "]
    names = []
    for si, d in enumerate(doms):
        items = []
        for di, L in enumerate(d):
            lines.append('sequence d%d_%d = "%dN"' % (si, di, L)); items.append("d%d_%d" % (si, di))
        lines.append("strand s%d = %s" % (si, " ".join(items))); names.append("s%d" % si)
    ext = pepper.dp_to_ext(rng, dl)
    lines.append("structure X = %s : domain %s" % (" + ".join(names), pepper.ext_text(rng, ext) or "0."))
    return {"kind": "domain", "dl": dl, "doms": doms, "text": "\n".join(lines) + "\n"}

def run(tier, seed, build):
    rng = random.Random(seed * 31 + 8)
    n = 1200 if tier == "quick" else 30000
    cases = []
    for i in range(n):
        r = rng.random()
        cases.append(gen_spell(rng) if r < 0.6 else gen_bad(rng) if r < 0.75 else gen_domain(rng))
    impl = fw.run_impl("props.c08", "impl_case", cases)
    reqs = []; idx = []
    for i, c in enumerate(cases):
        if c["kind"] == "spell":
            for tag, note in (("hu", ["hu", c["hu"]]), ("ext", ["ext", c["ext"]]), ("plain", ["ext", c["plain"]])):
                reqs.append(["C08", ["snot", note]]); idx.append((i, tag))
            reqs.append(["C08", ["dp2hu", c["dp"]]]); idx.append((i, "dp2hu"))
        elif c["kind"] == "bad":
            reqs.append(["C08", ["snot", ["ext", c["ext"]]]]); idx.append((i, "ext"))
            reqs.append(["C08", ["dp2hu", c["plain"]]]); idx.append((i, "dp2hu"))
        else:
            reqs.append(["C08", ["domain", c["dl"], c["doms"]]]); idx.append((i, "domain"))
    mres = fw.run_model(reqs)
    model = {}
    for (i, tag), m in zip(idx, mres):
        model.setdefault(i, {})[tag] = m
    failures = []; dist = {"spell": 0, "bad": 0, "domain": 0, "domain_rejected": 0, "strands": {}, "H0/U0": 0}
    nontrivial = set()
    def fail(kind, key, summ, c, extra=None):
        failures.append({"kind": kind, "key": key, "summary": summ,
                         "replay": dict({"input": {k: v for k, v in c.items() if k not in ("hu", "ext", "plain")}}, **(extra or {}),
                                        reproduce="cd /repo && /venv/bin/python -c \"from peppercompiler.HU2dotParen import *; print(HU2dotParen(...), extended2dotParen(...), dotParen2HU(...))\"")})
    for i, (c, r) in enumerate(zip(cases, impl)):
        m = model[i]
        dist[c["kind"]] += 1
        if not isinstance(r, dict) or r.get("outcome") in ("timeout", "harness-exception"):
            fail("disagreement", "impl-run", "implementation runner failed: %r" % (r,), c); continue
        if c["kind"] == "spell":
            dp = c["dp"]
            dist["strands"][str(dp.count("+") + 1)] = dist["strands"].get(str(dp.count("+") + 1), 0) + 1
            if "U0" in c["hu_text"] or "H0" in c["hu_text"]: dist["H0/U0"] += 1
            for tag in ("hu", "ext", "plain"):
                want = ["ok", dp]
                mm = ["ok", m[tag][1]] if m[tag][0] == "Ok" else ["rejected"]
                if mm != want:
                    fail("tie", "model-spelling", "model does not compile the %s spelling to its string: %r" % (tag, mm), c)
                if r[tag] != want:
                    fail("predicate", "spelling:" + tag, "the %s spelling %r of %r converts to %r" % (tag, c[tag + "_text"], dp, r[tag]), c)
                st = r["stmt_" + tag + "_text"]
                if st[:2] != want:
                    fail("predicate", "statement:" + tag, "structure statement with the %s spelling %r of %r parses to %r" % (tag, c[tag + "_text"], dp, st), c)
            if r.get("hu_spaced") != ["ok", dp] or r.get("stmt_hu_spaced", [None])[:2] != ["ok", dp]:
                fail("predicate", "spelling:hu-spaced", "the HU spelling %r of %r with blanks inside its terms converts to %r / parses to %r" % (c["hu_text"], dp, r.get("hu_spaced"), r.get("stmt_hu_spaced")), c)
            # dotParen2HU
            if r["dp2hu"][0] != "ok":
                fail("predicate", "dp2hu-rejects", "dotParen2HU rejects the balanced string %r" % dp, c)
            else:
                try:
                    got = parse_hu_text(r["dp2hu"][1])
                except Exception:
                    got = None
                mh = m["dp2hu"]
                if mh[0] != "Ok":
                    fail("tie", "model-dp2hu", "model cannot parse balanced %r" % dp, c)
                else:
                    want_hu = mh[1][0]
                    def norm(h): return [[t[0]] if t[0] == "+" else [t[0], int(t[1])] if t[0] == "U" else [t[0], int(t[1]), norm(t[2])] for t in h]
                    if got is None or norm(got) != norm(want_hu):
                        fail("disagreement", "dp2hu-text", "dotParen2HU(%r) = %r, model gives %r" % (dp, r["dp2hu"][1], want_hu), c)
                if r.get("roundtrip") != ["ok", dp]:
                    fail("predicate", "roundtrip", "HU2dotParen(dotParen2HU(%r)) = %r" % (dp, r.get("roundtrip")), c)
            if len(dp) > 3 and "(" in dp:
                nontrivial.add(dp + "|" + c["hu_text"])
        elif c["kind"] == "bad":
            bal = pepper.balanced(c["dp"])
            mm = "ok" if m["ext"][0] == "Ok" else "rejected"
            if (mm == "ok") != bal:
                fail("tie", "model-balance", "model balance verdict differs from the harness on %r" % c["dp"], c)
            if (r["ext"][0] == "ok") != bal:
                fail("predicate", "unbalanced-accepted" if not bal else "balanced-rejected",
                     "extended2dotParen(%r) -> %r although the string is %sbalanced" % (c["text"], r["ext"], "" if bal else "un"), c)
            elif bal and r["ext"] != ["ok", c["dp"]]:
                fail("predicate", "ext-value", "extended2dotParen(%r) = %r, expected %r" % (c["text"], r["ext"], c["dp"]), c)
            if (r["dp2hu"][0] == "ok") != bal:
                fail("predicate", "dp2hu-balance", "dotParen2HU(%r) -> %r although the string is %sbalanced" % (c["plain"], r["dp2hu"][0], "" if bal else "un"), c)
            if not bal: nontrivial.add("bad|" + c["dp"])
        else:
            mm = m["domain"]
            if mm[0] == "Ok":
                if r.get("outcome") != "ok" or r.get("struct") != mm[1]:
                    ok_expected = pepper.balanced(mm[1])
                    fail("predicate", "domain-expand", "domain-level %r over domains %r compiles to %r, the expansion is %r" % (c["dl"], c["doms"], r.get("struct") or r.get("error"), mm[1]), c)
                nontrivial.add("dom|" + c["dl"] + str(c["doms"]))
            else:
                dist["domain_rejected"] += 1
                if r.get("outcome") == "ok":
                    bad = (not pepper.balanced(r.get("struct") or "")) or mm[1] in ("strand-count", "domain-count")
                    fail("predicate" if bad else "disagreement", "domain-accepted:" + str(mm[1]),
                         "domain-level %r over domains %r is accepted and emits %r (model: %s)" % (c["dl"], c["doms"], r.get("struct"), mm[1]), c)
    return {"evaluations": len(cases), "distinct_nontrivial": len(nontrivial),
            "rule": "60% random balanced multi-strand structures (0-4 strands, lengths 0-30) each spelled in HU (random run splitting, U0/H0, paren merging), run-length and plain notation with random spacing, through HU2dotParen / extended2dotParen / dotParen2HU / parse_structure_statement; 15% corrupted (bracket inserted/deleted); 25% domain-level structures over random domain lengths (40% with unequal paired domains, 10% wrong size) through compiler.compiler. Non-trivial = has a helix, is unbalanced, or is a domain-level case; every HU spelling once more with blanks inside its terms",
            "samples": [{k: v for k, v in c.items() if k not in ("hu", "ext", "plain")} for c in cases[:4]],
            "distribution": dist, "failures": failures}

def replay(path):
    print("re-run the check; cases are regenerated from the seed"); return 0
