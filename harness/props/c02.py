"""C02 system composition: theorems on the system model + correspondence on generated
libraries of components and systems in a directory tree + the denotation-level oracle."""
import os, random, re, shutil
import framework as fw
import pepper

ID = "C02"
LEVEL = "proof"
THEOREMS = ["C02_import_first_match", "C02_args_bound", "C02_args_arity", "C02_signal_parity", "C02_instance_names_prefixed", "C02_compile_keeps_prefix", "C02_load_well_prefixed", "C02_emitted_names_prefixed", "C02_instances_disjoint", "C02_signal_lines_resolve", "C02_equal_line_meaning"]
TRUSTED = ["harness/pepper.py: generator of component / system libraries in a directory tree (sub-directories, include directories, decoys), printer of .sys files, expected_system_den (the specification oracle)",
           "pyparsing grammar of .sys statements is exercised, not modelled; os.path is modelled by path_join / dirname / normalize"]
ASSUMPTIONS = ["instance arguments are integers; include directories are given relative to the invocation directory without '..'"]

def gen_case(rng):
    g = pepper.SysGen(rng)
    top = g.new_sys("proj", g.depth, top=True)
    pepper.add_decoys(g, rng)
    args = [rng.choice([2, 3, 4])] if top["params"] else []
    return {"files": g.files, "entries": g.entries, "includes": list(g.includes), "base": "proj/" + top["name"], "args": args, "_gen": g, "_top": top}

def impl_case(case):
    import implrun
    r = implrun.compile_files(case["files"], case["base"], args=case["args"], includes=case["includes"] or None,
                              synth=case.get("synth", True), fixed=case.get("fixed"))
    if r["outcome"] == "ok" and case.get("synth", True):
        try:
            r["lines"] = pepper.read_pil(r["text"])
        except ValueError as e:
            r["lines"] = None; r["unreadable"] = str(e)
        del r["text"]
    return r

def model_req(case, ctr0, fixed=()):
    return ["sys", [case["entries"], case["includes"], ctr0, case["base"], case["args"], [list(f) for f in fixed]]]

def compare(case, m, r, spec):
    fails = []
    rep = {"files": case["files"], "argv": "pepper-compiler %s %s %s" % (case["base"], " ".join(map(str, case["args"])), " ".join("-I " + i for i in case["includes"])),
           "reproduce": "write the files into a directory, cd there, run the argv line (or compiler.compiler(base, args, 'out.pil', 'out.save', None, True, includes))"}
    if r.get("outcome") == "ok":
        if r.get("lines") is None:
            return [{"kind": "predicate", "key": "unreadable", "summary": "emitted .pil unreadable: %s" % r.get("unreadable"), "replay": rep}]
        try:
            got = pepper.den_pil(r["lines"])
        except ValueError as e:
            got = None
            fails.append({"kind": "predicate", "key": "pil-illformed", "summary": "the emitted .pil is not well formed: %s" % e, "replay": rep})
        if got is not None and spec is not None:
            for part in ("doms", "named", "strands", "structs", "kins", "equals"):
                if got[part] != spec[part]:
                    a, b = got[part], spec[part]
                    if isinstance(a, dict): diff = [k for k in set(a) | set(b) if a.get(k) != b.get(k)][:3]
                    else: diff = [i for i in range(max(len(a), len(b))) if i >= len(a) or i >= len(b) or a[i] != b[i]][:3]
                    what = "signal wiring / orientation (equal lines)" if part == "equals" else part
                    fails.append({"kind": "predicate", "key": "den-" + part, "summary": "the emitted specification does not denote the composed system: %s differ at %r" % (what, diff),
                                  "replay": dict(rep, expected=str(b)[:1200], observed=str(a)[:1200])})
                    break
    elif spec is not None:
        fails.append({"kind": "predicate", "key": "rejected", "summary": "a well-formed system is rejected: %s" % r.get("error", "")[:160], "replay": rep})
    if m[0] == "Ok":
        ml = pepper.canon_model_lines(m[1][1])
        if r.get("outcome") != "ok":
            fails.append({"kind": "disagreement", "key": "model-accepts", "summary": "model compiles, implementation rejects: %s" % r.get("error", "")[:150], "replay": rep})
        elif r.get("lines") is not None and ml != r["lines"]:
            d = [(a, b) for a, b in zip(ml, r["lines"]) if a != b][:2] or [("line count", len(ml), len(r["lines"]))]
            fails.append({"kind": "disagreement", "key": "lines", "summary": "model and implementation emit different PIL: %r" % (d,), "replay": rep})
    elif r.get("outcome") == "ok":
        fails.append({"kind": "disagreement", "key": "model-rejects:" + str(m[1]), "summary": "model rejects (%s), implementation compiles" % m[1], "replay": rep})
    return fails

def wrap_argument(rng, case):
    """the same library with one literal argument k of a parameterised component written as the list [k]:
    the argument must reach the template unchanged, where it cannot be used as a length, so the compile
    must fail (it succeeds only if something on the way unwrapped or dropped the list)"""
    import re
    files = dict(case["files"])
    cands = [(p, m) for p, t in files.items() if p.endswith(".sys") for m in re.finditer(r"=\s*(P\d+_\d+|\w+)\((\d+)\)\s*:", t)
             if any(it["kind"] == "comp" and it["params"] and it["name"] == m.group(1) for it in case["_gen"].items.values())]
    if not cands: return None
    p, m = rng.choice(cands)
    t = files[p]
    files[p] = t[:m.start(2)] + "[" + m.group(2) + "]" + t[m.end(2):]
    return {"files": files, "includes": case["includes"], "base": case["base"], "args": case["args"], "_changed": p}

def run(tier, seed, build):
    rng = random.Random(seed * 149 + 2)
    n = 400 if tier == "quick" else 4000
    cases = [gen_case(rng) for _ in range(n)]
    for i, c in enumerate(cases):      # every sixth library: in the component statements of its .sys files a blank separates a signal from its star (`x *`)
        if i % 6 == 4:
            c["files"] = {fn: ("\n".join(re.sub(r"(\w)\*", r"\1 *", l) if re.match(r"\s*component\b", l) else l for l in t.split("\n")) if fn.endswith(".sys") else t) for fn, t in c["files"].items()}
    impl = fw.run_impl("props.c02", "impl_case", [{k: v for k, v in c.items() if not k.startswith("_")} for c in cases], per_case_timeout=60)
    wrapped = [w for w in (wrap_argument(rng, c) for c in cases) if w is not None][: max(10, n // 10)]
    wimpl = fw.run_impl("props.c02", "impl_case", [{k: v for k, v in w.items() if not k.startswith("_")} for w in wrapped], per_case_timeout=60)
    model = fw.run_model([model_req(c, r.get("ctr0", 0) if isinstance(r, dict) else 0) for c, r in zip(cases, impl)])
    failures = []; nontrivial = set()
    dist = {"accepted": 0, "rejected": 0, "depth": {}, "files": {}, "with_includes": 0, "with_subdirs": 0, "with_params": 0, "shared_signals": 0, "starred_bindings": 0}
    for c, m, r in zip(cases, model, impl):
        if not isinstance(r, dict) or "outcome" not in r or r["outcome"] not in ("ok", "rejected"):
            failures.append({"kind": "disagreement", "key": "impl-run", "summary": "runner failed: %r" % (r,), "replay": {"files": c["files"]}}); continue
        try:
            spec, _ = pepper.expected_system_den(c["_gen"], c["_top"], c["args"], r["ctr0"])
        except (ValueError, KeyError, ZeroDivisionError) as e:
            spec = None
        failures += compare(c, m, r, spec)
        dist["accepted" if r["outcome"] == "ok" else "rejected"] += 1
        dist["depth"][str(c["_gen"].depth)] = dist["depth"].get(str(c["_gen"].depth), 0) + 1
        nf = str(len(c["files"])); dist["files"][nf] = dist["files"].get(nf, 0) + 1
        if c["includes"]: dist["with_includes"] += 1
        if any(p.count("/") > 1 for p in c["files"]): dist["with_subdirs"] += 1
        if c["args"]: dist["with_params"] += 1
        txt = "".join(t for p, t in c["files"].items() if p.endswith(".sys"))
        if "*" in txt: dist["starred_bindings"] += 1
        if r["outcome"] == "ok" and spec is not None and any(len(e) > 2 for e in spec["equals"]):
            dist["shared_signals"] += 1
        if r["outcome"] == "ok" and len(c["files"]) >= 3: nontrivial.add(str(sorted(c["files"].items())))
    dist["list_arguments"] = len(wrapped)
    for w, r in zip(wrapped, wimpl):
        if isinstance(r, dict) and r.get("outcome") == "ok":
            failures.append({"kind": "predicate", "key": "argument-changed", "summary": "an instance argument written as a list ([k]) in %s compiles: it did not reach the parameterised template unchanged" % w["_changed"],
                             "replay": {"files": w["files"], "argv": "pepper-compiler %s %s %s" % (w["base"], " ".join(map(str, w["args"])), " ".join("-I " + i for i in w["includes"]))}})
    return {"evaluations": len(cases) + len(wrapped), "distinct_nontrivial": len(nontrivial),
            "rule": "libraries of generated components (incl. parameterised templates) and systems nested to depth 1-3, placed in the importing directory, in sub-directories (import a/b), or in include directories, with aliases, shared signals, stars on bindings and on port declarations, signals exported twice with different stars, decoy files of the same name (same kind and the other kind) in later directories; a tenth of the libraries again with one literal argument written as a list, which must be rejected; compiled from the parent directory with -I lists. Non-trivial = accepted with at least 3 files",
            "samples": [c["files"] for c in cases[:1]], "distribution": dist, "failures": failures}

def replay(path):
    print("re-run the check; cases are regenerated from the seed"); return 0
