"""C06 valid design -> finished sequences satisfying the source: finish-model theorems +
end-to-end correspondence (in-process and through the three CLIs) against the source denotation."""
import os, random, re, shutil, subprocess, sys
import framework as fw
import pepper, cbuild
from props import c02, c12, c17

ID = "C06"
LEVEL = "proof"
THEOREMS = ["C06_finished_bases_consistent_partial", "C06_concatenations", "C06_finish_succeeds_on_consistent_records", "C06_designed_string_flows", "C06_designed_string_nonvacuous", "C06_fits_check_sound", "C06_loaded_designed_string_flows", "C06_compiled_component_designs", "C06_compiled_design_finishes", "C06_compiled_component_end_to_end", "C06_strand_flattening", "C06_struct_loaded_designed_string_flows", "C06_compiled_design_finishes_struct", "C06_compiled_component_end_to_end_struct", "C06_compiled_system_designs", "C06_record_names_distinct", "C06_compiled_design_finishes_unconditional", "C06_compiled_component_end_to_end_unconditional", "C06_system_design_finishes", "C06_compiled_system_end_to_end", "C06_system_record_names_distinct", "C06_compiled_system_end_to_end_unconditional", "C06_names_ok2b_sound", "C06_fixed_component_end_to_end", "C06_fixed_system_end_to_end", "C06_target_pairs_watson_crick", "C06_equal_ports_agree", "C06_finished_lists_structures_and_strands"]
TRUSTED = c17.TRUSTED + ["stub NUPACK `mfe` executable (answers the all-unpaired structure) so that pepper-design-spurious can run; plain gcc build of spuriousSSM for the CLI leg"]
ASSUMPTIONS = ["assignments are produced by the harness filler (random choice per class representative) and, in the CLI leg, by the real spuriousSSM with imax=30"]

MFE_STUB = '''#!/bin/sh
# stand-in for NUPACK's mfe: answers the all-unpaired structure in nupack_mfe_grammar's format
prefix=""
for a in "$@"; do prefix="$a"; done
python3 - "$prefix" <<'PY'
import sys
p = sys.argv[1]
lines = open(p + ".in").read().split("\\n")
n = int(lines[0]); seqs = lines[1:1 + n]
open(p + ".mfe", "w").write("%d\\n0.0\\n%s\\n" % (sum(map(len, seqs)), "+".join("." * len(s) for s in seqs)))
PY
'''

def parse_seqs(text):
    out = {"sequence": {}, "strand": {}, "structure": {}}
    for line in text.split("\n"):
        m = re.match(r"(sequence|strand|structure) (\S+) = (\S*)$", line)
        if m: out[m.group(1)][m.group(2)] = m.group(3)
    return out

def check_against_source(den, seqs_text, strands_text):
    """the property on the final files; returns list of violation strings"""
    bad = []
    S = parse_seqs(seqs_text)
    comp = {c: pepper.REV_GROUPS["".join(sorted(pepper.BCOMPL[x] for x in g))] for c, g in pepper.GROUPS.items()}
    alpha = {}
    signals = set(e[0][0][0] for e in den["equals"] if e and e[0])
    for d, t in den["doms"].items():
        if d in signals: continue          # the master sequence of a signal exists only in the .pil
        v = S["sequence"].get(d)
        if v is None: bad.append("sequence %s missing from .seqs" % d); continue
        # an undesigned (unused) sequence keeps degenerate codes: each must denote a subset of its constraint
        if len(v) != len(t) or any(b not in pepper.GROUPS or not set(pepper.GROUPS[b]) <= set(pepper.GROUPS.get(c, "")) for b, c in zip(v, t)):
            bad.append("sequence %s = %s does not match its constraint %s" % (d, v, t)); continue
        for i, b in enumerate(v): alpha[(d, i)] = b
    def val(nts):
        try: return "".join(comp[alpha[(d, i)]] if r else alpha[(d, i)] for (d, i, r) in nts)
        except KeyError: return None
    for n, nts in den["named"].items():
        if n in signals: continue
        if S["sequence"].get(n) != val(nts): bad.append("sequence %s = %r is not the concatenation of its domains %r" % (n, S["sequence"].get(n), val(nts)))
    for n, (dummy, nts) in den["strands"].items():
        if S["strand"].get(n) != val(nts): bad.append("strand %s = %r is not the concatenation of its domains %r" % (n, S["strand"].get(n), val(nts)))
    for (opt, n, strands, dp) in den["structs"]:
        want = "+".join(val(den["strands"][s][1]) or "?" for s in strands)
        got = S["structure"].get(n)
        if got != want: bad.append("structure %s = %r, strands give %r" % (n, got, want)); continue
        flat = got.replace("+", ""); st = []; pos = 0
        for ch in dp:
            if ch == "+": continue
            if ch == "(": st.append(pos)
            elif ch == ")":
                o = st.pop()
                if comp.get(flat[o]) != flat[pos]: bad.append("structure %s: pair (%d,%d) %s-%s is not Watson-Crick" % (n, o, pos, flat[o], flat[pos]))
            pos += 1
    for e in den["equals"]:
        # inner systems' signals come first; a signal's master takes, per position, the common bases of its ports
        vs = [val(x) for x in e[1:]]
        sig = e[0][0][0] if e[0] else "?"
        if not vs: continue
        if any(v is None or len(v) != len(e[0]) for v in vs):
            bad.append("ports bound to signal %s have no value / wrong length: %r" % (sig, vs)); continue
        for i in range(len(e[0])):
            g = set.intersection(*[set(pepper.GROUPS[v[i]]) for v in vs])
            if not g:
                bad.append("ports bound to signal %s disagree: %r" % (sig, vs)); break
            alpha[(sig, i)] = pepper.REV_GROUPS["".join(sorted(g))]
    want_strands = ["strand %s\t%s" % (n, val(nts)) for n, (dummy, nts) in den["strands"].items() if not dummy]
    got_strands = [l for l in (strands_text or "").split("\n") if l]
    if sorted(got_strands) != sorted(want_strands):
        bad.append("strands-to-order file is not exactly the non-dummy strands: %r vs %r" % (got_strands[:3], want_strands[:3]))
    return bad

def impl_case(case):
    import implrun
    out = {}
    for so in (False, True):
        p = implrun.pipeline(case["files"], case["base"], args=case["args"], includes=case["includes"] or None, seed=case["seed"] + so, struct_orient=so, fixed=case.get("fixed"))
        shutil.rmtree(p["dir"], ignore_errors=True)
        p.pop("dir", None); p.pop("pil", None)
        if "arrays" in p and p["arrays"].get("outcome") == "ok":
            p["nts_ok"] = implrun.check_arrays(p["arrays"]["eq"], p["arrays"]["wc"], p["arrays"]["st"], p["nts"])
        p.pop("arrays", None)
        out["struct" if so else "strand"] = p
    return out

def cli_leg(case, workdir, ssm_dir, stub_home):
    """the three command-line tools in a fresh directory"""
    d = os.path.join(workdir, "cli%d" % case["seed"])
    os.makedirs(d)
    for n, t in case["files"].items():
        p = os.path.join(d, n); os.makedirs(os.path.dirname(p), exist_ok=True); open(p, "w").write(t)
    env = dict(os.environ, PYTHONPATH=fw.REPO, PATH=ssm_dir + ":" + os.environ["PATH"], NUPACKHOME=stub_home, PYTHONHASHSEED="0")
    base = case["base"]
    steps = [["/venv/bin/pepper-compiler", base] + [str(a) for a in case["args"]] + [x for i in case["includes"] for x in ("-I", i)],
             ["/venv/bin/pepper-design-spurious", base + ".pil", "imax=30"],
             ["/venv/bin/pepper-finish", base, "--strands", base + ".strands"]]
    for st in steps:
        try:
            p = subprocess.run(st, cwd=d, env=env, stdout=subprocess.PIPE, stderr=subprocess.STDOUT, timeout=120)
        except subprocess.TimeoutExpired:
            return {"outcome": "timeout", "step": st[0]}
        if p.returncode != 0:
            return {"outcome": "failed", "step": os.path.basename(st[0]), "log": p.stdout.decode("latin-1")[-400:]}
    r = {"outcome": "ok", "seqs": open(os.path.join(d, base + ".seqs")).read(), "strands": open(os.path.join(d, base + ".strands")).read(),
         "left": sorted(x for x in os.listdir(os.path.join(d, os.path.dirname(base))) if x.endswith((".st", ".wc", ".eq", ".sp")))}
    return r

def double_star(case):
    """some sub-SYSTEM port declared with a star is bound with a star (the two must cancel)"""
    g = case["_gen"]
    for it in g.items.values():
        if it["kind"] != "sys": continue
        for st, inst in zip([x for x in it["stmts"] if x[0] == "component"], it["insts"]):
            t = inst["item"]
            if t["kind"] != "sys": continue
            decl = t["ins"] + t["outs"]; bind = st[4] + st[5]
            # ... on a signal that is bound at least once more in the same system (a signal with a single
            # binding has nothing to disagree with in the finished sequences)
            uses = {}
            for st2 in [x for x in it["stmts"] if x[0] == "component"]:
                for b2 in st2[4] + st2[5]: uses[b2[0]] = uses.get(b2[0], 0) + 1
            if any(b[1] and d[1] and uses.get(b[0], 0) >= 2 for b, d in zip(bind, decl)): return True
    return False

def neutralise(rng, case):
    """every quoted region of every component becomes all-N, so that the library stays designable whatever the
    orientation of its signals (the orientation is then visible only in the finished sequences)"""
    g = case["_gen"]
    for it in g.items.values():
        if it["kind"] != "comp": continue
        for st in it["prog"]["body"]:
            its = st[2] if st[0] == "seq" else st[3] if st[0] == "strand" else []
            for x in its:
                if x[0] == "nuc":
                    for part in x[1]: part[1] = "N"
        g.files[it["path"]] = pepper.comp_text_tpl(rng, it["prog"], it["params"])
        for e in g.entries:
            if e[0] == it["path"]: e[3] = [pepper.sexp_nums(it["prog"]["decl"]), pepper.sexp_nums(it["prog"]["body"])]
    case["files"] = g.files; case["entries"] = g.entries

# ---- designer-side leg: Convert.process_results + Convert.output against the model `design_results` ----
def parse_records(text):
    lines = text.split("\n"); recs = []; i = 0
    while i + 1 < len(lines):
        m = re.match(r"^\d+:(\S+)$", lines[i])
        if not m: break
        seq = "" if lines[i + 1].startswith(" ") else lines[i + 1].split(" ")[0]
        recs.append([m.group(1), seq]); i += 4
    return recs

def impl_results(case):
    """arrays -> a string (valid, or corrupted in a stated way) -> process_results -> output(findmfe=False) -> records"""
    import implrun, contextlib, io
    d = implrun.fresh_dir()
    out = {}
    try:
        path = os.path.join(d, "doc.pil")
        open(path, "w").write(case["text"])
        for so in (False, True):
            rng = random.Random(case["seed"] * 2 + so)
            a, conv = implrun.designer_arrays(path, so)
            if a["outcome"] != "ok":
                out["struct" if so else "strand"] = {"outcome": "no-arrays"}; continue
            nts = implrun.fill_design(a["eq"], a["wc"], a["st"], rng)
            used = [i for i, e in enumerate(a["eq"]) if e is not None]
            kind = case["kind"]
            if kind == "flip" and used:
                i = rng.choice(used); nts = nts[:i] + rng.choice([b for b in "ACGT" if b != nts[i]]) + nts[i + 1:]
            elif kind == "blank" and used:
                i = rng.choice(used); nts = nts[:i] + " " + nts[i + 1:]
            elif kind == "short" and used:
                nts = nts[:rng.choice(used)]
            elif kind == "degenerate" and used:
                i = rng.choice(used); nts = nts[:i] + rng.choice("NSWRY") + nts[i + 1:]
            try: valid = len(nts) == len(a["eq"]) and implrun.check_arrays(a["eq"], a["wc"], a["st"], nts) is None
            except KeyError: valid = False
            r = {"nts": nts, "valid": valid}
            err = io.StringIO(); mfe = os.path.join(d, "o%d.mfe" % so)
            try:
                with contextlib.redirect_stdout(err), contextlib.redirect_stderr(err):
                    conv.process_results(nts)
                    conv.output(mfe, findmfe=False)
                r.update(outcome="ok", records=parse_records(open(mfe).read()))
            except SystemExit:
                r.update(outcome="failed", error="exit")
            except Exception as e:
                r.update(outcome="failed", error="%s: %s" % (type(e).__name__, str(e)[:150]))
            out["struct" if so else "strand"] = r
        return out
    finally:
        shutil.rmtree(d, ignore_errors=True)

def results_leg(rng, n):
    from props import c04
    docs = [d for d in c04.gen_docs(rng, n)]
    kinds = ["valid", "valid", "valid", "flip", "blank", "short", "degenerate"]
    cases = [{"text": d["text"], "seed": rng.randrange(10**6), "kind": kinds[i % len(kinds)]} for i, d in enumerate(docs)]
    impl = fw.run_impl("props.c06", "impl_results", cases, per_case_timeout=60)
    reqs = []; where = []
    for i, (d, r) in enumerate(zip(docs, impl)):
        if not isinstance(r, dict) or "strand" not in r: continue
        for lay in ("strand", "struct"):
            if r.get(lay, {}).get("outcome") in ("ok", "failed"):
                reqs.append(["results", [c04.lines_sexp(d["lines"]), lay == "struct", r[lay]["nts"]]]); where.append((i, lay))
    mres = dict(zip(where, fw.run_model(reqs)))
    failures = []; dist = {"runs": 0, "valid_strings": 0, "records_compared": 0, "impl_failed": 0, "kinds": {}}
    for i, (d, c, r) in enumerate(zip(docs, cases, impl)):
        if not isinstance(r, dict) or "strand" not in r:
            failures.append({"kind": "disagreement", "key": "results-run", "summary": "runner failed: %r" % (str(r)[:200],), "replay": {"files": {"doc.pil": d["text"]}}}); continue
        for lay in ("strand", "struct"):
            p = r.get(lay, {})
            if (i, lay) not in mres: continue
            m = mres[(i, lay)]; dist["runs"] += 1; dist["kinds"][c["kind"]] = dist["kinds"].get(c["kind"], 0) + 1
            rep = {"files": {"doc.pil": d["text"]}, "layout": lay, "nts": p["nts"],
                   "reproduce": "conv = Convert('doc.pil', %s); conv.get_constraints(); conv.process_results(nts); conv.output('out.mfe', findmfe=False)" % (lay == "struct")}
            if p["valid"]:
                dist["valid_strings"] += 1
                if p["outcome"] != "ok":
                    failures.append({"kind": "predicate", "key": "results-fail", "summary": "a string satisfying the arrays is refused by process_results / output (%s layout): %s" % (lay, p.get("error", "")[:160]), "replay": rep}); continue
            if p["outcome"] == "ok":
                if m[0] != "ok":
                    failures.append({"kind": "disagreement", "key": "results-model-rejects", "summary": "model refuses the designed string (%s), implementation writes records (%s layout)" % (m[1], lay), "replay": rep})
                else:
                    dist["records_compared"] += 1
                    names = [x[0] for x in p["records"]]
                    if len(set(names)) != len(names):        # hypothesis of the composed theorem (C06_compiled_design_finishes)
                        failures.append({"kind": "tie", "key": "record-names", "summary": "two records of the .mfe carry one name: %r" % sorted(n for n in set(names) if names.count(n) > 1)[:3], "replay": rep})
                    a = sorted((x[0], x[1]) for x in m[1]); b = sorted((x[0], x[1]) for x in p["records"])
                    if a != b:
                        diff = [x for x in a if x not in b][:2] + [x for x in b if x not in a][:2]
                        failures.append({"kind": "disagreement", "key": "results-records", "summary": "model and implementation write different .mfe records (%s layout): %r" % (lay, diff), "replay": rep})
            else:
                dist["impl_failed"] += 1
                if m[0] == "ok":
                    failures.append({"kind": "disagreement", "key": "results-model-accepts", "summary": "model writes records, implementation fails (%s layout): %s" % (lay, p.get("error", "")[:160]), "replay": rep})
    return failures, dist

def design_case(case):
    import implrun
    return implrun.pipeline_design(case["files"], case["base"], args=case["args"], includes=case["includes"] or None, seed=case["seed"],
                                   struct_orient=case["struct"], trace=case["trace"])

def big_program(k, L):
    """k probes: a 20 nt helix whose top strand carries one shared unpaired linker of L nt"""
    rng = random.Random(0)
    body = [["seq", "linker", [["nuc", [[L, "N"]]]], None]]
    for i in range(k):
        dp = "(" * 20 + "." * L + "+" + ")" * 20
        body += [["seq", "h%d" % i, [["nuc", [[1, "S"], [18, "N"], [1, "W"]]]], ["Some", 20]],
                 ["strand", False, "T%d" % i, [["ref", "h%d" % i, False], ["ref", "linker", False]], None],
                 ["strand", False, "B%d" % i, [["ref", "h%d" % i, True]], None],
                 ["struct", 1, "P%d" % i, ["T%d" % i, "B%d" % i], False, ["ext", pepper.dp_to_ext(rng, dp)]]]
    return {"decl": ["prog", [], []], "body": body}

def design_leg(rng, tier, cases, impl):
    """the hand-over as pepper-design-spurious performs it: arrays through the .st/.wc/.eq files, an external designer,
    its answer read back from the .sp file by design(), .mfe, finish - checked against the source"""
    nsmall = 8 if tier == "quick" else 80
    sel = []
    for c, r in zip(cases, impl):
        if len(sel) >= nsmall: break
        if isinstance(r, dict) and r.get("strand", {}).get("outcome") == "ok":
            sel.append(dict(c, struct=(len(sel) % 2 == 1 and r.get("struct", {}).get("outcome") == "ok"), trace=rng.choice([0, 3, 400])))
    # designs whose arrays are far longer than any buffer one would think of (one in the quick tier)
    for (k, L, so) in ([(12, 3000, False)] if tier == "quick" else [(12, 3000, False), (6, 3000, True), (12, 6000, False)]):
        prog = big_program(k, L)
        sel.append({"files": {"prog.comp": pepper.comp_text(random.Random(1), prog)}, "includes": [], "base": "prog", "args": [], "_prog": prog,
                    "seed": rng.randrange(10**6), "struct": so, "trace": 5, "_big": True})
    res = fw.run_impl("props.c06", "design_case", [{k: v for k, v in c.items() if not k.startswith("_")} for c in sel], per_case_timeout=900, chunksize=1)
    failures = []; dist = {"runs": 0, "ok": 0, "struct_layout": 0, "max_positions": 0}
    for c, r in zip(sel, res):
        dist["runs"] += 1; dist["struct_layout"] += int(c["struct"])
        rep = {"files": c["files"], "layout": "struct" if c["struct"] else "strand",
               "argv": "pepper-compiler %s; spurious_design.design(...) with a stand-in designer answering an assignment that satisfies the written files (seed=%d, %d trace lines); pepper-finish" % (c["base"], c["seed"], c["trace"])}
        if not isinstance(r, dict) or r.get("outcome") != "ok":
            failures.append({"kind": "predicate", "key": "design:" + (r.get("stage", "?") if isinstance(r, dict) else "runner"),
                             "summary": "a design accepted in process fails when handed over through design(): %s" % (str(r.get("error") if isinstance(r, dict) else r)[:300]), "replay": rep}); continue
        dist["max_positions"] = max(dist["max_positions"], r.get("positions", 0))
        try:
            if "_prog" in c:
                den = pepper.den_src(c["_prog"], "", r["ctr0"]); den["equals"] = []
            else:
                den, _ = pepper.expected_system_den(c["_gen"], c["_top"], c["args"], r["ctr0"])
        except (ValueError, KeyError, ZeroDivisionError, TypeError):
            continue
        bad = check_against_source(den, r["seqs"], r["strands"])
        if bad:
            failures.append({"kind": "predicate", "key": "design-seqs", "summary": "hand-over through design(): finished sequences do not satisfy the source: %s" % "; ".join(bad[:2])[:300], "replay": rep})
        else:
            dist["ok"] += 1
    return failures, dist

def run(tier, seed, build):
    rng = random.Random(seed * 173 + 6)
    n = 60 if tier == "quick" else 800
    ncli = 4 if tier == "quick" else 40
    cases = []
    for i in range(n):
        if rng.random() < 0.5:
            prog = pepper.sat_component(rng, name="prog", allow_zero=rng.random() < 0.5)
            # an unused sequence with a degenerate template, a dummy strand
            if rng.random() < 0.5: prog["body"].append(["seq", "unusedq", [["nuc", [[1, "S"], [2, "N"], [1, "W"]]]], None])
            c = {"files": {"prog.comp": pepper.comp_text(rng, prog)}, "entries": [["prog.comp", False, [], [prog["decl"], prog["body"]]]],
                 "includes": [], "base": "prog", "args": [], "_prog": prog}
        else:
            c = c02.gen_case(rng)
            if i % 4 == 1:      # every fourth case: a nested system whose starred port is bound with a star
                for _ in range(1500):
                    if double_star(c): break
                    c = c02.gen_case(rng)
                neutralise(rng, c)
        if i == 11:     # once per run: a wildcard region written after a nested super-sequence (item list and flattened list then differ in length)
            prog = pepper.sat_component(rng, name="prog", allow_zero=False)
            prog["body"] += [["seq", "wa", [["nuc", [[4, "N"]]]], None], ["seq", "wb", [["nuc", [[3, "S"]]]], None],
                             ["seq", "wab", [["ref", "wa", False], ["ref", "wb", False]], None],
                             ["strand", False, "wT", [["ref", "wab", False], ["nuc", [["?", "N"]]], ["ref", "wa", True]], ["Some", 14]],
                             ["struct", 1, "wTX", ["wT"], False, ["ext", [[14, "."]]]]]
            c = {"files": {"prog.comp": pepper.comp_text(rng, prog)}, "entries": [["prog.comp", False, [], [prog["decl"], prog["body"]]]],
                 "includes": [], "base": "prog", "args": [], "_prog": prog}
        forced_sig = None
        if i == 7:      # once per run: a system with a signal that ties at least two ports, fixed to a string that pins nothing
            for _ in range(600):
                c = c02.gen_case(rng)
                try: d7, _ = pepper.expected_system_den(c["_gen"], c["_top"], c["args"], 0)
                except (ValueError, KeyError, ZeroDivisionError, TypeError): d7 = None
                multi = [e for e in (d7["equals"] if d7 else []) if e and e[0] and "-" not in e[0][0][0] and len(e) > 2 and len(e[0]) > 2]
                if multi:
                    e = rng.choice(multi); forced_sig = [["signal", e[0][0][0], "".join(rng.choice("NNNS") for _ in e[0])]]
                    if c12.expected_fixed(d7, forced_sig)[0] is None: forced_sig = [["signal", e[0][0][0], "N" * len(e[0])]]
                    break
        c["seed"] = rng.randrange(10**6)
        c["fixed_entries"] = forced_sig or []
        if i == 3 and "_prog" in c:      # once per run: a sequence on no strand, pinned completely by the fixed file
            if not any(st[0] == "seq" and st[1] == "unusedq" for st in c["_prog"]["body"]):
                c["_prog"]["body"].append(["seq", "unusedq", [["nuc", [[1, "S"], [2, "N"], [1, "W"]]]], None])
                c["files"] = {"prog.comp": pepper.comp_text(rng, c["_prog"])}; c["entries"] = [["prog.comp", False, [], [c["_prog"]["decl"], c["_prog"]["body"]]]]
            c["fixed_entries"] = [["sequence", "unusedq", rng.choice(["CAGA", "GTCT", "CCAA"])]]
        elif i % 4 == 3 and not forced_sig:                 # every fourth case: a fixed-sequence file the specification accepts (sequences, strands, structures, signals)
            try:
                if "_prog" in c:
                    den0 = pepper.den_src(c["_prog"], "", 0)
                    if den0 is not None: den0["equals"] = []
                else:
                    den0, _ = pepper.expected_system_den(c["_gen"], c["_top"], c["args"], 0)
            except (ValueError, KeyError, ZeroDivisionError, TypeError):
                den0 = None
            for _ in range(6):
                if den0 is None: break
                ents = [e for e in c12.gen_fixed(rng, den0) if "_Anon" not in e[1] and not e[1].startswith("nosuch")]
                if ents and c12.expected_fixed(den0, ents)[0] is not None:
                    c["fixed_entries"] = ents; break
        if c["fixed_entries"]:
            c["files"] = dict(c["files"]); c["files"]["fix.fixed"] = c12.fixed_text(rng, c["fixed_entries"]); c["fixed"] = "fix.fixed"
        cases.append(c)
    impl = fw.run_impl("props.c06", "impl_case", [{k: v for k, v in c.items() if not k.startswith("_") and k != "fixed_entries"} for c in cases], per_case_timeout=120)
    # model: finish on the records of the real .mfe
    reqs = []; where = []
    for ci, (c, r) in enumerate(zip(cases, impl)):
        if isinstance(r, dict):
            for lay in ("strand", "struct"):
                p = r.get(lay, {})
                if p.get("outcome") == "ok":
                    recs = c17.read_mfe(p["mfe"])
                    if recs is not None:
                        reqs.append(["finish", [c["entries"], c["includes"], p["ctr0"], c["base"], c["args"], [list(e) for e in c["fixed_entries"]], [[a, b] for a, b in recs]]]); where.append((ci, lay))
    mres = dict(zip(where, fw.run_model(reqs)))
    failures = []; nontrivial = set()
    dist = {"with_fixed_file": sum(1 for c in cases if c["fixed_entries"]), "pipelines": 0, "completed": 0, "no_arrays": 0, "components": 0, "systems": 0, "cli_runs": 0, "cli_ok": 0, "model_compared": 0}
    for ci, (c, r) in enumerate(zip(cases, impl)):
        if not isinstance(r, dict) or "strand" not in r:
            failures.append({"kind": "disagreement", "key": "impl-run", "summary": "runner failed: %r" % (str(r)[:300],), "replay": {"files": c["files"]}}); continue
        dist["components" if "_prog" in c else "systems"] += 1
        for lay in ("strand", "struct"):
            p = r[lay]; dist["pipelines"] += 1
            rep = {"files": c["files"], "layout": lay, "argv": "pepper-compiler %s%s; pepper-design-spurious %s (or Convert + any assignment satisfying the arrays); pepper-finish %s" % (c["base"], " --fixed fix.fixed" if c["fixed_entries"] else "", "--struct" if lay == "struct" else "", c["base"])}
            if p["stage"] in ("compile", "arrays") and p["outcome"] != "ok":
                dist["no_arrays"] += 1; continue
            if p.get("nts_ok"):
                failures.append({"kind": "tie", "key": "filler", "summary": "harness filler produced a string violating the arrays: %s" % p["nts_ok"], "replay": rep}); continue
            if p["outcome"] != "ok":
                failures.append({"kind": "predicate", "key": "pipeline-fails", "summary": "an assignment satisfying the arrays does not flow through (%s layout): %s" % (lay, (p.get("error") or "")[:200]), "replay": dict(rep, nts=p.get("nts"))}); continue
            dist["completed"] += 1
            try:
                if "_prog" in c:
                    den = pepper.den_src(c["_prog"], "", p["ctr0"])
                    if den is not None: den["equals"] = []
                else:
                    den, _ = pepper.expected_system_den(c["_gen"], c["_top"], c["args"], p["ctr0"])
            except (ValueError, KeyError, ZeroDivisionError):
                den = None
            if den is not None:
                bad = check_against_source(den, p["seqs"], p["strands"])
                if bad:
                    failures.append({"kind": "predicate", "key": "seqs:" + re.sub(r"\S*\d\S*|'.*", "", bad[0])[:40].strip(), "summary": "finished sequences do not satisfy the source (%s layout): %s" % (lay, "; ".join(bad[:2])[:400]), "replay": dict(rep, nts=p.get("nts"), seqs=p["seqs"][:1500])})
                nontrivial.add((ci, lay))
            m = mres.get((ci, lay))
            if m is not None:
                dist["model_compared"] += 1
                if m[0] != "Ok":
                    failures.append({"kind": "disagreement", "key": "model-refuses", "summary": "model refuses (%s) the design finish accepts" % m[1], "replay": rep})
                else:
                    S = parse_seqs(p["seqs"])
                    ms = {a: b for a, b in m[1][0]}; mt = {a: b for a, _, b in m[1][1]}; mu = {a: b for a, b in m[1][2]}
                    if ms != S["sequence"] or mt != S["strand"] or mu != S["structure"]:
                        diff = [k for k in set(ms) | set(S["sequence"]) if ms.get(k) != S["sequence"].get(k)][:3]
                        failures.append({"kind": "disagreement", "key": "seqs-file", "summary": "model and finish write different sequences, e.g. %r" % diff, "replay": rep})
    # CLI leg
    ssm, log = cbuild.ssm_plain()
    wd = fw.workdir("c06cli")
    try:
        if ssm is None:
            failures.append({"kind": "tie", "key": "c-build", "summary": "cannot build spuriousSSM: " + log[-200:], "replay": {}})
        else:
            bind = os.path.join(wd, "bin"); os.makedirs(bind); shutil.copy(ssm, os.path.join(bind, "spuriousSSM"))
            stub = os.path.join(wd, "nupack"); os.makedirs(os.path.join(stub, "bin"))
            open(os.path.join(stub, "bin", "mfe"), "w").write(MFE_STUB); os.chmod(os.path.join(stub, "bin", "mfe"), 0o755)
            done = 0
            for ci, (c, r) in enumerate(zip(cases, impl)):
                if done >= ncli: break
                if not (isinstance(r, dict) and r.get("strand", {}).get("outcome") == "ok"): continue
                done += 1; dist["cli_runs"] += 1
                res = cli_leg(c, wd, bind, stub)
                rep = {"files": c["files"], "argv": "pepper-compiler / pepper-design-spurious (imax=30, NUPACK stub) / pepper-finish --strands on " + c["base"]}
                if res["outcome"] != "ok":
                    failures.append({"kind": "predicate", "key": "cli:" + res.get("step", "?"), "summary": "the command-line pipeline fails at %s: %s" % (res.get("step"), res.get("log", "")[-200:]), "replay": rep}); continue
                dist["cli_ok"] += 1
                # anonymous numbering starts at 0 in a fresh process
                try:
                    if "_prog" in c:
                        den = pepper.den_src(c["_prog"], "", 0); den["equals"] = []
                    else:
                        den, _ = pepper.expected_system_den(c["_gen"], c["_top"], c["args"], 0)
                    bad = check_against_source(den, res["seqs"], res["strands"])
                    if bad:
                        failures.append({"kind": "predicate", "key": "cli-seqs", "summary": "CLI pipeline: finished sequences do not satisfy the source: %s" % "; ".join(bad[:2])[:300], "replay": rep})
                except (ValueError, KeyError, ZeroDivisionError, TypeError):
                    pass
    finally:
        shutil.rmtree(wd, ignore_errors=True)
    # designer-side leg: the model of process_results / output against the implementation, on PIL documents
    rf, rdist = results_leg(rng, 150 if tier == "quick" else 2000)
    failures += rf; dist["results_leg"] = rdist
    df, ddist = design_leg(rng, tier, cases, impl)
    failures += df; dist["design_leg"] = ddist
    return {"evaluations": dist["pipelines"] + dist["cli_runs"] + rdist["runs"] + ddist["runs"], "distinct_nontrivial": len(nontrivial),
            "rule": "satisfiable generated components (incl. unused degenerate sequences, dummy strands, zero-length domains) and system libraries; both layouts; compile -> Convert.get_constraints -> harness assignment satisfying the arrays -> process_results -> .mfe -> finish; the .seqs / strands files checked against the source denotation (constraints, reverse complements, concatenations, Watson-Crick pairs, signal agreement, completeness) and compared with the finish model; plus %d runs through the three command-line tools with the real spuriousSSM; plus the designer-side leg: PIL documents (compiler-emitted and hand-written) x both layouts x a string satisfying the arrays or corrupted in a stated way (one base flipped, a blank, a degenerate code, truncated) through Convert.process_results and Convert.output, records and refusals compared with the model design_results. Non-trivial = completed pipeline with a source denotation" % ncli,
            "samples": [c["files"] for c in cases[:1]], "distribution": dist, "failures": failures}

def replay(path):
    print("re-run the check; cases are regenerated from the seed"); return 0
