"""C12 fixing sequences only narrows constraints: theorems on the fix model + correspondence on
programs x fixed-sequence files (components and nested systems) + the denotation-level oracle."""
import random
import framework as fw
import pepper
from props import c01, c02

ID = "C12"
LEVEL = "proof"
THEOREMS = ["C12_position_is_intersection", "C12_errors", "C12_changes_nothing_else", "C12_failed_fix_unchanged", "C12_starred_domain", "C12_composite_flat", "C12_composite_positions", "C12_signal_fix_changes_nothing_else", "C12_qualified_fix_changes_nothing_else", "C12_nested_binding_star_rule", "C12_double_star_cancels", "C12_entry_changes_only_constraints", "C12_file_changes_only_constraints", "C12_signal_fix_is_leaf_fixes", "C12_qualified_fix_is_fix_at_instance", "C12_unknown_name_only_warns", "C12_leaf_fix_is_flat_fix"]
TRUSTED = c02.TRUSTED + ["harness oracle expected_fixed: per-nucleotide intersection through the denotation (reverse complement for starred positions)"]
ASSUMPTIONS = c02.ASSUMPTIONS + ["fixed strings use the alphabet the fixed-file reader accepts (ATCGNS and '+')"]

GROUPS = pepper.GROUPS; REV = pepper.REV_GROUPS
COMP = {"A": "T", "T": "A", "C": "G", "G": "C", "N": "N", "S": "S"}

def inter(a, b):
    g = set(GROUPS[a]) & set(GROUPS[b])
    return REV["".join(sorted(g))] if g else None

def ccode(c):
    return REV["".join(sorted(pepper.BCOMPL[x] for x in GROUPS[c]))]

def expected_fixed(den, entries):
    """spec: apply the fixed entries to the templates of `den`; returns (doms | None if rejected, notes)"""
    doms = {k: list(v) for k, v in den["doms"].items()}
    sigs = {e[0][0][0]: e for e in den["equals"] if e and e[0]}
    def apply(nts, s):
        if len(nts) != len(s): return "length"
        for (d, i, r), c in zip(nts, s):
            if d not in doms: continue
            x = inter(doms[d][i], ccode(c) if r else c)
            if x is None: return "conflict"
            doms[d][i] = x
        return None
    def wcs(s): return "".join(COMP[c] for c in reversed(s))
    def fix_sig(name, s, depth=0):
        for item in sigs[name][1:]:
            if item and item[0][0] in sigs and all(x[0] == item[0][0] for x in item):
                rev = item[0][2]
                if len(item) != len(s): return "length"
                e = fix_sig(item[0][0], wcs(s) if rev else s, depth + 1)
            else:
                e = apply(item, s)
            if e: return e
        return None
    for kind, name, s in entries:
        err = None
        if kind and kind in "sequence":
            if name in den["named"] and name not in sigs: err = apply(den["named"][name], s)     # a signal is not a sequence of the system
            elif name in den.get("zero", ()): err = None if s == "" else "length"
        elif kind and kind in "signal":
            if name in sigs and "-" not in name: err = fix_sig(name, s)     # only the top system's own signals
        elif kind == "strand":
            if name in den["strands"]: err = apply(den["strands"][name][1], s)
        elif kind == "structure":
            st = [x for x in den["structs"] if x[1] == name]
            if st:
                pieces = s.split("+")
                if len(pieces) != len(st[0][2]): err = "strand-count"
                else:
                    for sn, p in zip(st[0][2], pieces):
                        err = apply(den["strands"][sn][1], p)
                        if err: break
        if err: return None, err
    return {k: "".join(v) for k, v in doms.items()}, None

def gen_fixed(rng, den):
    entries = []
    names = list(den["named"]); strands = list(den["strands"]); structs = [x[1] for x in den["structs"]]
    sigs = [e[0][0][0] for e in den["equals"]]
    def rnd(n, bias=None):
        out = ""
        for i in range(n):
            r = rng.random()
            out += "N" if r < 0.45 else "S" if r < 0.55 else rng.choice("ACGT")
        return out
    cur = {k: list(v) for k, v in den["doms"].items()}
    def compatible(nts):
        """a string compatible with the templates as narrowed so far (90%), position-consistent for repeated domains"""
        s = ""
        chosen = {}
        for (d, i, r) in nts:
            if d not in cur: s += "N"; continue
            if (d, i) in chosen:
                x = chosen[(d, i)]
            else:
                c = cur[d][i]
                opts = [x for x in "ACGTNS" if inter(c, x)]
                x = rng.choice(opts + ["N", "N"]) if opts and rng.random() < 0.93 else rng.choice("ACGT")
                chosen[(d, i)] = x
                y = inter(c, x)
                if y: cur[d][i] = y
            s += ccode(x) if r else x
        return s
    sig_items = {}
    def leaf_items(sname, flipflag, depth=0):
        """(nts, reversed?) of every sequence bound (directly or through sub-systems) to a signal"""
        e = [x for x in den["equals"] if x[0][0][0] == sname][0]
        out = []
        for item in e[1:]:
            if item and item[0][0] in sigs and all(x[0] == item[0][0] for x in item) and depth < 6:
                out += leaf_items(item[0][0], flipflag ^ item[0][2], depth + 1)
            else:
                out.append((item, flipflag))
        return out
    def compatible_multi(sname, L):
        items = leaf_items(sname, False)
        s = ""
        for k in range(L):
            opts = []
            for x in "ACGTNS":
                ok = True
                for item, fl in items:
                    if len(item) != L: continue
                    (d, i, r) = item[L - 1 - k] if fl else item[k]
                    if d in cur and not inter(cur[d][i], ccode(x) if (r ^ fl) else x): ok = False
                if ok: opts.append(x)
            x = rng.choice(opts) if opts and rng.random() < 0.95 else rng.choice("ACGT")
            for item, fl in items:
                if len(item) != L: continue
                (d, i, r) = item[L - 1 - k] if fl else item[k]
                if d in cur:
                    y = inter(cur[d][i], ccode(x) if (r ^ fl) else x)
                    if y: cur[d][i] = y
            s += x
        return s
    for z in den.get("zero", ()):
        if rng.random() < 0.5:      # a zero-length sequence fixed to a non-empty string: a wrong length like any other
            entries.append(["sequence", z, rnd(rng.choice([1, 2, 4]))])
    for _ in range(rng.choice([1, 2, 3, 5, 8])):
        r = rng.random()
        if sigs and rng.random() < 0.25: r = 0.8
        if r < 0.4 and names:
            n = rng.choice(names); entries.append([rng.choice(["sequence", "sequence", "seq"]), n, compatible(den["named"][n])])
        elif r < 0.6 and strands:
            n = rng.choice(strands); entries.append(["strand", n, compatible(den["strands"][n][1])])
        elif r < 0.75 and structs:
            n = rng.choice(structs); st = [x for x in den["structs"] if x[1] == n][0]
            entries.append(["structure", n, "+".join(compatible(den["strands"][s][1]) for s in st[2])])
        elif r < 0.9 and sigs:
            top = [x for x in sigs if "-" not in x]
            multi = [x for x in top if len([y for y in den["equals"] if y[0][0][0] == x][0]) > 2]
            n = rng.choice(multi) if multi and rng.random() < 0.6 else rng.choice(top) if top and rng.random() < 0.8 else rng.choice(sigs)
            e = [x for x in den["equals"] if x[0][0][0] == n][0]
            entries.append(["signal", n, compatible_multi(n, len(e[0])) if rng.random() < 0.9 else rnd(len(e[0]))])
        else:
            entries.append([rng.choice(["sequence", "strand", "structure", "signal"]), "nosuch" + str(rng.randrange(3)), rnd(rng.choice([1, 3, 5]))])
        if entries[-1][0] == "structure" and "+" in entries[-1][2] and rng.random() < 0.25:
            # the strand break one position off: the total length is right, the lengths of two strands are wrong
            t = entries[-1][2]; k = t.index("+")
            if k > 1: entries[-1][2] = t[:k - 1] + "+" + t[k - 1] + t[k + 1:]
        if rng.random() < 0.07 and entries[-1][2]:
            entries[-1][2] = entries[-1][2][:-1] if rng.random() < 0.5 and len(entries[-1][2]) > 1 else entries[-1][2] + "A"      # wrong length
        if not entries[-1][2]: entries[-1][2] = "N"
    return entries

def fixed_text(rng, entries):
    lines = []
    for k, n, s in entries:
        if rng.random() < 0.1: lines.append("# a comment")
        if rng.random() < 0.05: lines.append("")
        lines.append("%s %s%s=%s%s%s" % (k, n, rng.choice([" ", "  ", ""]), rng.choice([" ", ""]), s, "  # why" if rng.random() < 0.1 else ""))
    return "\n".join(lines) + "\n"

def run(tier, seed, build):
    rng = random.Random(seed * 467 + 12)
    n = 400 if tier == "quick" else 5000
    cases = []
    for i in range(n):
        if rng.random() < 0.45:
            prog = pepper.CompGen(rng, name="prog", allow_zero=rng.random() < 0.3, density=0.1).build()
            g = None
            c = {"files": {"prog.comp": pepper.comp_text(rng, prog)}, "entries": [["prog.comp", False, [], [prog["decl"], prog["body"]]]],
                 "includes": [], "base": "prog", "args": [], "_prog": prog}
        else:
            c = c02.gen_case(rng)
        cases.append(c)
    # first pass: unfixed compile to learn the anonymous counter-independent denotation (spec needs names only)
    for c in cases:
        try:
            if "_prog" in c:
                den = pepper.den_src(c["_prog"], "", 0)
                if den is not None: den["equals"] = []
            else:
                den, _ = pepper.expected_system_den(c["_gen"], c["_top"], c["args"], 0)
        except (ValueError, KeyError, ZeroDivisionError):
            den = None
        c["_den0"] = den
        ents = gen_fixed(rng, den) if den else [["sequence", "x", "ACGT"]]
        # anonymous names depend on the process-global counter: do not fix them by name
        ents = [e for e in ents if "_Anon" not in e[1]]
        extra = []
        if den and cases.index(c) % 9 == 4:      # every ninth file also fixes a sequence to a string of N's one position too long or too short
            r2 = random.Random(seed * 131 + cases.index(c))      # (a generator of its own: the other cases stay as they were)
            cands = [nm for nm, nts in den["named"].items() if "_Anon" not in nm and len(nts) >= 2]
            if cands:
                nm = r2.choice(sorted(cands)); extra = [["sequence", nm, "N" * (len(den["named"][nm]) + r2.choice([-1, 1]))]]
        c["fixed_entries"] = ents + extra
        c["files"] = dict(c["files"]); c["files"]["fix.fixed"] = fixed_text(rng, ents) + "".join("%s %s = %s\n" % tuple(e) for e in extra)
        c["fixed"] = "fix.fixed"
    impl = fw.run_impl("props.c02", "impl_case", [{k: v for k, v in c.items() if not k.startswith("_") and k != "fixed_entries"} for c in cases], per_case_timeout=60)
    model = fw.run_model([c02.model_req(c, r.get("ctr0", 0) if isinstance(r, dict) else 0, c["fixed_entries"]) for c, r in zip(cases, impl)])
    failures = []; nontrivial = set()
    dist = {"accepted": 0, "rejected": 0, "components": 0, "systems": 0, "kinds": {}, "spec_rejects": {}, "narrowing": 0}
    for c, m, r in zip(cases, model, impl):
        if not isinstance(r, dict) or r.get("outcome") not in ("ok", "rejected"):
            failures.append({"kind": "disagreement", "key": "impl-run", "summary": "runner failed: %r" % (r,), "replay": {"files": c["files"]}}); continue
        dist["components" if "_prog" in c else "systems"] += 1
        for e in c["fixed_entries"]: dist["kinds"][e[0]] = dist["kinds"].get(e[0], 0) + 1
        dist["accepted" if r["outcome"] == "ok" else "rejected"] += 1
        # the specification with the right anonymous numbering
        try:
            if "_prog" in c:
                den = pepper.den_src(c["_prog"], "", r["ctr0"])
                if den is not None: den["equals"] = []
            else:
                den, _ = pepper.expected_system_den(c["_gen"], c["_top"], c["args"], r["ctr0"])
        except (ValueError, KeyError, ZeroDivisionError):
            den = None
        spec = None
        if den is not None:
            doms, why = expected_fixed(den, c["fixed_entries"])
            if doms is None:
                dist["spec_rejects"][why] = dist["spec_rejects"].get(why, 0) + 1
                spec = "reject"
            else:
                if doms != den["doms"]: dist["narrowing"] += 1; nontrivial.add(str(c["files"]))
                spec = dict(den, doms=doms)
        rep = {"files": c["files"], "argv": "pepper-compiler %s %s --fixed fix.fixed %s" % (c["base"], " ".join(map(str, c["args"])), " ".join("-I " + i for i in c["includes"]))}
        if spec == "reject":
            if r["outcome"] == "ok":
                failures.append({"kind": "predicate", "key": "accepted-" + why, "summary": "a fixed-sequence file with a %s error is accepted" % why, "replay": rep})
            fs = [f for f in c02.compare(c, m, r, None) if f["kind"] == "disagreement"]
        else:
            fs = c02.compare(c, m, r, spec)
            for f in fs:
                if f["key"] == "den-doms":
                    f["summary"] = "fixing does not give the intersection of previous and fixed codes at the right positions: " + f["summary"]
        failures += fs
    # C09_fixed_system_wf_pil / C09_fixed_component_wf_pil: whatever is written with a fixed-sequence file passes the extracted predicate
    wreqs = []; widx = []
    for i, r in enumerate(impl):
        if isinstance(r, dict) and r.get("outcome") == "ok" and r.get("lines") is not None:
            wreqs.append(["wfpil", [["kinetic", l[3], l[4]] if l[0] == "kinetic" else l for l in r["lines"]]]); widx.append(i)
    dist["fixed_outputs_wf_pil"] = 0
    for i, m in zip(widx, fw.run_model(wreqs)):
        c = cases[i]
        if m == "T": dist["fixed_outputs_wf_pil"] += 1
        else: failures.append({"kind": "predicate", "key": "fixed-wf_pil", "summary": "the specification written with a fixed-sequence file violates the well-formedness predicate",
                               "replay": {"files": c["files"], "argv": "pepper-compiler %s %s --fixed fix.fixed %s" % (c["base"], " ".join(map(str, c["args"])), " ".join("-I " + x for x in c["includes"]))}})
    return {"evaluations": len(cases), "distinct_nontrivial": len(nontrivial),
            "rule": "45% generated components, 55% generated system libraries (as C02), each with a fixed-sequence file of 1-8 entries: sequences (base, super-sequence, `seq` spelling), strands, multi-strand structures, signals (bound directly and through nested systems), unknown names, N/S codes, mostly compatible strings, 7% wrong lengths, overlapping fixes in file order; templates compared with the per-nucleotide intersection oracle. Non-trivial = some template is narrowed",
            "samples": [c["files"].get("fix.fixed") for c in cases[:3]], "distribution": dist, "failures": failures}

def replay(path):
    print("re-run the check; cases are regenerated from the seed"); return 0
