"""C20 runs with distinct names do not interfere: interleaving theorem + theorems over the
footprints regenerated from the source + strace'd footprints of real runs + concurrent vs
sequential batches compared byte for byte."""
import os, random, re, shutil, subprocess, sys
import framework as fw
import pepper, cbuild
import translate_footprint as TF
from props import c02, c06

ID = "C20"
LEVEL = "proof"
THEOREMS = ["C20_interleavings_equivalent_partial", "C20_compile_modifies_only", "C20_design_modifies_only", "C20_finish_modifies_only", "C20_scratch_disjoint", "C20_compiles_modify_disjoint_files", "C20_designs_modify_disjoint_files", "C20_disjoint_file_sets_commute"]
TRUSTED = ["harness/translate_footprint.py (fail-closed ast walker of the three tools' entry functions and callees)",
           "strace -f on the command-line tools; the NUPACK stub and a gcc build of spuriousSSM for full design runs"]
ASSUMPTIONS = ["PYTHONDONTWRITEBYTECODE=1 and PYTHONHASHSEED=0 for the tools; files under /tmp created by mkstemp and interpreter/site-packages files are not part of the footprint"]

def ev(t, args):
    k = t[0]
    if k == "arg": return args.get(t[1])
    if k == "cat":
        b = ev(t[1], args); return None if b is None else b + t[2]
    if k == "default":
        a = ev(t[1], args); return a if a else ev(t[2], args)
    if k == "alt": return ev(t[1], args) if args.get("pil", True) else ev(t[2], args)
    return None

def expected_modified(fx, args):
    out = set()
    for m, t in fx:
        if m in ("MW", "MD"):
            v = ev(t, args)
            if v is not None: out.add(os.path.normpath(v))
    return out

def strace_run(cmd, cwd, env):
    log = os.path.join(cwd, ".strace.%d" % random.randrange(10**9))
    p = subprocess.run(["strace", "-f", "-qq", "-e", "trace=openat,open,creat,unlink,unlinkat,rename,renameat,renameat2,mkdir,rmdir,link,symlink", "-o", log] + cmd,
                       cwd=cwd, env=env, stdout=subprocess.PIPE, stderr=subprocess.STDOUT, timeout=300)
    mod = set()
    for line in open(log, errors="replace"):
        m = re.search(r'\b(openat|open|creat)\((?:AT_FDCWD, )?"([^"]*)", ([A-Z_|0-9]+)', line)
        if m and not line.rstrip().endswith("ENOENT (No such file or directory)") and " = -1 " not in line:
            if m.group(1) == "creat" or re.search(r"O_WRONLY|O_RDWR|O_CREAT|O_TRUNC|O_APPEND", m.group(3)):
                mod.add(m.group(2))
        m = re.search(r'\b(unlink|unlinkat|rename|renameat|renameat2|mkdir|rmdir|link|symlink)\((.*)\)\s*=\s*0', line)
        if m:
            for q in re.findall(r'"([^"]*)"', m.group(2)): mod.add(q)
    os.remove(log)
    res = set()
    for q in mod:
        a = os.path.normpath(os.path.join(cwd, q))
        if a.startswith(cwd + os.sep) and "__pycache__" not in a and not os.path.basename(a).startswith(".strace."):
            res.add(os.path.relpath(a, cwd))
    return p.returncode, p.stdout.decode("latin-1")[-300:], res

def snapshot(d):
    out = {}
    for root, _, names in os.walk(d):
        for n in names:
            p = os.path.join(root, n)
            b = open(p, "rb").read()
            if n.endswith((".pil", ".des")): b = b.split(b"\n", 1)[1] if b"\n" in b else b      # timestamp line
            out[os.path.relpath(p, d)] = b
    return out

def run(tier, seed, build):
    rng = random.Random(seed * 661 + 20)
    nb = 6 if tier == "quick" else 40
    failures = []; nontrivial = set()
    dist = {"batches": 0, "processes_concurrent": 0, "strace_runs": 0, "files_compared": 0, "dotted_tempnames": 0}
    gen = build.get("gen", {}).get("Conc/FootprintGen.v", {"ok": True})
    try:
        fx, cli = TF.read_footprints(fw.REPO)
    except Exception as e:
        fx = None
        failures.append({"kind": "tie", "key": "translator", "summary": "footprint translator failed closed: %s" % e, "replay": {}})
    ssm, log = cbuild.ssm_plain()
    wd = fw.workdir("c20")
    samples = []
    try:
        bind = os.path.join(wd, "bin"); os.makedirs(bind)
        if ssm: shutil.copy(ssm, os.path.join(bind, "spuriousSSM"))
        stub = os.path.join(wd, "nupack"); os.makedirs(os.path.join(stub, "bin"))
        open(os.path.join(stub, "bin", "mfe"), "w").write(c06.MFE_STUB); os.chmod(os.path.join(stub, "bin", "mfe"), 0o755)
        env = dict(os.environ, PYTHONPATH=fw.REPO, PATH=bind + ":" + os.environ["PATH"], NUPACKHOME=stub, PYTHONHASHSEED="0", PYTHONDONTWRITEBYTECODE="1")
        for bi in range(nb):
            # a system that goes through the whole pipeline
            for _ in range(30):
                case = c02.gen_case(rng)
                root = os.path.join(wd, "b%d_seed" % bi); shutil.rmtree(root, ignore_errors=True)
                from props import c18
                c18.write_project(root, case["files"])
                base = case["base"]; inc = [x for i in case["includes"] for x in ("-I", i)]
                a = [str(x) for x in case["args"]]
                p = subprocess.run(["/venv/bin/pepper-compiler", base] + a + inc + ["--output", "ref.pil", "--save", "ref.save"], cwd=root, env=env, stdout=subprocess.PIPE, stderr=subprocess.STDOUT)
                if p.returncode != 0: continue
                p = subprocess.run(["/venv/bin/pepper-design-spurious", "ref.pil", "-o", "ref.mfe", "-t", "reft", "imax=20"], cwd=root, env=env, stdout=subprocess.PIPE, stderr=subprocess.STDOUT, timeout=120)
                if p.returncode == 0: break
            else:
                failures.append({"kind": "tie", "key": "no-pipeline", "summary": "could not generate a system that designs", "replay": {}}); continue
            dist["batches"] += 1
            n = rng.choice([2, 3, 4, 6, 8])
            cmds = []; expect = {}
            # runs named with a dot (v.1, v.2, ...) next to a run named v: pepper-finish BASENAME with its defaults
            for nm in ["v"] + ["v.%d" % k for k in range(n)]:
                shutil.copy(os.path.join(root, "ref.save"), os.path.join(root, nm + ".save")); shutil.copy(os.path.join(root, "ref.mfe"), os.path.join(root, nm + ".mfe"))
            for k in range(n):
                # the first two commands of a batch (they run under strace): a files run with a dotted temp name, a finish with default names
                kind = "files" if k in (0, 2, 3) else "finish_default" if k == 1 else rng.choice(["compile", "compile", "files", "files", "finish", "design", "finish_default"])
                # the third and fourth commands: files runs whose temp names differ only in a blank / an underscore
                tn = "run.%d" % k if k == 0 else "pad 1" if k == 2 else "pad_1" if k == 3 else rng.choice(["tmp%d" % k, "run.%d" % k, "run.%d" % k, "scr%d" % k])
                if "." in tn: dist["dotted_tempnames"] += 1
                if kind == "compile":
                    des = rng.random() < 0.3
                    out = "o%d.%s" % (k, "des" if des else "pil")
                    cmds.append((kind, ["/venv/bin/pepper-compiler", base] + a + inc + (["--des"] if des else []) + ["--output", out, "--save", "s%d.save" % k],
                                 {"basename": base, "outputname": out, "savename": "s%d.save" % k}))
                elif kind == "files":
                    so = rng.random() < 0.4
                    cmds.append((kind, ["/venv/bin/pepper-design-spurious", "ref.pil", "-o", "d%d.mfe" % k, "-t", tn, "--just-files"] + (["--struct"] if so else []),
                                 {"basename": "ref", "infilename": "ref.pil", "outfilename": None, "tempname": tn, "_just_files": True}))
                elif kind == "design":
                    cmds.append((kind, ["/venv/bin/pepper-design-spurious", "ref.pil", "-o", "d%d.mfe" % k, "-t", tn, "imax=15"],
                                 {"basename": "ref", "infilename": "ref.pil", "outfilename": "d%d.mfe" % k, "tempname": tn}))
                elif kind == "finish_default":
                    bn = "v.%d" % k
                    dist["dotted_basenames"] = dist.get("dotted_basenames", 0) + 1
                    cmds.append(("finish", ["/venv/bin/pepper-finish", rng.choice([bn, bn + ".mfe", bn + ".save"])],
                                 {"savename": bn + ".save", "designname": bn + ".mfe", "seqsname": bn + ".seqs", "strandsname": None}))
                else:
                    cmds.append((kind, ["/venv/bin/pepper-finish", "ref", "--design", "ref.mfe", "--seqs", "q%d.seqs" % k, "--strands", "st%d.txt" % k],
                                 {"savename": "ref.save", "designname": "ref.mfe", "seqsname": "q%d.seqs" % k, "strandsname": "st%d.txt" % k}))
            rep = {"files": case["files"], "commands": [" ".join(c[1]) for c in cmds], "reproduce": "run the commands concurrently in one copy of the directory and one after another in a second copy; compare the files"}
            # (1) footprints of single runs under strace
            if fx is not None:
                for kind, cmd, args in cmds[:3]:
                    d1 = os.path.join(wd, "b%d_st" % bi); shutil.rmtree(d1, ignore_errors=True); shutil.copytree(root, d1)
                    rc, out, modified = strace_run(cmd, d1, env)
                    dist["strace_runs"] += 1
                    want = expected_modified(fx["finish" if kind == "finish" else "compile" if kind == "compile" else "design"], args)
                    if args.get("_just_files"):
                        want = {w for w in want if not w.endswith(".mfe")}
                    extra = {m for m in modified if os.path.normpath(m) not in want}
                    if extra:     # also for a run that fails (e.g. --struct with a strand in no structure): whatever it touched must be declared
                        failures.append({"kind": "predicate", "key": "footprint:" + kind, "summary": "`%s` modifies files outside its declared footprint: %r (declared %r)" % (" ".join(cmd[:2] + cmd[-4:]), sorted(extra), sorted(want)), "replay": rep})
                    shutil.rmtree(d1, ignore_errors=True)
            # (2) concurrent vs sequential
            dc = os.path.join(wd, "b%d_conc" % bi); ds = os.path.join(wd, "b%d_seq" % bi)
            shutil.copytree(root, dc); shutil.copytree(root, ds)
            procs = [subprocess.Popen(cmd, cwd=dc, env=env, stdout=subprocess.DEVNULL, stderr=subprocess.DEVNULL) for _, cmd, _ in cmds]
            rcs_c = []
            for p in procs:
                try: rcs_c.append(p.wait(timeout=180))
                except subprocess.TimeoutExpired:
                    p.kill(); rcs_c.append("timeout")
            dist["processes_concurrent"] += len(cmds)
            rcs_s = []
            for _, cmd, _ in cmds:
                try: rcs_s.append(subprocess.run(cmd, cwd=ds, env=env, stdout=subprocess.DEVNULL, stderr=subprocess.DEVNULL, timeout=180).returncode)
                except subprocess.TimeoutExpired: rcs_s.append("timeout")
            sc, ss = snapshot(dc), snapshot(ds)
            random_out = set(a_["outfilename"] for k_, c_, a_ in cmds if k_ == "design")
            if rcs_c != rcs_s:
                failures.append({"kind": "predicate", "key": "exit-status", "summary": "exit statuses differ between concurrent %r and sequential %r runs" % (rcs_c, rcs_s), "replay": rep})
            names = (set(sc) | set(ss)) - random_out
            diff = sorted(f for f in names if sc.get(f) != ss.get(f))
            dist["files_compared"] += len(names)
            if diff:
                failures.append({"kind": "predicate", "key": "files-differ", "summary": "concurrent and sequential runs leave different files: %r (missing in concurrent: %r, in sequential: %r)" % (diff[:5], sorted(set(ss) - set(sc))[:4], sorted(set(sc) - set(ss))[:4]), "replay": rep})
            nontrivial.add(tuple(" ".join(c[1]) for c in cmds))
            if bi == 0: samples.append(rep["commands"])
            for d in (dc, ds, root): shutil.rmtree(d, ignore_errors=True)
    finally:
        shutil.rmtree(wd, ignore_errors=True)
    return {"evaluations": dist["processes_concurrent"] + dist["strace_runs"], "distinct_nontrivial": max(len(nontrivial), 0),
            "rule": "batches of 2-8 command-line runs (pepper-compiler pil/des with distinct --output/--save, pepper-design-spurious --just-files and full designs with distinct -t names incl. dotted ones like run.1 / run.2 and a pair differing only in a blank / an underscore, pepper-finish with distinct --seqs/--strands, and pepper-finish BASENAME with default file names for dotted base names v.1, v.2 next to a run named v) on one generated system: started simultaneously in one directory and one after another in a copy, all files compared byte for byte (timestamp line and the random design outputs excluded); the first three commands of each batch also run under strace and their modified paths compared with the generated footprint. Non-trivial = batch",
            "samples": samples, "distribution": dist, "failures": failures, "gen_needed": ["Conc/FootprintGen.v"]}

def replay(path):
    print("re-run the check; cases are regenerated from the seed"); return 0
