"""C07 propagate_constraints = parity closure: theorem about the line-by-line model +
correspondence of the model with constraints.propagate_constraints on random link graphs."""
import random
import framework as fw

ID = "C07"
LEVEL = "proof"
THEOREMS = ["C07_propagate_exact", "C07_order_independent"]
TRUSTED = ["injective numbering of the designer's items (ints and (k,i) tuples) to nat done by the harness",
           "CPython set/dict semantics (iteration order is universally quantified away by the theorem)"]
ASSUMPTIONS = ["link graphs are symmetric and link targets are keys (the documented precondition); other inputs are compared on the assertion outcome only"]

def gen_graph(rng, maxn):
    n = rng.choice([0, 1, 2, 3, 4, 6, 8, 12, 20, maxn])
    mixed = rng.random() < 0.5
    items = []
    for i in range(n):
        items.append((rng.randrange(5), i) if mixed and rng.random() < 0.5 else i)
    eq = {x: [] for x in items}; wc = {x: [] for x in items}
    def link(d, a, b):
        d[a].append(b)
        if a != b or rng.random() < 0.5:
            d[b].append(a)
        else:
            d[b].append(a)
    if n:
        # planted classes: long even / odd paths
        k = rng.randrange(1, max(2, n // 2 + 1))
        cls = [rng.randrange(k) for _ in items]
        par = [rng.random() < 0.5 for _ in items]
        order = list(range(n)); rng.shuffle(order)
        last = {}
        for i in order:
            c = cls[i]
            if c in last and rng.random() < 0.9:
                j = last[c]
                link(wc if par[i] != par[j] else eq, items[i], items[j])
            last[c] = i
        for _ in range(rng.choice([0, 0, 1, 2, n])):   # extra random links (may create odd cycles)
            a, b = rng.choice(items), rng.choice(items)
            link(rng.choice([eq, wc]), a, b)
        if rng.random() < 0.2:
            a = rng.choice(items); link(rng.choice([eq, wc]), a, a)   # self link
    keys = list(items); rng.shuffle(keys)
    for x in items:
        rng.shuffle(eq[x]); rng.shuffle(wc[x])
    kind = "valid"
    if n and rng.random() < 0.06:
        kind = "dangling"
        ghost = ("ghost", 0)
        a = rng.choice(items); rng.choice([eq, wc])[a].append(ghost)
    return {"keys": keys, "eq": [[x, eq[x]] for x in keys], "wc": [[x, wc[x]] for x in keys], "kind": kind}

def gen_chain(rng, n):
    """one long path of alternating equal / complementary links (an implementation that recurses along
    a component, or is quadratic in its diameter, shows here)"""
    items = list(range(n)); rng.shuffle(items)
    eq = {x: [] for x in items}; wc = {x: [] for x in items}
    for a, b in zip(items, items[1:]):
        d = eq if rng.random() < 0.5 else wc
        d[a].append(b); d[b].append(a)
    keys = list(items); rng.shuffle(keys)
    return {"keys": keys, "eq": [[x, eq[x]] for x in keys], "wc": [[x, wc[x]] for x in keys], "kind": "valid", "_oracle_only": True}

def _t(x):
    return tuple(_t(y) for y in x) if isinstance(x, list) else x

def impl_case(case):
    from peppercompiler.design.constraints import propagate_constraints
    eq = {}; wc = {}
    for k, v in case["eq"]: eq[_t(k)] = [_t(y) for y in v]
    for k, v in case["wc"]: wc[_t(k)] = [_t(y) for y in v]
    try:
        E, W = propagate_constraints(eq, wc)
    except AssertionError:
        return {"outcome": "assert"}
    except KeyError as e:
        return {"outcome": "keyerror"}
    except RecursionError:
        return {"outcome": "recursion-error"}
    # the same through the designer's wrapper object, and once more on its own result (a closure is a
    # symmetric set of links, so propagating it again must return it)
    from peppercompiler.design.constraint_load import Constraints
    c = Constraints()
    for k in eq: c.init(k)
    for k in eq: c.eq[k] = list(eq[k]); c.wc[k] = list(wc[k])
    wrapper = "same"
    try:
        c.propagate()
        if {k: set(v) for k, v in c.eq.items()} != {k: set(v) for k, v in E.items()} or {k: set(v) for k, v in c.wc.items()} != {k: set(v) for k, v in W.items()}:
            wrapper = "Constraints.propagate differs from propagate_constraints"
        else:
            c.propagate()
            if {k: set(v) for k, v in c.eq.items()} != {k: set(v) for k, v in E.items()} or {k: set(v) for k, v in c.wc.items()} != {k: set(v) for k, v in W.items()}:
                wrapper = "propagating the closure a second time changes it"
    except BaseException as e:
        wrapper = "Constraints.propagate raised %s" % type(e).__name__
    if wrapper != "same":
        return {"outcome": "wrapper", "detail": wrapper}
    out = []
    for k in eq:
        if k not in E or k not in W:
            out.append([repr(k), "missing"])
        else:
            out.append([repr(k), sorted(map(repr, E[k])), sorted(map(repr, W[k]))])
    return {"outcome": "ok", "table": out}

def closure(case):
    """independent oracle for the replay file: BFS over (item, parity)"""
    eq = {_t(k): [_t(y) for y in v] for k, v in case["eq"]}
    wc = {_t(k): [_t(y) for y in v] for k, v in case["wc"]}
    res = {}
    for x in eq:
        seen = {(x, 0)}; todo = [(x, 0)]
        while todo:
            y, p = todo.pop()
            for z in eq.get(y, []):
                if (z, p) not in seen: seen.add((z, p)); todo.append((z, p))
            for z in wc.get(y, []):
                if (z, 1 - p) not in seen: seen.add((z, 1 - p)); todo.append((z, 1 - p))
        res[x] = (sorted(repr(z) for z, p in seen if p == 0), sorted(repr(z) for z, p in seen if p == 1))
    return res

def run(tier, seed, build):
    rng = random.Random(seed * 7919 + 7)
    ncases = 1500 if tier == "quick" else 30000
    cases = [gen_graph(rng, 40 if tier == "quick" else 60) for _ in range(ncases)]
    cases += [gen_chain(rng, n) for n in ([1300] if tier == "quick" else [1300, 2200, 3100])]
    # number items injectively
    reqs = []
    for c in cases:
        ids = {}
        def num(x):
            x = _t(x)
            if x not in ids: ids[x] = len(ids)
            return ids[x]
        keys = [num(k) for k in c["keys"]]
        eqs = [[num(k), [num(y) for y in v]] for k, v in c["eq"]]
        wcs = [[num(k), [num(y) for y in v]] for k, v in c["wc"]]
        c["_names"] = {v: repr(k) for k, v in ids.items()}
        if not c.get("_oracle_only"): reqs.append(["C07", [keys, eqs, wcs]])
    model = fw.run_model(reqs)
    # the long paths are decided against the breadth-first parity closure (the extracted model uses unary
    # numbers and list sets: minutes per thousand items), not against the model
    for c in cases:
        if c.get("_oracle_only"):
            want = closure({k: v for k, v in c.items() if not k.startswith("_")})
            inv = {v: k for k, v in c["_names"].items()}
            model.append(["Ok", [[str(inv[repr(_t(k))]), [str(inv[z]) for z in want[_t(k)][0]], [str(inv[z]) for z in want[_t(k)][1]]] for k in c["keys"]]])
    impl = fw.run_impl("props.c07", "impl_case", [{k: v for k, v in c.items() if not k.startswith("_")} for c in cases])
    failures = []; nontrivial = set(); dist = {"valid": 0, "dangling": 0, "sizes": {}, "odd_cycle": 0, "tuple_keys": 0}
    for c, m, r in zip(cases, model, impl):
        dist[c["kind"]] += 1
        dist["sizes"][str(len(c["keys"]))] = dist["sizes"].get(str(len(c["keys"])), 0) + 1
        names = c["_names"]
        if m[0] == "Ok":
            mt = [[names[int(e[0])], sorted(names[int(z)] for z in e[1]), sorted(names[int(z)] for z in e[2])] if e[1] != "missing" else [names[int(e[0])], "missing"] for e in m[1]]
            mo = {"outcome": "ok", "table": mt}
        else:
            mo = {"outcome": "assert" if m[1] == "assert" else "model-" + str(m[1])}
        ro = r if r.get("outcome") != "keyerror" else {"outcome": "assert"}
        pure = {k: v for k, v in c.items() if not k.startswith("_")}
        if mo != ro:
            key = "graph:%d" % (hash(repr(pure)) % 10**8)
            want = closure(pure) if c["kind"] == "valid" else None
            failures.append({"kind": "predicate" if c["kind"] == "valid" else "disagreement", "key": key,
                             "summary": "propagate_constraints on a %d-item %s link graph returned %s, the parity closure is different" % (len(c["keys"]), c["kind"], str(ro)[:120]),
                             "replay": {"input": pure, "expected_parity_closure": {k: v for k, v in (want or {}).items()} if want else str(mo)[:400],
                                        "observed": ro,
                                        "reproduce": "cd /verif && /venv/bin/python harness/check.py C07 --replay <this file>"}})
        if mo["outcome"] == "ok" and any(len(e) == 3 and (len(e[1]) > 2 or e[2]) for e in mo["table"]):
            nontrivial.add(repr(pure))
        if mo["outcome"] == "ok" and any(len(e) == 3 and set(e[1]) & set(e[2]) for e in mo["table"]):
            dist["odd_cycle"] += 1
        if any(isinstance(k, (list, tuple)) for k in c["keys"]):
            dist["tuple_keys"] += 1
    for f in failures:
        f["replay"] = {k: (str(v) if isinstance(v, dict) and any(not isinstance(kk, str) for kk in v) else v) for k, v in f["replay"].items()}
    return {"evaluations": len(cases), "distinct_nontrivial": len(nontrivial),
            "rule": "random symmetric multigraphs from planted parity classes (long even and odd paths) + random extra links, self links, odd cycles, isolated items, int and (k,i) tuple keys, shuffled key and adjacency order; 6% with a dangling link target (assertion stream); plus long single paths (1300+ items) of alternating links; every valid case is also run through constraint_load.Constraints.propagate, twice (the closure propagated again must not change). Non-trivial = some item has a complement or >2 equals",
            "samples": [{k: v for k, v in c.items() if not k.startswith("_")} for c in cases[3:6]],
            "distribution": dist, "failures": failures}

def replay(path):
    import json
    r = json.load(open(path))
    case = r["input"]
    out = fw.run_impl("props.c07", "impl_case", [case])[0]
    want = closure(case)
    ok = out.get("outcome") == "ok" and all(len(e) == 3 and (e[1], e[2]) == want[_t(eval(e[0]))] for e in out["table"])
    print("observed:", str(out)[:300]); print("property holds on this input" if ok else "property FAILS on this input")
    return 0 if ok else 1
