"""C17 finish refuses inconsistent designs: theorems on the apply_design model + single-fault
enumeration on real (.save, .mfe) pairs against finish.finish."""
import os, random, re, shutil
import framework as fw
import pepper
from props import c02

ID = "C17"
LEVEL = "proof"
THEOREMS = ["C17_ok_means_consistent", "C17_irrelevant_records_do_not_matter", "C17_changed_base_record_refused",
            "C17_changed_star_record_refused", "C17_missing_record_refused", "C17_system_ok_means_every_instance_ok", "C17_system_bad_record_refused", "C17_system_irrelevant_records_do_not_matter"]
TRUSTED = c02.TRUSTED + ["harness reader of .mfe files (line-level transcription of nupack_out_grammar); where it and the real reader disagree on acceptance the model comparison is skipped and only the property predicate is applied",
                         "harness filler producing a design that satisfies the arrays"]
ASSUMPTIONS = ["faults are single edits of the text of a valid .mfe: substitute / delete / insert one character of a sequence line, rename / star / unstar / damage a header, damage a numeric or structure field, drop, duplicate or swap a record, damage the Total line"]

ALPH = "ACGTUNRYWSMKBDHV"

def read_mfe(text):
    """own reader -> list of (name, seq) or None"""
    lines = text.split("\n")
    recs = []; i = 0
    def flt(x):
        try: float(x); return True
        except ValueError: return False
    while i < len(lines):
        m = re.match(r"^[ \t]*\d+[ \t]*:[ \t]*([A-Za-z0-9_\-*]+)[ \t]*$", lines[i])
        if not m: break
        if i + 3 >= len(lines): return None
        m2 = re.match(r"^[ \t]*([ATUCG+NRYWSMKBDHV]+)[ \t]*([0-9.\-]+)[ \t]+([0-9.\-]+)[ \t]+(\d+)[ \t]*$", lines[i + 1])
        if not m2 or not flt(m2.group(2)) or not flt(m2.group(3)): return None
        if not re.match(r"^[ \t]*[.()+]+[ \t]*$", lines[i + 2]) or not re.match(r"^[ \t]*[.()+]+[ \t]*$", lines[i + 3]): return None
        recs.append((m.group(1), m2.group(1))); i += 4
    if i >= len(lines): return None
    m = re.match(r"^[ \t]*Total n\(s\*\) =[ \t]*([0-9.\-]+)[ \t]*$", lines[i])
    if not m or not flt(m.group(1)): return None
    if any(l.strip(" \t") for l in lines[i + 1:]): return None
    return recs

def faults(rng, mfe, limit):
    """single-edit corruptions of a valid .mfe; yields (description, text)"""
    lines = mfe.split("\n")
    nrec = (len(lines) - 1) // 4
    out = []; prio = set()
    names = [lines[4 * k].split(":", 1)[1] for k in range(nrec)]
    for k in range(nrec):
        h, s, t1, t2 = lines[4 * k:4 * k + 4]
        def put(desc, newlines, k=k):
            out.append((desc, "\n".join(lines[:4 * k] + newlines + lines[4 * k + 4:])))
        num, name = h.split(":", 1)
        # header
        put("rename %s -> %s" % (name, name + "x"), [num + ":" + name + "x", s, t1, t2])
        put("star toggled on %s" % name, [num + ":" + (name[:-1] if name.endswith("*") else name + "*"), s, t1, t2]); prio.add(len(out) - 1)
        other = rng.choice(names)
        put("rename %s -> %s" % (name, other), [num + ":" + other, s, t1, t2]); prio.add(len(out) - 1)
        put("header colon removed on %s" % name, [num + name, s, t1, t2])
        put("header number damaged on %s" % name, ["x" + num + ":" + name, s, t1, t2])
        # sequence field
        seq, rest = s.split(" ", 1)
        pos = list(range(len(seq)))
        for p in pos:
            for c in ALPH:
                if c != seq[p]:
                    put("%s: base %d %s->%s" % (name, p, seq[p], c), [seq[:p] + c + seq[p + 1:] + " " + rest, t1, t2] if False else [h, seq[:p] + c + seq[p + 1:] + " " + rest, t1, t2])
            put("%s: base %d deleted" % (name, p), [h, seq[:p] + seq[p + 1:] + " " + rest, t1, t2])
            put("%s: base inserted at %d" % (name, p), [h, seq[:p] + rng.choice("ACGT") + seq[p:] + " " + rest, t1, t2])
        # whole strands lost or gained at a strand break of a multi-strand record
        cuts = [p for p in pos if seq[p] == "+"]
        for p in cuts:
            put("%s: trailing strands cut at break %d" % (name, p), [h, seq[:p] + " " + rest, t1, t2])
        put("%s: empty strand appended" % name, [h, seq + "+ " + rest, t1, t2])
        put("%s: extra strand appended" % name, [h, seq + "+" + "".join(rng.choice("ACGT") for _ in range(rng.choice([1, 4]))) + " " + rest, t1, t2])
        if cuts:
            put("%s: leading strand cut" % name, [h, seq[cuts[0] + 1:] + " " + rest, t1, t2])
        # numeric fields, structure fields
        f = rest.split(" ")
        put("%s: float damaged" % name, [h, seq + " " + "0.0.0 " + " ".join(f[1:]), t1, t2])
        put("%s: float changed" % name, [h, seq + " " + "9.5 " + " ".join(f[1:]), t1, t2])
        put("%s: int field damaged" % name, [h, seq + " " + " ".join(f[:-1]) + " z", t1, t2])
        if t1:
            put("%s: target structure char changed" % name, [h, s, ("." if t1[0] != "." else "(") + t1[1:], t2])
            put("%s: structure line deleted" % name, [h, s, t2])
            put("%s: structure line damaged" % name, [h, s, t1, t2 + "x"])
        put("%s: record dropped" % name, []); prio.add(len(out) - 1)
        put("%s: record duplicated" % name, [h, s, t1, t2, h, s, t1, t2])
        if k + 1 < nrec:
            out.append(("records %d and %d swapped" % (k, k + 1), "\n".join(lines[:4 * k] + lines[4 * k + 4:4 * k + 8] + lines[4 * k:4 * k + 4] + lines[4 * k + 8:])))
    total = lines[4 * nrec]
    out.append(("Total line damaged", "\n".join(lines[:4 * nrec] + ["Total n(s) = 0.0"])))
    out.append(("Total line removed", "\n".join(lines[:4 * nrec])))
    out.append(("Total value damaged", "\n".join(lines[:4 * nrec] + [total + "x"])))
    out.append(("blank line inserted", "\n".join(lines[:4] + [""] + lines[4:])))
    if limit and len(out) > limit:
        # always kept, for every record: star toggled, renamed onto another record, record dropped (the faults whose effect depends on
        # which record they hit: a sequence outside every structure, a sequence on no strand); then the sampled rest up to the limit
        first = [o for i, o in enumerate(out) if i in prio]
        keep = [o for i, o in enumerate(out) if "base" not in o[0] and i not in prio]
        bases = [o for o in out if "base" in o[0]]
        rng.shuffle(bases)
        out = first + keep[:limit // 2] + bases[:limit - min(len(keep), limit // 2)]
    return out

def impl_case(case):
    import implrun
    rng = random.Random(case["seed"])
    p = implrun.pipeline(case["files"], case["base"], args=case["args"], includes=case["includes"] or None, seed=case["seed"])
    d = p["dir"]
    try:
        if p["outcome"] != "ok":
            return {"outcome": "no-design", "stage": p["stage"], "error": p.get("error"), "ctr0": p["ctr0"]}
        # sequences that reach the design file undesigned (used in no strand) keep their degenerate codes; a design file may
        # just as well give them concrete bases: do so (name and name* consistently) when finish accepts the result
        lines = p["mfe"].split("\n"); nrec = (len(lines) - 1) // 4
        recname = {lines[4 * k].split(":", 1)[1]: k for k in range(nrec)}
        changed = False
        for nm, k in list(recname.items()):
            sq = lines[4 * k + 1].split(" ", 1)
            if not nm.endswith("*") and nm + "*" in recname and "+" not in sq[0] and any(ch not in "ACGT" for ch in sq[0]):
                conc = "".join(rng.choice(pepper.GROUPS.get(ch, ch)) for ch in sq[0])
                k2 = recname[nm + "*"]; sq2 = lines[4 * k2 + 1].split(" ", 1)
                rc = "".join({"A": "T", "T": "A", "C": "G", "G": "C"}[b] for b in reversed(conc))
                lines[4 * k + 1] = conc + " " + sq[1]; lines[4 * k2 + 1] = rc + " " + sq2[1]; changed = True
        if changed:
            o, seqs2, strands2, err = implrun.run_finish(d, "\n".join(lines), "c")
            if o == "ok":
                p["mfe"] = "\n".join(lines); p["seqs"] = seqs2; p["strands"] = strands2
        base_recs = read_mfe(p["mfe"])
        res = {"outcome": "ok", "ctr0": p["ctr0"], "mfe": p["mfe"], "seqs": p["seqs"], "strands": p["strands"], "own_reader_ok": base_recs is not None, "faults": []}
        for i, (desc, text) in enumerate(faults(rng, p["mfe"], case["limit"])):
            o, seqs, strands, err = implrun.run_finish(d, text, "f")
            impl_tbl = implrun.read_design_impl(text, d, "f")
            mine = read_mfe(text)
            res["faults"].append({"desc": desc, "outcome": o, "same": (o == "ok" and seqs == p["seqs"] and strands == p["strands"]),
                                  "seqs": seqs if (o == "ok" and seqs != p["seqs"]) else None, "error": (err or "")[:80],
                                  "impl_reads": impl_tbl is not None, "own_reads": mine is not None,
                                  "records": mine if (mine is not None and impl_tbl is not None and dict(mine) == impl_tbl) else None,
                                  "text": text if o == "ok" and not (seqs == p["seqs"] and strands == p["strands"]) else None})
        return res
    finally:
        shutil.rmtree(d, ignore_errors=True)

def run(tier, seed, build):
    rng = random.Random(seed * 211 + 17)
    ndesign = 14 if tier == "quick" else 80
    limit = 120 if tier == "quick" else 0
    cases = []
    while len(cases) < ndesign:
        if rng.random() < 0.5:
            prog = pepper.sat_component(rng, name="prog", allow_zero=rng.random() < 0.3, nstmts=rng.choice([3, 5, 8]))
            c = {"files": {"prog.comp": pepper.comp_text(rng, prog)}, "entries": [["prog.comp", False, [], [prog["decl"], prog["body"]]]],
                 "includes": [], "base": "prog", "args": []}
        else:
            c = {k: v for k, v in c02.gen_case(rng).items() if not k.startswith("_")}
        if not cases:      # once per run: a component with a sequence on no strand and a strand in no structure (records nothing else cross-checks)
            prog = pepper.sat_component(rng, name="prog", allow_zero=False, nstmts=3)
            prog["body"] += [["seq", "zfree", [["nuc", [[6, "N"]]]], None], ["seq", "zfs", [["nuc", [[2, "N"], [3, "S"]]]], None],
                             ["strand", False, "zfreeS", [["ref", "zfs", False], ["ref", "zfs", False]], None]]
            c = {"files": {"prog.comp": pepper.comp_text(rng, prog)}, "entries": [["prog.comp", False, [], [prog["decl"], prog["body"]]]],
                 "includes": [], "base": "prog", "args": []}
        c["seed"] = rng.randrange(10**9); c["limit"] = limit
        cases.append(c)
    impl = fw.run_impl("props.c17", "impl_case", cases, per_case_timeout=600, procs=8, chunksize=1)
    reqs = []; where = []
    for ci, (c, r) in enumerate(zip(cases, impl)):
        if isinstance(r, dict) and r.get("outcome") == "ok":
            for fi, f in enumerate(r["faults"]):
                if f["records"] is not None:
                    reqs.append(["finish", [c["entries"], c["includes"], r["ctr0"], c["base"], c["args"], [], [[n, s] for n, s in f["records"]]]]); where.append((ci, fi))
            recs = read_mfe(r["mfe"])
            if recs is not None:
                reqs.append(["finish", [c["entries"], c["includes"], r["ctr0"], c["base"], c["args"], [], [[n, s] for n, s in recs]]]); where.append((ci, "base"))
    mres = dict(zip(where, fw.run_model(reqs)))
    failures = []; nfault = 0; nontrivial = set()
    dist = {"designs": 0, "no_design": 0, "faults": 0, "refused": 0, "harmless": 0, "model_compared": 0, "reader_mismatch_skipped": 0, "kinds": {}}
    for ci, (c, r) in enumerate(zip(cases, impl)):
        if not isinstance(r, dict) or r.get("outcome") not in ("ok", "no-design"):
            failures.append({"kind": "disagreement", "key": "impl-run", "summary": "runner failed: %r" % (str(r)[:300],), "replay": {"files": c["files"]}}); continue
        if r["outcome"] == "no-design":
            dist["no_design"] += 1; continue
        dist["designs"] += 1
        base_model = mres.get((ci, "base"))
        rep0 = {"files": c["files"], "mfe": r["mfe"], "argv": "compile %s, design, then pepper-finish with the corrupted .mfe" % c["base"]}
        if base_model is not None and base_model[0] != "Ok":
            failures.append({"kind": "disagreement", "key": "model-refuses-valid", "summary": "the model refuses the valid design (%s) that finish accepts" % base_model[1], "replay": rep0})
        for fi, f in enumerate(r["faults"]):
            dist["faults"] += 1; nfault += 1
            d_ = f["desc"]
            kind = ("base substituted" if "->" in d_ and "base" in d_ else "base deleted" if "deleted" in d_ and "base" in d_ else "base inserted" if "inserted" in d_
                    else "renamed" if d_.startswith("rename") else "star toggled" if "star toggled" in d_ else re.sub(r"^.*: ", "", re.sub(r" on .*$", "", re.sub(r"\d+", "", d_))))
            dist["kinds"][kind] = dist["kinds"].get(kind, 0) + 1
            rep = dict(rep0, fault=f["desc"], corrupted_mfe=f.get("text"))
            if f["outcome"] == "ok" and not f["same"]:
                failures.append({"kind": "predicate", "key": "silent:" + kind, "summary": "a corrupted design (%s) is accepted and changes the written sequences" % f["desc"], "replay": rep})
            if f["outcome"] == "ok": dist["harmless"] += 1
            else: dist["refused"] += 1; nontrivial.add((ci, f["desc"]))
            m = mres.get((ci, fi))
            if m is None:
                dist["reader_mismatch_skipped"] += 1 if f["impl_reads"] != f["own_reads"] else 0
                # both refuse to read: nothing to compare
                if not f["impl_reads"] and f["outcome"] == "ok":
                    failures.append({"kind": "disagreement", "key": "unreadable-accepted", "summary": "finish accepts a design its reader cannot read?", "replay": rep})
                continue
            dist["model_compared"] += 1
            mo = "ok" if m[0] == "Ok" else "error"
            if mo != f["outcome"]:
                failures.append({"kind": "disagreement", "key": "verdict:" + kind, "summary": "fault '%s': model says %s (%s), finish says %s (%s)" % (f["desc"], mo, m[1] if mo == "error" else "", f["outcome"], f["error"]), "replay": rep})
    return {"evaluations": nfault, "distinct_nontrivial": len(nontrivial),
            "rule": "%d valid (.save, .mfe) pairs from generated components and system libraries (compile, arrays, fill, process_results, output); on each, single-edit faults: every sequence position x 15 substitutions / deletion / insertion (sampled to %s per design in this tier), header rename / star toggle / collision / damage, float / int / structure field damage, record drop / duplicate / swap, Total line damage; finish.finish must error or write identical files; verdicts compared with the model wherever the record tables agree. Non-trivial = refused fault" % (ndesign, limit or "all"),
            "samples": [f["desc"] for r in impl if isinstance(r, dict) and r.get("faults") for f in r["faults"][:3]][:6],
            "distribution": dist, "failures": failures, "exhaustive": tier != "quick"}

def replay(path):
    print("re-run the check; cases are regenerated from the seed"); return 0
