"""C15 over-constrained specifications are reported: theorem (odd cycles) + correspondence and the
denotation-level satisfiability oracle on PIL documents, about half of them unsatisfiable."""
import random
import framework as fw
import pepper
from props import c04

ID = "C15"
LEVEL = "proof"
THEOREMS = ["C15_odd_cycle_reported", "C15_closure_exact", "C15_over_iff_unsat", "C15_seeded_total", "C15_failure_reason", "C15_success_gives_assignment", "C15_gsat_iff_doc_sat", "C15_over_iff_document_unsat", "C15_loaded_over_iff_document_unsat", "C15_design_arrays_cases", "C15_loaded_design_total", "C15_design_arrays_error", "C15_seed_total", "C15_struct_loaded_over_iff_document_unsat", "C15_struct_design_arrays_cases", "C15_struct_seed_iff_placed", "C15_struct_loaded_design_total"]
TRUSTED = c04.TRUSTED
ASSUMPTIONS = ["satisfiability oracle: parity union-find with per-class base-set intersection over the document's denotation (exact for this constraint language: equalities / complementarities / unary base sets)"]

def gen_unsat_docs(rng, n):
    docs = []
    while len(docs) < n:
        lines = pepper.gen_pil_doc(rng, struct_ok=rng.random() < 0.7)
        r = rng.random()
        if r < 0.25:
            # planted hairpin pairing a domain with itself
            L = rng.choice([1, 2, 3, 4, 5])
            lines += [["sequence", "hp", "N" * L, L], ["strand", False, "shp", [["hp", False], ["hp", False]], 2 * L],
                      ["structure", 1, "Hhp", ["shp"], "(" * L + ")" * L]]
        elif r < 0.4:
            # long odd cycle through equal statements with stars over odd-length domains
            L = rng.choice([1, 3, 5]); k = rng.choice([3, 5])
            for j in range(k): lines.append(["sequence", "oc%d" % j, "N" * L, L])
            for j in range(k): lines.append(["equal", [["oc%d" % j, False], ["oc%d" % ((j + 1) % k), True]]])
            lines.append(["strand", False, "soc", [["oc0", False]], L]); lines.append(["structure", 1, "Hoc", ["soc"], "." * L])
        elif r < 0.55:
            # template clash inside one repeated sequence / across an equal line
            t = rng.choice(["AC", "ANNA", "GC", "ACNNN", "SW", "RY"])
            L = len(t)
            lines += [["sequence", "tc", t, L], ["strand", False, "stc", [["tc", False], ["d0", False], ["tc", False]], 2 * L + [l for l in lines if l[0] == "sequence" and l[1] == "d0"][0][3]]]
            d0 = [l for l in lines if l[0] == "sequence" and l[1] == "d0"][0][3]
            lines.append(["structure", 1, "Htc", ["stc"], "(" * L + "." * d0 + ")" * L])
        elif r < 0.75:
            # the over-constraint lives only among sequences no strand uses
            k = rng.choice(["clash", "selfwc", "supclash"])
            if k == "clash":
                a, b = rng.choice([("AAGT", "AAGC"), ("SN", "WN"), ("R", "Y"), ("NNA", "NNC")])
                lines += [["sequence", "ua", a, len(a)], ["sequence", "ub", b, len(b)], ["equal", [["ua", False], ["ub", False]]]]
            elif k == "selfwc":
                L = rng.choice([1, 3, 5])
                lines += [["sequence", "up", "N" * L, L], ["equal", [["up", False], ["up", True]]]]
            else:
                lines += [["sequence", "u1", "SS", 2], ["sequence", "u2", "WW", 2], ["sequence", "u3", "NN", 2],
                          ["sup-sequence", "us1", [["u1", False], ["u3", False]], 4], ["sup-sequence", "us2", [["u2", False], ["u3", False]], 4],
                          ["equal", [["us1", False], ["us2", False]]]]
        docs.append({"source": "hand", "lines": lines, "text": pepper.pil_text(rng, lines, handwritten=True)})
    return docs

def run(tier, seed, build):
    rng = random.Random(seed * 577 + 15)
    n = 300 if tier == "quick" else 4000
    docs = c04.gen_docs(rng, n // 2) + gen_unsat_docs(rng, n - n // 2)
    # every fifth hand-written document ends without a newline, its last statement an `equal` whose last item is starred (when it has one)
    for i, d in enumerate(docs):
        if d["source"] != "hand" or i % 5 != 1: continue
        r2 = random.Random(seed * 100003 + i)
        lines = list(d["lines"])
        star = [k for k, l in enumerate(lines) if l[0] == "equal" and l[1] and l[1][-1][1]]
        if star:
            k = r2.choice(star); last = lines.pop(k); lines.append(last)
            d["lines"] = lines
            d["text"] = pepper.pil_text(r2, lines[:-1], handwritten=True) + "equal " + " ".join(n + ("*" if s else "") for n, s in last[1])
        elif "#" not in d["text"].rstrip("\n").split("\n")[-1]:      # (the reader only strips comments that end in a newline)
            d["text"] = d["text"].rstrip("\n")
    failures, stats = c04.evaluate(docs)
    return {"evaluations": 2 * len(docs), "distinct_nontrivial": len(stats["nontrivial"]),
            "rule": "PIL documents as in C04 plus documents with planted hairpins pairing a domain with itself, long odd cycles through starred equal statements over odd-length domains, template clashes inside a repeated sequence, and over-constraints that live only among sequences no strand uses (clashing equal lines, a sequence equal to its own complement, clashing super-sequences); both layouts; the implementation must raise the over-constrained error exactly when the denotation-level oracle finds no assignment. Non-trivial = unsatisfiable, or satisfiable with shared classes; every fifth hand-written document ends without a newline, in an `equal` statement whose last item is starred",
            "samples": [d["text"] for d in docs[-2:]],
            "distribution": {k: v for k, v in stats.items() if k != "nontrivial"}, "failures": failures["C15"]}

def replay(path):
    print("re-run the check; cases are regenerated from the seed"); return 0
