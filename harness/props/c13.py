"""C13 templates compile like their hand expansion: theorems on the process_list model +
correspondence at text level (process_list) and at compile level (template+args vs expanded file)."""
import random, re
import framework as fw
import pepper
from props import c10

ID = "C13"
LEVEL = "proof"
THEOREMS = ["C13_duplicate_is_hand_expansion", "C13_dup_product", "C13_angles_spec", "C13_comment_removed", "C13_line_is_hand_expansion", "C13_plain_line_untouched", "C13_length_line_binds", "C13_length_line_shape", "C13_output_only_appended"]
TRUSTED = ["Python's eval is not modelled: expressions of the integer subset (+ - * // % unary minus, parentheses, names) reach the model as ASTs keyed by their source text, generated together with that text by the harness; any other expression is reported as unsupported",
           "harness transcription of the hand expansion (hand_expand) used as the failing-input oracle"]
ASSUMPTIONS = ["instance arguments are integers"]

# ---------- expressions
LISTS = {}      # list-valued parameters of the template being generated: name -> number of entries

def gen_expr(rng, names, depth=0):
    r = rng.random()
    if LISTS and r < 0.25:
        # a subscript into a list-valued argument, or into a literal list (only the subscript varies)
        if rng.random() < 0.6:
            nm = rng.choice(sorted(LISTS)); return ["idx", nm, rng.randrange(LISTS[nm])]
        vals = [rng.choice([1, 2, 4, 6, 8]) for _ in range(rng.choice([2, 3]))]
        return ["lit", vals, rng.randrange(len(vals))]
    if depth > 2 or r < 0.35:
        return ["n", rng.choice([0, 1, 2, 3, 5, 7])] if (not names or rng.random() < 0.4) else ["v", rng.choice(names)]
    if r < 0.42: return ["neg", gen_expr(rng, names, depth + 1)]
    op = rng.choice(["+", "+", "-", "*", "//", "%"])
    b = gen_expr(rng, names, depth + 1)
    if op in ("//", "%"): b = ["n", rng.choice([1, 2, 3])]
    return [op, gen_expr(rng, names, depth + 1), b]

def expr_text(rng, e, top=True):
    k = e[0]
    if k == "n": return str(e[1])
    if k == "v": return e[1]
    if k == "idx": return "%s[%d]" % (e[1], e[2])
    if k == "lit": return "[%s][%d]" % (rng.choice([", ", ","]).join(map(str, e[1])), e[2])
    if k == "neg": return "-" + expr_text(rng, e[1], False) if e[1][0] in ("n", "v") else "-(" + expr_text(rng, e[1], False) + ")"
    sp = rng.choice(["", " "])
    s = "(" + expr_text(rng, e[1], False) + ")" + sp + k + sp + "(" + expr_text(rng, e[2], False) + ")"
    if e[1][0] in ("n", "v", "idx") and e[2][0] in ("n", "v", "idx"):
        s = expr_text(rng, e[1], False) + sp + k + sp + expr_text(rng, e[2], False)
        if not top: s = "(" + s + ")"
    return s

def eval_ast(e, env):
    k = e[0]
    if k == "n": return e[1]
    if k == "v":
        if e[1] not in env: raise KeyError(e[1])
        return env[e[1]]
    if k == "neg": return -eval_ast(e[1], env)
    if k == "idx": return env[e[1]][e[2]]
    if k == "lit": return e[1][e[2]]
    a, b = eval_ast(e[1], env), eval_ast(e[2], env)
    if k == "+": return a + b
    if k == "-": return a - b
    if k == "*": return a * b
    if b == 0: raise ZeroDivisionError()
    return a // b if k == "//" else a % b

# ---------- templates: a line is ("length", name, expr) or ("line", [tokens], comment, newline)
# token: ("t", text) | ("e", expr) | ("g", [alternative token lists])

def tok_text(rng, toks, table):
    out = ""
    for t in toks:
        if t[0] == "t": out += t[1]
        elif t[0] == "e":
            rev = table.setdefault(None, {})        # expression -> the spelling used before in this template
            key = repr(t[1])
            if key in rev and rng.random() < rev.get("__p", 0.7): src = rev[key]
            else: src = rng.choice(["", " "]) + expr_text(rng, t[1]) + rng.choice(["", " "])
            rev[key] = src
            table[src.strip()] = t[1]; out += "<" + src + ">"
        else:
            out += "{" + ",".join(tok_text(rng, alt, table) for alt in t[1]) + "}"
    return out

def hand_expand(lines, args_env):
    """the declarative hand expansion; returns text or raises"""
    env = dict(args_env); out = ""
    for ln in lines:
        if ln[0] == "length":
            env[ln[1]] = eval_ast(ln[2], env); continue
        def ev(toks):
            res = []
            for t in toks:
                if t[0] == "t": res.append(("t", t[1]))
                elif t[0] == "e": res.append(("t", str(eval_ast(t[1], env))))
                else: res.append(("g", [ev(a) for a in t[1]]))
            return res
        toks = ev(ln[1])
        # the file one would write by hand has the values in place; its brace groups are then read off the TEXT
        # (a value may itself bring commas into a group): one line per alternative, leftmost group slowest
        def flat(toks):
            return "".join(t[1] if t[0] == "t" else "{" + ",".join(flat(a) for a in t[1]) + "}" for t in toks)
        def expand_text(line):
            pieces = re.split(r"\{([^{}]*)\}", line)          # text, group, text, group, ..., text
            res = [pieces[0]]
            for k in range(1, len(pieces), 2):
                res = [r + a + pieces[k + 1] for r in res for a in pieces[k].split(",")]
            return [r for r in res] if not any("{" in r and "}" in r and re.search(r"\{[^{}]*\}", r) for r in res) else [x for r in res for x in expand_text(r)]
        for l in expand_text(flat(toks)):
            if l.strip(): out += l + "\n"
    return out

def gen_free_line(rng, names):
    toks = []
    for _ in range(rng.choice([1, 2, 3, 4, 5])):
        r = rng.random()
        if r < 0.45: toks.append(("t", rng.choice(["seq ", "x", " = ", "abc", " ", "N", ":", " + ", "q-r", "* "])))
        elif r < 0.7: toks.append(("e", gen_expr(rng, names)))
        else:
            k = rng.choice([1, 2, 2, 3])
            alts = [[("t", rng.choice(["a", "b", "1", "2", "", "zz"]))] + ([("e", gen_expr(rng, names))] if rng.random() < 0.15 else []) for _ in range(k)]
            if rng.random() < 0.25 and toks and toks[-1][0] == "g": alts = toks[-1][1]     # an identical neighbouring group
            toks.append(("g", alts))
    return ("line", toks)

def gen_template(rng, compile_level):
    params = rng.sample(["n", "m", "toe", "rec"], rng.choice([0, 1, 2, 3]))
    args = [rng.choice([0, 1, 2, 3, 4, 6]) for _ in params]
    names = list(params)
    LISTS.clear()
    if rng.random() < 0.08:
        # a list-valued argument (the command line evaluates its arguments): used through subscripts only
        k = rng.choice([2, 3]); params.append("lens"); args.append([rng.choice([1, 2, 3, 5]) for _ in range(k)]); LISTS["lens"] = k
    use_tag = compile_level and rng.random() < 0.3
    if use_tag:
        # a text-valued argument (the command line passes words through unchanged), used only inside a name
        params.append("tag"); args.append(rng.choice(["07", "7", "00", "a1", "012", "x", "a1,b2", "u,v,w"]))
    lines = []
    if compile_level:
        lines.append(("line", [("t", "declare component T%s: x -> x" % ("(%s)" % ", ".join(params) if params else ""))]))
        def num(): return ("e", gen_expr(rng, names)) if names and rng.random() < 0.7 else ("t", str(rng.choice([1, 2, 3, 4])))
        for _ in range(rng.choice([0, 1, 2])):
            nm = rng.choice(["tot", "k2"] + [p for p in params if p != "lens"])
            lines.append(("length", nm, gen_expr(rng, names)));
            if nm not in names: names.append(nm)
        lines.append(("line", [("t", 'sequence x = "'), num(), ("t", 'N"')]))
        for _ in range(rng.choice([1, 2, 3])):
            r = rng.random()
            if r < 0.4:
                g1 = ("g", [[("t", a)] for a in rng.sample(["a", "b", "c"], rng.choice([1, 2, 3]))])
                g2 = ("g", [[("t", a)] for a in rng.sample(["1", "2", "3"], rng.choice([1, 2]))])
                same = rng.random() < 0.3
                if same: g1 = ("g", [[("t", "1")], [("t", "2")]]); g2 = g1
                lines.append(("line", [("t", "sequence q"), g1] + ([g2] if rng.random() < 0.6 else []) + [("t", ' = "'), num(), ("t", 'S" x')]))
            elif r < 0.7:
                lines.append(("line", [("t", "strand S"), ("g", [[("t", "1")], [("t", "2")]]), ("t", ' = x "'), num(), ("t", 'T" x*')]))
            else:
                lines.append(("length", rng.choice(["tot", "k3"]), gen_expr(rng, names)))
                if lines[-1][1] not in names: names.append(lines[-1][1])
        if use_tag:
            # inside a brace group: a value with commas makes one line per word, as in the hand-written file
            lines.append(("line", [("t", "sequence q_"), ("g", [[("e", ["v", "tag"])]]) if rng.random() < 0.6 or "," in args[-1] else ("e", ["v", "tag"]), ("t", ' = "2N" x')]))
        lines.append(("line", [("t", 'strand Z = x "2A"')]))
        lines.append(("line", [("t", "structure W = Z : "), ("t", "U"), ("e", ["+", ["n", 2], ["n", 0]]), ("t", " U"), ("e", ["v", "__lenx"])]))
    else:
        for _ in range(rng.choice([1, 2, 4, 6])):
            r = rng.random()
            if r < 0.2:
                nm = rng.choice(["tot", "k2", "len_a"] + [p for p in params if p != "lens"])
                lines.append(("length", nm, gen_expr(rng, names)))
                if nm not in names: names.append(nm)
            else:
                lines.append(gen_free_line(rng, names))
    uses_lists = bool(LISTS); LISTS.clear()
    return {"params": params, "args": args, "lines": lines, "_lists": uses_lists}

def ladder_template(rng, compile_level):
    """one name re-defined by `length` lines between uses of one and the same expression text"""
    n0 = rng.choice([2, 3, 5]); step = rng.choice([1, 2])
    bump = ("length", "n", ["+", ["v", "n"], ["n", step]])
    use = ("e", rng.choice([["v", "n"], ["+", ["v", "n"], ["n", 1]]]))
    if compile_level:
        lines = [("line", [("t", "declare component T(n): x -> x")]), ("line", [("t", 'sequence x = "'), use, ("t", 'N"')]), bump,
                 ("line", [("t", 'sequence q1 = "'), use, ("t", 'S" x')]), bump, ("line", [("t", 'strand S1 = x "'), use, ("t", 'T" x*')]),
                 ("line", [("t", 'strand Z = x "2A"')]),
                 ("line", [("t", "structure W = Z : "), ("t", "U"), ("e", ["+", ["n", 2], ["n", 0]]), ("t", " U"), ("e", ["v", "__lenx"])])]
    else:
        lines = [("line", [("t", "rung "), use]), bump, ("line", [("t", "rung "), use, ("t", " "), ("g", [[("t", "a")], [use]])]), bump, ("line", [use, ("t", " end")])]
    return {"params": ["n"], "args": [n0], "lines": lines, "_lists": False, "_same": True}

def bounded(tpl, limit=400):
    """every expression of the template evaluates to a small number (a region of 10^13 nucleotides is a
    legitimate program but not one a test machine can compile)"""
    env = dict(zip(tpl["params"], tpl["args"]))
    def ok(e):
        try: v = eval_ast(e, env)
        except Exception: return True, None
        if isinstance(v, str): return True, v
        return abs(v) <= limit, v
    def toks_ok(toks):
        for t in toks:
            if t[0] == "e" and t[1] != ["v", "__lenx"]:
                if not ok(t[1])[0]: return False
            elif t[0] == "g":
                if not all(toks_ok(a) for a in t[1]): return False
        return True
    for ln in tpl["lines"]:
        if ln[0] == "length":
            good, v = ok(ln[2])
            if not good: return False
            if v is not None: env[ln[1]] = v
        elif not toks_ok(ln[1]): return False
    return True

def render(rng, tpl):
    """text lines (list of str incl. newlines, the last possibly without), expression table"""
    table = {None: ({"__p": 1.0} if tpl.get("_same") else {})}
    out = []
    env = dict(zip(tpl["params"], tpl["args"]))
    lenx = None
    for ln in tpl["lines"]:
        if ln[0] == "length":
            src = expr_text(rng, ln[2]); table[src] = ln[2]
            out.append("%slength %s %s %s" % (rng.choice(["", " "]), ln[1], "=", src))
        else:
            toks = [("e", tpl["_lenx"]) if (t[0] == "e" and t[1] == ["v", "__lenx"]) else t for t in ln[1]]
            out.append(tok_text(rng, toks, table))
        if rng.random() < 0.15: out[-1] += "  # note {x,y} <1+1>"
    table.pop(None, None)
    text_lines = [l + "\n" for l in out]
    if rng.random() < 0.3: text_lines[-1] = text_lines[-1][:-1]       # no final newline
    if rng.random() < 0.2: text_lines.insert(rng.randrange(1, len(text_lines) + 1), "\n")
    return text_lines, table

def impl_case(case):
    import implrun
    from peppercompiler import var_substitute as V
    out = {}
    try:
        params = dict(zip(case["params"], case["args"]))
        out["text"] = ["ok", V.process_list(iter(case["lines"]), params)]
    except BaseException as e:
        out["text"] = ["error", type(e).__name__]
    if case.get("compile"):
        for tag, files, args in (("template", {"T.comp": "".join(case["lines"])}, case["args"]), ("expanded", {"T.comp": case["expanded"]}, [])):
            r = implrun.compile_files(files, "T", args=args)
            if r["outcome"] == "ok":
                try: r["lines"] = pepper.read_pil(r["text"])
                except ValueError as e: r["lines"] = None
                del r["text"]
            out[tag] = r
    return out

def sexp_expr(e):
    if e[0] in ("idx", "lit"): return ["n", 0]      # not expressible in the model's integer expressions (such templates are compared with the oracle only)
    return ["n", e[1]] if e[0] == "n" else ["v", e[1]] if e[0] == "v" else ["neg", sexp_expr(e[1])] if e[0] == "neg" else [e[0], sexp_expr(e[1]), sexp_expr(e[2])]

def run(tier, seed, build):
    rng = random.Random(seed * 257 + 13)
    n = 900 if tier == "quick" else 15000
    cases = []
    for i in range(n):
        compile_level = rng.random() < 0.35
        if i < 4:
            tpl = ladder_template(rng, i % 2 == 0)
            compile_level = i % 2 == 0
        else:
            tpl = gen_template(rng, compile_level)
            while not bounded(tpl): tpl = gen_template(rng, compile_level)
        env0 = dict(zip(tpl["params"], tpl["args"]))
        if compile_level:
            # the structure needs the length of x: an expression equal to it
            e = dict(env0); xexpr = None
            for ln in tpl["lines"]:
                if ln[0] == "length":
                    try: e[ln[1]] = eval_ast(ln[2], e)
                    except Exception: pass
                elif ln[1][0] == ("t", 'sequence x = "'):
                    xexpr = ln[1][1][1] if ln[1][1][0] == "e" else ["n", int(ln[1][1][1])]
                    try: xval = eval_ast(xexpr, e)
                    except Exception: xval = None
            tpl["_lenx"] = ["n", xval if isinstance(xval, int) and xval >= 0 else 0]
        text_lines, table = render(rng, tpl)
        try:
            lines_for_spec = [("length", l[1], l[2]) if l[0] == "length" else ("line", [("e", tpl.get("_lenx")) if (t[0] == "e" and t[1] == ["v", "__lenx"]) else t for t in l[1]]) for l in tpl["lines"]]
            spec = hand_expand(lines_for_spec, env0)
        except Exception as ex:
            spec = None
        skip_decl = 1 if compile_level else 0
        cases.append({"params": tpl["params"], "args": tpl["args"], "lines": text_lines, "table": table, "spec": spec,
                      "compile": compile_level, "expanded": None})
        if compile_level and spec is not None:
            # the hand-written file: the declaration without parameters + the expansion of the rest
            decl = "declare component T: x -> x\n"
            body = spec.split("\n", 1)[1] if "\n" in spec else ""
            cases[-1]["expanded"] = decl + body
        else:
            cases[-1]["compile"] = False
    # process_list is applied to the lines after the declaration when compiling; at text level we feed all lines
    impl = fw.run_impl("props.c13", "impl_case", [{k: c[k] for k in ("params", "args", "lines", "compile", "expanded")} for c in cases])
    for c in cases: c["nomodel"] = any(not isinstance(a, int) for a in c["args"])     # the model's environment holds integers only
    reqs = [["C13", [c["lines"], [[p, (a if isinstance(a, int) else 0)] for p, a in zip(c["params"], c["args"])], [[src, sexp_expr(e)] for src, e in c["table"].items()]]] for c in cases]
    model = fw.run_model(reqs)
    failures = []; nontrivial = set()
    dist = {"text_level": 0, "compile_level": 0, "eval_errors": 0, "with_groups": 0, "with_identical_groups": 0, "length_rebinds_param": 0, "no_final_newline": 0, "compiled_both": 0}
    for c, m, r in zip(cases, model, impl):
        rep = {"template": "".join(c["lines"]), "params": c["params"], "args": c["args"],
               "reproduce": "PYTHONPATH=/repo /venv/bin/python -c \"from peppercompiler.var_substitute import process_list; print(process_list(open('template').readlines(), dict(zip(params, args))))\""}
        dist["compile_level" if c["compile"] else "text_level"] += 1
        txt = "".join(c["lines"])
        if "{" in txt: dist["with_groups"] += 1
        if re.search(r"(\{[^{}]*\})[^{}\n]*\1", txt): dist["with_identical_groups"] += 1
        if any(re.match(r"\s*length\s+(%s)\b" % "|".join(c["params"]), l) for l in c["lines"]) if c["params"] else False: dist["length_rebinds_param"] += 1
        if not txt.endswith("\n"): dist["no_final_newline"] += 1
        if not isinstance(r, dict) or "text" not in r:
            failures.append({"kind": "disagreement", "key": "impl-run", "summary": "runner failed: %r" % (r,), "replay": rep}); continue
        got = r["text"]
        mm = ["ok", m[1]] if m[0] == "ok" else ["error", m[0]]
        if m[0] == "unsupported":
            failures.append({"kind": "tie", "key": "unsupported", "summary": "expression outside the modelled subset reached the model: %r" % m[1], "replay": rep}); continue
        if c["spec"] is None: dist["eval_errors"] += 1
        if not c["nomodel"] and ((mm[0] == "ok") != (got[0] == "ok") or (mm[0] == "ok" and mm[1] != got[1])):
            failures.append({"kind": "disagreement", "key": "process_list", "summary": "process_list differs from the model: %r vs %r" % (str(got)[:200], str(mm)[:200]), "replay": rep})
        if c["spec"] is not None:
            want = c["spec"]
            if got[0] != "ok" or [l.strip() for l in got[1].split("\n") if l.strip()] != [l.strip() for l in want.split("\n") if l.strip()]:
                failures.append({"kind": "predicate", "key": "hand-expansion", "summary": "process_list output is not the hand expansion of the template", "replay": dict(rep, expected=want[:1500], observed=str(got)[:1500])})
            if "{" in txt or "<" in txt: nontrivial.add(txt + str(c["args"]))
        if c["compile"] and "template" in r:
            a, b = r["template"], r["expanded"]
            if a.get("outcome") == "ok" and b.get("outcome") == "ok" and a.get("lines") is not None and b.get("lines") is not None:
                dist["compiled_both"] += 1
                try:
                    d1 = c10.rename_anon(pepper.den_pil(a["lines"]), 0); d2 = c10.rename_anon(pepper.den_pil(b["lines"]), 0)
                    if d1 != d2:
                        failures.append({"kind": "predicate", "key": "compile-differs", "summary": "compile(template, args) differs from compiling the hand-expanded file", "replay": dict(rep, expanded=c["expanded"])})
                except ValueError:
                    pass
            elif a.get("outcome") != b.get("outcome"):
                failures.append({"kind": "predicate", "key": "compile-accept", "summary": "template+args is %s but its hand expansion is %s: %s" % (a.get("outcome"), b.get("outcome"), (a.get("error") or b.get("error") or "")[:120]), "replay": dict(rep, expanded=c["expanded"])})
    return {"evaluations": len(cases), "distinct_nontrivial": len(nontrivial),
            "rule": "65% free-form template lines (text, <expr> over parameters and earlier `length` names incl. rebinding of a declared parameter, brace groups with 1-3 alternatives incl. empty and identical neighbouring groups, expressions inside alternatives, comments, blank lines, files with and without a final newline) compared at text level with the model and with the declarative hand expansion; 35% well-formed component templates (a third with a text-valued argument such as 07 used inside a name; those are compared with the hand expansion only) additionally compiled with arguments and compared with compiling the hand-expanded file. Non-trivial = contains a group or an expression and evaluates",
            "samples": ["".join(c["lines"]) for c in cases[:3]], "distribution": dist, "failures": failures}

def replay(path):
    print("re-run the check; cases are regenerated from the seed"); return 0
