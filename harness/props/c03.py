"""C03 NUPACK .des output is constraint-equivalent to the source: theorems on the .des model +
correspondence + constraint-partition oracle over the positions of the program's structures."""
import random, re
import framework as fw
import pepper
from props import c02

ID = "C03"
LEVEL = "proof"
THEOREMS = ["C03_assignment_rereads_partial", "C03_structure_sequences_are_its_strands", "C03_duplex_bonds", "C03_duplex_forces_complement", "C03_binding_equal", "C03_binding_complement", "C03_signal_lines", "C03_component_document_equivalent", "C03_system_document_equivalent", "C03_hypotheses_sound", "C03_system_nonvacuous", "C03_compiled_document_equivalent", "C03_loaded_systems_well_formed"]
TRUSTED = c02.TRUSTED + ["harness reader of .des files and the partition oracle (parity union-find over sequence nucleotides on both sides, compared on the structures' positions)"]
ASSUMPTIONS = c02.ASSUMPTIONS

def read_des(text):
    out = []
    for raw in text.split("\n"):
        line = raw.split("#", 1)[0].strip()
        if not line: continue
        m = re.match(r"structure\s+(\S+)\s*=\s*(\S*)$", line)
        if m: out.append(["structure", m.group(1), m.group(2)]); continue
        m = re.match(r"sequence\s+(\S+)\s*=\s*(\S*)$", line)
        if m: out.append(["sequence", m.group(1), m.group(2)]); continue
        m = re.match(r"(\S+)\s*<\s*(\S+)$", line)
        if m: out.append(["objective", m.group(1), float(m.group(2))]); continue
        m = re.match(r"(\S+)\s*:\s*(.*)$", line)
        if m: out.append(["assign", m.group(1), [[t[:-1], True] if t.endswith("*") else [t, False] for t in m.group(2).split()]]); continue
        raise ValueError(line)
    return out

def canon_model(lines):
    out = []
    for l in lines:
        if l[0] == "assign": out.append(["assign", l[1], [[n, b == "T"] for n, b in l[2]]])
        elif l[0] == "objective": out.append(["objective", l[1], float(l[2])])
        else: out.append(list(l))
    return out

class PUF:
    def __init__(self): self.p = {}; self.q = {}; self.b = {}; self.conflict = False
    def add(self, x, code): self.p[x] = x; self.q[x] = 0; self.b[x] = set(pepper.GROUPS[code])
    def find(self, x):
        if self.p[x] == x: return x, 0
        r, q = self.find(self.p[x]); self.p[x] = r; self.q[x] ^= q
        return r, self.q[x]
    def link(self, a, b, q):
        ra, qa = self.find(a); rb, qb = self.find(b)
        if ra == rb:
            if (qa ^ qb) != q: self.conflict = True
            return
        rel = qa ^ qb ^ q
        ga = self.b[ra] if not rel else set(pepper.BCOMPL[x] for x in self.b[ra])
        self.p[ra] = rb; self.q[ra] = rel; self.b[rb] = ga & self.b[rb]

def bonds_of(dp):
    st = []; out = []; pos = 0
    for ch in dp:
        if ch == "+": continue
        if ch == "(": st.append(pos)
        elif ch == ")": out.append((st.pop(), pos))
        pos += 1
    return out

def canon_positions(uf, struct_positions):
    """struct_positions: list of (name, [nt]) in order -> canonical labelling"""
    ids = {}; flipc = {}; out = []
    for name, nts in struct_positions:
        row = []
        for (d, i, r) in nts:
            root, q = uf.find((d, i)); q ^= r
            if root not in ids: ids[root] = len(ids); flipc[root] = q
            q ^= flipc[root]
            g = uf.b[root] if not (q ^ flipc[root]) else set(pepper.BCOMPL[x] for x in uf.b[root])
            # allowed bases of this position: class set seen through the position's own parity
            root2, q2 = uf.find((d, i)); q2 ^= r
            g = uf.b[root] if not q2 else set(pepper.BCOMPL[x] for x in uf.b[root])
            row.append((ids[root], q, "".join(sorted(g))))
        out.append((name, row))
    return out

class DupAux(Exception):
    pass

def des_side(lines, struct_names):
    seqs = {}; structs = {}; assign = {}; order = []; dup = []
    for l in lines:
        if l[0] == "sequence":
            if l[1] in seqs: raise ValueError("duplicate sequence " + l[1])
            seqs[l[1]] = l[2]
        elif l[0] == "structure":
            if l[1] in structs: dup.append(l[1])
            else: order.append(l[1])
            structs[l[1]] = l[2]
        elif l[0] == "assign":
            if l[1] in assign and assign[l[1]] != l[2] and l[1] in dup: raise DupAux(l[1])
            assign[l[1]] = l[2]
    uf = PUF()
    for n, t in seqs.items():
        for i, c in enumerate(t): uf.add((n, i), c)
    flats = {}
    for sn in order:
        if sn not in assign: raise ValueError("structure %s has no sequence assignment" % sn)
        nts = []
        for n, star in assign[sn]:
            if n not in seqs: raise ValueError("undefined sequence %s in %s" % (n, sn))
            v = [(n, i, False) for i in range(len(seqs[n]))]
            nts += pepper.flip(v) if star else v
        dp = structs[sn]
        if len(nts) != len(dp.replace("+", "")): raise ValueError("assignment of %s has %d nt, structure %d" % (sn, len(nts), len(dp.replace("+", ""))))
        if not pepper.balanced(dp): raise ValueError("unbalanced " + sn)
        flats[sn] = nts
        for x, y in bonds_of(dp):
            a, b = nts[x], nts[y]; uf.link(a[:2], b[:2], a[2] ^ b[2] ^ 1)
    missing = [s for s in struct_names if s not in flats]
    if missing: raise ValueError("structures missing from the .des: %r" % missing[:3])
    return uf, [(s, flats[s]) for s in struct_names], structs

def src_side(den):
    uf = PUF()
    for d, t in den["doms"].items():
        for i, c in enumerate(t): uf.add((d, i), c)
    pos = []
    for (opt, name, strands, dp) in den["structs"]:
        nts = [x for s in strands for x in den["strands"][s][1]]
        pos.append((name, nts))
        for x, y in bonds_of(dp):
            a, b = nts[x], nts[y]; uf.link(a[:2], b[:2], a[2] ^ b[2] ^ 1)
    for e in den["equals"]:
        for v in e[1:]:
            for a, b in zip(e[0], v): uf.link(a[:2], b[:2], a[2] ^ b[2])
    return uf, pos

def impl_case(case):
    case = dict(case, synth=False)
    r = c02.impl_case(case)
    if r.get("outcome") == "ok":
        try:
            r["lines"] = read_des(r["text"])
        except ValueError as e:
            r["lines"] = None; r["unreadable"] = str(e)
        del r["text"]
    return r

def run(tier, seed, build):
    rng = random.Random(seed * 353 + 3)
    n = 200 if tier == "quick" else 3000
    cases = []
    for i in range(n):
        if rng.random() < 0.45:
            prog = pepper.CompGen(rng, name="prog", allow_zero=rng.random() < 0.5, density=rng.choice([0.05, 0.2])).build()
            cases.append({"files": {"prog.comp": pepper.comp_text(rng, prog)}, "entries": [["prog.comp", False, [], [prog["decl"], prog["body"]]]],
                          "includes": [], "base": "prog", "args": [], "_prog": prog})
        else:
            cases.append(c02.gen_case(rng))
    for i, c in enumerate(cases):      # every fifth case: the component files reach two multipliers through a re-assigned `length` variable
        if i % 5 == 2:
            c["files"] = {n: (pepper.lengthify(random.Random(seed * 6007 + i), t) if n.endswith(".comp") else t) for n, t in c["files"].items()}
    impl = fw.run_impl("props.c03", "impl_case", [{k: v for k, v in c.items() if not k.startswith("_")} for c in cases], per_case_timeout=60)
    model = fw.run_model([["des", [c["entries"], c["includes"], r.get("ctr0", 0) if isinstance(r, dict) else 0, c["base"], c["args"]]] for c, r in zip(cases, impl)])
    failures = []; nontrivial = set(); dist = {"accepted": 0, "rejected": 0, "components": 0, "systems": 0, "with_signals": 0, "unsat_both": 0, "sys_okb_holds": 0, "doc_names_distinct": 0, "system_theorem_applies": 0}
    for c, m, r in zip(cases, model, impl):
        if not isinstance(r, dict) or r.get("outcome") not in ("ok", "rejected"):
            failures.append({"kind": "disagreement", "key": "impl-run", "summary": "runner failed: %r" % (r,), "replay": {"files": c["files"]}}); continue
        dist["components" if "_prog" in c else "systems"] += 1
        dist["accepted" if r["outcome"] == "ok" else "rejected"] += 1
        rep = {"files": c["files"], "argv": "pepper-compiler --des %s %s %s" % (c["base"], " ".join(map(str, c["args"])), " ".join("-I " + i for i in c["includes"]))}
        try:
            if "_prog" in c:
                den = pepper.den_src(c["_prog"], "", r["ctr0"])
                if den is not None: den["equals"] = []
            else:
                den, _ = pepper.expected_system_den(c["_gen"], c["_top"], c["args"], r["ctr0"])
        except (ValueError, KeyError, ZeroDivisionError):
            den = None
        if r["outcome"] == "ok" and den is not None:
            if r.get("lines") is None:
                failures.append({"kind": "predicate", "key": "unreadable", "summary": ".des unreadable: %s" % r.get("unreadable"), "replay": rep}); continue
            names = [s[1] for s in den["structs"]]
            try:
                ufd, posd, dstructs = des_side(r["lines"], names)
                ufs, poss = src_side(den)
                if ufd.conflict != ufs.conflict:
                    failures.append({"kind": "predicate", "key": "satisfiability", "summary": "source and .des disagree on satisfiability (odd cycle on one side only)", "replay": rep})
                elif ufd.conflict:
                    dist["unsat_both"] += 1
                else:
                    a, b = canon_positions(ufd, posd), canon_positions(ufs, poss)
                    if a != b:
                        bad = [x[0] for x, y in zip(a, b) if x != y][:3]
                        failures.append({"kind": "predicate", "key": "partition", "summary": "the .des forces different equalities / complementarities / allowed bases on structures %r than the source" % bad, "replay": rep})
                # every structure listed with its target and bound
                for (opt, name, strands, dp) in den["structs"]:
                    if dstructs.get(name) != dp:
                        failures.append({"kind": "predicate", "key": "target", "summary": "structure %s: target %r, source %r" % (name, dstructs.get(name), dp), "replay": rep}); break
                    objs = [l for l in r["lines"] if l[0] == "objective" and l[1] == name]
                    if (opt == 0 and objs) or (opt != 0 and [o[2] for o in objs] != [float(opt)]):
                        failures.append({"kind": "predicate", "key": "objective", "summary": "structure %s: optimisation bound lines %r for opt=%s" % (name, objs, opt), "replay": rep}); break
                if den["equals"]: dist["with_signals"] += 1
                if den["structs"]: nontrivial.add(str(c["files"]))
            except DupAux as e:
                failures.append({"kind": "predicate", "key": "des-duplicate-aux-structure", "summary": "one signal is bound to two ports of one instance that are views (x / x*) of the same sequence: the .des defines the auxiliary duplex structure %s twice with different assignments" % e, "replay": rep})
            except ValueError as e:
                failures.append({"kind": "predicate", "key": "des-illformed", "summary": "the .des is not well formed: %s" % e, "replay": rep})
        elif r["outcome"] != "ok" and den is not None:
            failures.append({"kind": "predicate", "key": "rejected", "summary": "a well-formed program is rejected by the .des back-end: %s" % r.get("error", "")[:150], "replay": rep})
        # model vs implementation
        if m[0] == "Ok":
            ml = canon_model(m[1][1])
            # hypotheses of the system-level theorem (C03_system_document_equivalent), evaluated by the extracted model
            fl = m[1][2] if len(m[1]) > 2 else []
            if len(fl) == 2:
                if fl[0] == "T": dist["sys_okb_holds"] += 1
                else:
                    failures.append({"kind": "tie", "key": "sys-okb", "summary": "a system the model loads does not pass sys_okb, the well-formedness hypothesis of the system-level theorem", "replay": rep})
                if fl[1] == "T": dist["doc_names_distinct"] += 1
                else:
                    seen = {}; dups = []
                    for l in m[1][1]:
                        if l[0] in ("structure", "sequence"):
                            k = (l[0], l[1])
                            if k in seen: dups.append("%s %s" % k)
                            seen[k] = 1
                    dist.setdefault("names_defined_twice", []).append(dups[:3])
                if fl == ["T", "T"]: dist["system_theorem_applies"] += 1
            if r["outcome"] != "ok":
                failures.append({"kind": "disagreement", "key": "model-accepts", "summary": "model emits, implementation rejects: %s" % r.get("error", "")[:120], "replay": rep})
            elif r.get("lines") is not None and ml != r["lines"]:
                d = [(a, b) for a, b in zip(ml, r["lines"]) if a != b][:2] or [("line count", len(ml), len(r["lines"]))]
                failures.append({"kind": "disagreement", "key": "lines", "summary": "model and implementation emit different .des: %r" % (d,), "replay": rep})
        elif r["outcome"] == "ok":
            failures.append({"kind": "disagreement", "key": "model-rejects:" + str(m[1]), "summary": "model rejects (%s), implementation emits" % m[1], "replay": rep})
    return {"evaluations": len(cases), "distinct_nontrivial": len(nontrivial),
            "rule": "45% generated components, 55% generated system libraries (as C02) compiled with the .des back-end; the .des is read by the harness, model and implementation compared line by line, and the constraint partition (classes with parity and allowed bases) over every position of every program structure is compared between the .des (incl. its auxiliary duplexes) and the source denotation; targets and objective lines checked. Non-trivial = has at least one structure; in every fifth case the component files reach two quoted multipliers through a re-assigned `length` variable",
            "samples": [c["files"] for c in cases[:1]], "distribution": dist, "failures": failures}

def replay(path):
    print("re-run the check; cases are regenerated from the seed"); return 0
