"""C09 accepted => well formed; malformed never silent.  Theorem: emission of a well-formed
object passes wf_pil.  Correspondence: AST mutants (model vs implementation), token-level text
mutants and arity mismatches (wf_pil, extracted from Coq, evaluated on the real output)."""
import copy, random, re
import framework as fw
import pepper
from props import c01, c02, c08

ID = "C09"
LEVEL = "proof"
THEOREMS = ["C09_emit_wf_pil", "C09_wf_check_sound", "C09_wf_check2_sound", "C09_compiled_struct_balanced", "C09_domain_struct_balanced", "C09_accepted_wf_pil", "C09_reserved_names", "C09_wf_pil_documents_load", "C09_loaded_system_wf_pil", "C09_names_okb_sound", "C09_fixed_component_wf_pil", "C09_fixed_system_wf_pil"]
TRUSTED = c01.TRUSTED
ASSUMPTIONS = c01.ASSUMPTIONS

def mutate_ast(rng, prog):
    p = copy.deepcopy(prog)
    body = p["body"]
    kind = rng.choice(["del", "dup", "swap", "num", "name", "defname", "defname", "star", "sym", "domain", "strands", "len", "wild", "plus"])
    if not body: return p, "none"
    i = rng.randrange(len(body))
    if kind in ("sym", "domain", "strands", "plus"):       # mutations of a structure statement: pick one (when there is one)
        cands = [k for k, o in enumerate(body) if o[0] == "struct" and (kind != "plus" or o[5][0] == "ext")]
        if cands: i = rng.choice(cands)
    st = body[i]
    def items_of(st): return st[2] if st[0] == "seq" else st[3] if st[0] == "strand" else None
    if kind == "del": del body[i]
    elif kind == "dup": body.insert(rng.randrange(len(body) + 1), copy.deepcopy(st))
    elif kind == "swap" and len(body) > 1:
        j = rng.randrange(len(body)); body[i], body[j] = body[j], body[i]
    elif kind in ("num", "wild"):
        its = items_of(st)
        nuc = [it for it in (its or []) if it[0] == "nuc"]
        if nuc:
            part = rng.choice(rng.choice(nuc)[1])
            part[0] = "?" if kind == "wild" else max(0, (part[0] if part[0] != "?" else 1) + rng.choice([-2, -1, 1, 2, 5]))
        elif st[0] == "struct" and st[5][0] == "ext" and st[5][1]:
            e = rng.choice(st[5][1]); e[0] = max(0, e[0] + rng.choice([-1, 1, 2]))
    elif kind == "len":
        if st[0] == "seq": st[3] = ["Some", rng.choice([0, 1, 3, 7, 20])] if rng.random() < 0.8 else None
        elif st[0] == "strand": st[4] = ["Some", rng.choice([0, 1, 3, 7, 20])] if rng.random() < 0.8 else None
    elif kind == "name":
        its = items_of(st)
        refs = [it for it in (its or []) if it[0] != "nuc"]
        if refs: rng.choice(refs)[1] = rng.choice(["nosuch", "a", "x", st[1] if st[0] == "seq" else "y", "_Anon0", "_Anon1"])
        elif st[0] == "struct": st[3][rng.randrange(len(st[3]))] = rng.choice(["nosuch", st[2]])
        elif st[0] == "kin" and st[3]: st[3][0] = "nosuch"
    elif kind == "defname":
        # give this definition the name of another definition of the same namespace (a base sequence and a
        # composite sequence share one): "every name refers to a unique earlier definition"
        pos = {"seq": 1, "strand": 2, "struct": 2}
        if st[0] in pos:
            others = [o[pos[o[0]]] for k, o in enumerate(body) if k != i and o[0] == st[0]]
            if st[0] == "seq" and rng.random() < 0.25: others = ["_Anon%d" % rng.choice([0, 1, 3])]    # reserved names must be rejected
            if others: st[pos[st[0]]] = rng.choice(others)
    elif kind == "star":
        its = items_of(st)
        refs = [it for it in (its or []) if it[0] != "nuc"]
        if refs:
            r = rng.choice(refs); r[2] = not r[2]
    elif kind == "sym" and st[0] == "struct":
        if st[5][0] == "ext" and st[5][1]:
            e = rng.choice(st[5][1]); e[1] = rng.choice("().+")
        elif st[5][0] == "hu" and st[5][1]:
            t = rng.choice(st[5][1])
            if t[0] in ("U", "H"): t[1] = max(0, t[1] + rng.choice([-1, 1, 3]))
    elif kind == "plus" and st[0] == "struct" and st[5][0] == "ext":
        # a stray strand break: leading, trailing or doubled '+' (one segment more than strands)
        e = st[5][1]; where = rng.choice(["lead", "trail", "double"])
        plus = [k for k, x in enumerate(e) if x[1] == "+"]
        if where == "double" and plus: e.insert(rng.choice(plus), [1, "+"])
        elif where == "lead": e.insert(0, [1, "+"])
        else: e.append([1, "+"])
    elif kind == "domain" and st[0] == "struct":
        st[4] = not st[4]
    elif kind == "strands" and st[0] == "struct":
        if rng.random() < 0.5 and len(st[3]) > 1: st[3].pop()
        else: st[3].append(st[3][0])
    return p, kind

def mutate_text(rng, text):
    toks = re.findall(r"\s+|[A-Za-z_][\w-]*|\d+|.", text)
    idx = [i for i, t in enumerate(toks) if not t.isspace()]
    if not idx: return text, "none"
    i = rng.choice(idx)
    kind = rng.choice(["del", "dup", "swap", "num", "star", "bracket"])
    if kind == "del": del toks[i]
    elif kind == "dup": toks.insert(i, toks[i])
    elif kind == "swap":
        j = rng.choice(idx); toks[i], toks[j] = toks[j], toks[i]
    elif kind == "num":
        nums = [k for k in idx if toks[k].isdigit()]
        if nums:
            k = rng.choice(nums); toks[k] = str(max(0, int(toks[k]) + rng.choice([-2, -1, 1, 2, 10])))
    elif kind == "star":
        toks.insert(i + 1, "*")
    else:
        toks[i] = rng.choice(list("().+[]\"*:=")) if len(toks[i]) == 1 else toks[i]
    return "".join(toks), kind

def gen_arity(rng):
    npar = rng.choice([0, 1, 2, 3])
    names = ["n", "m", "k"][:npar]
    nargs = rng.choice([npar, npar, max(0, npar - 1), npar + 1, 0, 2])
    used = [nm for nm in names if rng.random() < 0.6]
    lines = ["declare component prog%s: x -> x" % ("(%s)" % ", ".join(names) if names or rng.random() < 0.3 else "")]
    if names and rng.random() < 0.3:
        lines.append("length %s = %s" % (names[-1], rng.choice(["4", names[0] + " + 1" if len(names) > 1 else "5"])))
    lines.append('sequence x = "%sN"' % ("<%s>" % used[0] if used else "5"))
    for nm in used[1:]:
        lines.append('sequence y_%s = "<%s + 1>S"' % (nm, nm))
    lines.append("strand T = x")
    lines.append("structure S = T : U%s" % ("<%s>" % used[0] if used else "5"))
    args = [rng.choice([2, 3, 6]) for _ in range(nargs)]
    return {"kind": "arity", "text": "\n".join(lines) + "\n", "args": args, "npar": npar}

def gen_deep(rng, force=False):
    """a nucleotide-level structure with a very deep helix (beyond the depth the recursive dot-paren grammar handles)
    followed by a tail that is balanced, has its brackets in the wrong order, or has one bracket too many"""
    D = rng.choice([70, 120, 150, 300]); k = rng.randrange(3, 8); a = rng.randrange(2, 8); b = rng.randrange(3, 6)
    tail = rng.choice(["ok", "swapped", "extra-close", "extra-open", "none"])
    if force: D, tail = 150, "swapped"      # every run: deep helix first, then a region with its brackets in the wrong order
    helix = "%d( %d. %d)" % (D, k, D)
    if tail == "ok": t, tl = " %d( %d. %d)" % (a, b, a), 2 * a + b
    elif tail == "swapped": t, tl = " %d) %d. %d(" % (a, b, a), 2 * a + b
    elif tail == "extra-close": t, tl = " %d. %d)" % (b, a), a + b
    elif tail == "extra-open": t, tl = " %d( %d." % (a, b), a + b
    else: t, tl = "", 0
    if rng.random() < 0.5 and not force: helix, t = (t.strip(), " " + helix) if t else (helix, t)
    L = 2 * D + k + tl
    text = "declare component prog: ->\nsequence x = \"%dN\"\nstrand s = x\nstructure S = s : %s%s\n" % (L, helix, t)
    return {"kind": "text", "mut": "deep-helix/" + tail, "text": text}

def impl_case(case):
    import implrun
    r = implrun.compile_files({"prog.comp": case["text"]}, "prog", args=case.get("args", ()))
    if r["outcome"] == "ok":
        try:
            r["lines"] = pepper.read_pil(r["text"])
        except ValueError as e:
            r["lines"] = None; r["unreadable"] = str(e)
        del r["text"]
    return r

def lines_sexp(lines):
    out = []
    for l in lines:
        if l[0] == "kinetic": out.append(["kinetic", l[3], l[4]])
        else: out.append(l)
    return out

def run(tier, seed, build):
    rng = random.Random(seed * 811 + 9)
    n = 1200 if tier == "quick" else 25000
    cases = []
    for i in range(n):
        r = rng.random()
        if r < 0.45:
            prog = pepper.CompGen(rng, name="prog").build()
            mp, kind = mutate_ast(rng, prog)
            if rng.random() < 0.3: mp, k2 = mutate_ast(rng, mp)
            cases.append({"kind": "ast", "mut": kind, "prog": mp, "text": pepper.comp_text(rng, mp)})
        elif r < 0.85:
            prog = pepper.CompGen(rng, name="prog").build()
            t, kind = mutate_text(rng, pepper.comp_text(rng, prog))
            cases.append({"kind": "text", "mut": kind, "text": t})
        elif r < 0.93:
            cases.append(gen_arity(rng))
        else:
            # domain-level structures over domains of unequal lengths (sibling helices, swapped complements)
            t = c08.gen_domain(rng)["text"]
            kind = "none"
            if rng.random() < 0.5: t, kind = mutate_text(rng, t)
            cases.append({"kind": "text", "mut": "domain-level/" + kind, "text": t})
    for i in range(10 if tier == "quick" else 200):
        cases.append(gen_deep(rng, force=(i == 0)))
    impl = fw.run_impl("props.c09", "impl_case", [{"text": c["text"], "args": c.get("args", ())} for c in cases])
    reqs = []; where = []
    for i, (c, r) in enumerate(zip(cases, impl)):
        if c["kind"] == "ast":
            reqs.append(["comp", [r.get("ctr0", 0), "", c["prog"]["decl"], c["prog"]["body"]]]); where.append((i, "model"))
        if isinstance(r, dict) and r.get("outcome") == "ok" and r.get("lines") is not None:
            reqs.append(["wfpil", lines_sexp(r["lines"])]); where.append((i, "wf"))
    res = fw.run_model(reqs)
    model = {}; wf = {}
    for (i, tag), m in zip(where, res):
        (model if tag == "model" else wf)[i] = m
    failures = []; nontrivial = set()
    dist = {"ast": 0, "text": 0, "arity": 0, "accepted": 0, "rejected": 0, "mutations": {}, "accepted_by_kind": {}}
    for i, (c, r) in enumerate(zip(cases, impl)):
        dist[c["kind"]] += 1
        dist["mutations"][c.get("mut", "arity")] = dist["mutations"].get(c.get("mut", "arity"), 0) + 1
        if not isinstance(r, dict) or r.get("outcome") not in ("ok", "rejected"):
            failures.append({"kind": "disagreement", "key": "impl-run", "summary": "runner failed: %r" % (r,), "replay": {"text": c["text"]}}); continue
        acc = r["outcome"] == "ok"
        dist["accepted" if acc else "rejected"] += 1
        if acc: dist["accepted_by_kind"][c["kind"]] = dist["accepted_by_kind"].get(c["kind"], 0) + 1
        rep = {"files": {"prog.comp": c["text"]}, "args": c.get("args", []), "reproduce": "compile prog.comp with compiler.compiler('prog', args, 'out.pil','out.save',None,True,None)"}
        if acc:
            if r.get("lines") is None:
                failures.append({"kind": "predicate", "key": "unreadable", "summary": "accepted program, but the emitted .pil cannot be read: %s" % r.get("unreadable"), "replay": rep})
            elif wf.get(i) != "T":
                failures.append({"kind": "predicate", "key": "wf_pil", "summary": "accepted program whose emitted .pil violates the well-formedness predicate (unbalanced / mis-sized structure, length mismatch, or unresolved / duplicate name)", "replay": dict(rep, lines=str(r["lines"])[:1500])})
            nontrivial.add(c["text"])
        if c["kind"] == "arity":
            if acc != (len(c["args"]) == c["npar"]):
                failures.append({"kind": "predicate", "key": "arity", "summary": "template with %d parameter(s) given %d argument(s) is %s" % (c["npar"], len(c["args"]), "accepted" if acc else "rejected"), "replay": rep})
        if c["kind"] == "ast":
            fs = c01.compare({"prog": c["prog"], "text": c["text"]}, model[i], r)
            failures += [f for f in fs if f["kind"] != "predicate" or f["key"].startswith("pil-illformed") or f["key"] == "unreadable"]
    # whole systems (C09_loaded_system_wf_pil): the real output of every accepted nested system passes the extracted predicate,
    # and the model's name hypothesis (identifiers without '-') holds of the loaded object
    scases = [c02.gen_case(rng) for _ in range(40 if tier == "quick" else 600)]
    simpl = fw.run_impl("props.c02", "impl_case", [{k: v for k, v in c.items() if not k.startswith("_")} for c in scases], per_case_timeout=60)
    sreqs = []; swhere = []
    for i, (c, r) in enumerate(zip(scases, simpl)):
        if isinstance(r, dict) and r.get("outcome") == "ok" and r.get("lines") is not None:
            sreqs.append(["wfpil", lines_sexp(r["lines"])]); swhere.append((i, "wf"))
            sreqs.append(c02.model_req(c, r.get("ctr0", 0))); swhere.append((i, "sys"))
    dist["systems"] = 0; dist["system_names_ok"] = 0
    for (i, tag), m in zip(swhere, fw.run_model(sreqs)):
        c = scases[i]
        rep = {"files": c["files"], "argv": "pepper-compiler %s %s %s" % (c["base"], " ".join(map(str, c["args"])), " ".join("-I " + x for x in c["includes"]))}
        if tag == "wf":
            dist["systems"] += 1
            if m != "T":
                failures.append({"kind": "predicate", "key": "system-wf_pil", "summary": "the specification emitted for an accepted system violates the well-formedness predicate", "replay": rep})
        elif m[0] == "Ok" and len(m[1]) > 2:
            if m[1][2] and all(x == "T" for x in m[1][2]): dist["system_names_ok"] += 1
            else: failures.append({"kind": "tie", "key": "names-okb", "summary": "a loaded system does not pass names_okb, the hypothesis of the system-level theorem", "replay": rep})
    # "whenever the compiler produces output" with a fixed-sequence file (C09_fixed_system_wf_pil): entries of every kind, about half of
    # the files with one string one character short or padded with trailing N's - accepted or not, what is written must pass the predicate
    from props import c12
    fcases = []
    for c in scases + [c02.gen_case(rng) for _ in range(40 if tier == "quick" else 600)]:
        try: den0, _ = pepper.expected_system_den(c["_gen"], c["_top"], c["args"], 0)
        except (ValueError, KeyError, ZeroDivisionError, TypeError): den0 = None
        if den0 is None: continue
        ents = [e for e in c12.gen_fixed(rng, den0) if "_Anon" not in e[1]]
        sig = [e for e in ents if e[0] == "signal"]
        if ents and rng.random() < 0.6:
            e = rng.choice(sig) if sig and rng.random() < 0.7 else rng.choice(ents)
            e[2] = e[2][:-1] if rng.random() < 0.5 and len(e[2]) > 1 else e[2] + "N" * rng.choice([1, 2])
        fc = dict(c); fc["files"] = dict(c["files"]); fc["files"]["fix.fixed"] = c12.fixed_text(rng, ents); fc["fixed"] = "fix.fixed"
        fcases.append(fc)
    fimpl = fw.run_impl("props.c02", "impl_case", [{k: v for k, v in c.items() if not k.startswith("_")} for c in fcases], per_case_timeout=60)
    freqs = []; fidx = []
    for i, r in enumerate(fimpl):
        if isinstance(r, dict) and r.get("outcome") == "ok" and r.get("lines") is not None:
            freqs.append(["wfpil", lines_sexp(r["lines"])]); fidx.append(i)
    dist["fixed_file_systems"] = len(fcases); dist["fixed_file_outputs"] = len(fidx)
    for i, m in zip(fidx, fw.run_model(freqs)):
        c = fcases[i]
        if m != "T":
            failures.append({"kind": "predicate", "key": "fixed-system-wf_pil", "summary": "the specification written with a fixed-sequence file violates the well-formedness predicate",
                             "replay": {"files": c["files"], "argv": "pepper-compiler %s %s --fixed fix.fixed %s" % (c["base"], " ".join(map(str, c["args"])), " ".join("-I " + x for x in c["includes"]))}})
    return {"evaluations": len(cases) + len(scases) + len(fcases), "distinct_nontrivial": len(nontrivial),
            "rule": "45% AST mutants of generated valid components (delete/duplicate/swap statements, perturb multipliers / lengths / run lengths, rename or star a reference, change a structure symbol, toggle `domain`, change the strand list; 30% doubly mutated) compared model vs implementation; 40% token-level text mutants (delete/duplicate/swap a token, perturb a number, insert a star, replace a bracket); 15% parameterised templates with wrong argument counts. On every accepted case the Coq-extracted predicate wf_pil is evaluated on the real .pil. Non-trivial = mutant that is still accepted",
            "samples": [c["text"] for c in cases[:3]], "distribution": dist, "failures": failures}

def replay(path):
    print("re-run the check; cases are regenerated from the seed"); return 0
