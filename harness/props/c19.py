"""C19 spuriousSSM: termination theorem + sanitised runs of the binary built from the working tree on
consistent triples x option sets; every traced / final sequence checked with the Coq-extracted
validity predicate; no run may exceed its time-out when only the program's own stopping rule applies."""
import os, random, re, shutil, subprocess
import framework as fw
import pepper, cbuild
from props import c04

ID = "C19"
LEVEL = "proof"
THEOREMS = ["C19_search_terminates", "C19_unrepaired_loop_diverges", "C19_constrain_valid", "C19_mutate_valid", "C19_search_output_valid", "C19_valid_is_checked_predicate", "C19_triple_ok_sound", "C19_valid_shape"]
TRUSTED = ["clang ASan/UBSan build of spuriousSSM.c from the working tree (ASAN_OPTIONS=detect_leaks=0: the one-block oldS leak at exit is not a memory error)",
           "the score functions are abstracted to an arbitrary strict order in the theorem; erand48 / /dev/urandom are outside the model",
           "harness generator of consistent triples: designer model output (consistent by the C04/C05 machinery) and hand-built ones"]
ASSUMPTIONS = ["a run with no tmax/imax is given 150 s (ASan build) before it is reported as not terminating"]

OPTION_SETS = [[], [], ["score=automatic"], ["score=automatic"], ["bmax=5"], ["imax=50"], ["tmax=1"], ["score=bonds"], ["score=verboten"],
               ["score=spurious", "bmult=2"], ["score=automatic", "W_spurious=0", "W_verboten=0"], ["trace=ON", "imax=40"], ["trace=ON", "score=automatic", "bmult=1"],
               ["quiet=TRUE"], ["quiet=ALL", "imax=10"], ["quiet=WATCH", "bmax=3"], ["spurious_range=3", "imax=30"], ["spurious_equality=0", "bmax=4"],
               ["score=automatic", "temperature=25", "W_bonds=2.5", "bmult=1"], ["bored=2"], ["OUTPUT"], ["SEQUENCE", "imax=20"],
               ["SEQUENCE", "trace=ON", "imax=30"], ["SEQUENCE", "imax=1"], ["SEQUENCE", "trace=ON", "score=automatic", "bmult=1"], ["SEQUENCE", "trace=ON", "bmax=6"],
               ["score=automatic", "bmax=0"], ["bored=0", "score=automatic"], ["bmax=0"], ["quiet=SCORES"], ["quiet=SCORES", "score=automatic", "bmult=1"],
               ["bmult=0"], ["score=automatic", "bmult=0"], ["score=verboten", "bmult=0"],
               # numeric options at and beyond the ends of their ranges (spurious_range is clamped to 10)
               ["spurious_range=10", "imax=20"], ["spurious_range=9", "score=automatic", "imax=20"], ["spurious_range=1", "imax=20"], ["spurious_range=25", "bmax=3"],
               ["spurious_beta=1", "imax=20"], ["W_spurious=0", "imax=20"], ["temperature=0", "score=automatic", "imax=20"],
               # the number files in other spellings the reader accepts (reals, exponents, signs, one number per line)
               ["SPELL=real", "imax=20"], ["SPELL=exp", "score=automatic", "imax=20"], ["SPELL=lines", "imax=20"]]

# option sets that only run in the "every option set once" pass (kept out of OPTION_SETS so that the random picks do not move):
# spurious_range at and below zero (clamped to 1)
EXTRA_SETS = [["spurious_range=0", "imax=20"], ["spurious_range=-3", "score=automatic", "imax=20"], ["spurious_range=0", "score=spurious", "bmax=3"]]

def hand_triples(rng):
    out = []
    for st in ("N", "A", "S", "NN", "AC", "N N", "NNNNN  NNNNN", " NNNNNNN NNNN  NNN", "  SWNNH DNNWS", " N"):      # also: templates that start with blanks (trailing blanks are stripped by the loader, by design)
        n = len(st)
        out.append((st, [-1] * n, [0 if c == " " else i + 1 for i, c in enumerate(st)]))
    # a hairpin: stem paired, loop free
    for L, loop in ((4, 3), (8, 5), (10, 4)):
        st = "N" * (2 * L + loop)
        n = len(st); wc = [-1] * n; eq = list(range(1, n + 1))
        for i in range(L): wc[i] = n - i; wc[n - 1 - i] = i + 1
        out.append((st, wc, eq))
    # long unconstrained designs (>= 100 positions with an eq file and no sequence file)
    for n in (97, 100, 104, 130, 282):
        st = "".join(rng.choice("NNNNSWACGT") for _ in range(n))
        st = st[:n // 2] + "  " + st[n // 2 + 2:]
        out.append((st, [-1] * n, [0 if c == " " else i + 1 for i, c in enumerate(st)]))
    # fully fixed
    st = "".join(rng.choice("ACGT") for _ in range(25)); out.append((st, [-1] * 25, list(range(1, 26))))
    # a design of more than 1024 positions (input buffers, index arithmetic): 27 duplexes of 2 x 22 plus blanks
    st = ""; wc = []; eq = []
    for k in range(27):
        a0 = len(st)
        st += "N" * 22 + " " + "N" * 22 + "  "
        for i in range(22): wc.append(a0 + 23 + 22 - i)
        wc.append(-1)
        for i in range(22): wc.append(a0 + 22 - i)
        wc += [-1, -1]
        eq += [a0 + i + 1 for i in range(22)] + [0] + [a0 + 23 + i + 1 for i in range(22)] + [0, 0]
    out.append((st[:-2], wc[:-2], eq[:-2]))      # as the front-end writes them: no blanks after the last nucleotide
    return out

def impl_case(case):
    d = case["dir"]
    os.makedirs(d, exist_ok=True)
    st, wc, eq = case["st"], case["wc"], case["eq"]
    open(os.path.join(d, "t.st"), "w").write(st)
    spell = [o.split("=", 1)[1] for o in case["opts"] if o.startswith("SPELL=")]
    fmt = {"real": "%.1f ", "exp": "%.18e ", "lines": "%+d\n"}.get(spell[0] if spell else "", "%d ")
    open(os.path.join(d, "t.wc"), "w").write("".join(fmt % x for x in wc))
    open(os.path.join(d, "t.eq"), "w").write("".join(fmt % x for x in eq))
    args = [case["binary"], "template=" + os.path.join(d, "t.st"), "wc=" + os.path.join(d, "t.wc"), "eq=" + os.path.join(d, "t.eq")]
    outfile = None; init = None
    for o in case["opts"]:
        if o == "OUTPUT":
            outfile = os.path.join(d, "final.txt"); args.append("output=" + outfile)
        elif o.startswith("SPELL="):
            pass
        elif o == "SEQUENCE":
            rng = random.Random(case["seed"])
            G = pepper.GROUPS
            init = "".join(rng.choice(G[c]) if c in G else " " for c in st)      # within the templates, not obeying eq / wc
            open(os.path.join(d, "t.rS"), "w").write(init)
            args.append("sequence=" + os.path.join(d, "t.rS"))
        else:
            args.append(o)
    limited = any(o.startswith(("imax=", "tmax=")) for o in case["opts"])
    env = dict(os.environ, ASAN_OPTIONS="detect_leaks=0", UBSAN_OPTIONS="print_stacktrace=1")
    try:
        p = subprocess.run(args, stdout=subprocess.PIPE, stderr=subprocess.PIPE, timeout=60 if limited else 150, env=env)
    except subprocess.TimeoutExpired:
        shutil.rmtree(d, ignore_errors=True)
        return {"outcome": "timeout", "argv": " ".join(args[1:])}
    out = p.stdout.decode("latin-1"); err = p.stderr.decode("latin-1")
    final = open(outfile).read().rstrip("\n") if outfile and os.path.exists(outfile) else None
    shutil.rmtree(d, ignore_errors=True)
    n = len(st)
    lines = out.split("\n")
    seqlines = [l for l in lines if len(l) == n and re.fullmatch(r"[ACGT ]+", l)]
    mc = re.search(r"constrained S = <([ACGT ]*)>", out)
    if final is None:
        nonempty = [l for l in lines if l != ""]
        final = nonempty[-1] if nonempty else None
    return {"outcome": "done", "rc": p.returncode, "stderr": err[-800:], "final": final, "traced": seqlines[-200:], "argv": " ".join(args[1:]),
            "init": init, "constrained": mc.group(1) if mc else None,
            "chain": seqlines if ("trace=ON" in case["opts"] and len(seqlines) <= 1500) else None}

def run(tier, seed, build):
    rng = random.Random(seed * 523 + 19)
    binary, log = cbuild.ssm_asan()
    if binary is None:
        return {"evaluations": 0, "distinct_nontrivial": 0, "rule": "", "samples": [],
                "failures": [{"kind": "tie", "key": "c-build", "summary": "cannot build the sanitised spuriousSSM from the working tree: " + log[-300:], "replay": {}}]}
    ntriples = 40 if tier == "quick" else 500
    # consistent triples from the designer model on generated documents
    docs = c04.gen_docs(rng, ntriples, frac_compiled=0.3)
    reqs = [["files", [c04.lines_sexp(d["lines"]), so]] for d in docs for so in (False, True)]
    mres = fw.run_model(reqs)
    triples = []
    for m in mres:
        if m[0] == "ok":
            triples.append((m[3], [int(x) for x in m[2]], [int(x) for x in m[1]]))
    rng.shuffle(triples)
    triples = hand_triples(rng) + triples[:ntriples]
    wd = fw.workdir("c19")
    cases = []
    for ti, (st, wc, eq) in enumerate(triples):
        k = 2 if tier == "quick" else 4
        for opts in ([["imax=5"], ["score=automatic", "imax=3"]] if len(st) > 1024 else ([[], ["score=automatic"]] if ti < 20 else []) + [rng.choice(OPTION_SETS) for _ in range(k)]):
            if len(st) > 150 and not any(o.startswith(("imax", "tmax", "bmax", "bored")) for o in opts) and tier == "quick" and rng.random() < 0.5:
                opts = opts + ["bmult=1"]
            cases.append({"st": st, "wc": wc, "eq": eq, "opts": opts, "binary": binary, "dir": os.path.join(wd, "r%d" % len(cases)), "seed": rng.randrange(10**6)})
    # every option set once, whatever the random choices above: on a hairpin with a free loop
    hp = [t for t in triples if any(x != -1 for x in t[1])][:1]
    for st, wc, eq in hp:
        for opts in OPTION_SETS[2:] + EXTRA_SETS:
            cases.append({"st": st, "wc": wc, "eq": eq, "opts": list(opts), "binary": binary, "dir": os.path.join(wd, "r%d" % len(cases)), "seed": rng.randrange(10**6)})
    try:
        impl = fw.run_impl("props.c19", "impl_case", cases, per_case_timeout=200, procs=14, chunksize=1)
    finally:
        shutil.rmtree(wd, ignore_errors=True)
    vreq = []; where = []
    for ci, (c, r) in enumerate(zip(cases, impl)):
        if isinstance(r, dict) and r.get("outcome") == "done":
            for s in ([r["final"]] if r["final"] is not None else []) + r["traced"][-40:]:
                vreq.append(["ssmvalid", [c["st"], c["wc"], c["eq"], s]]); where.append((ci, s))
    vres = fw.run_model(vreq)
    # exact ties of the model of constrain / mutate to the binary, and the hypothesis of the validity theorems
    treq = []; twhere = []
    for ti, (st, wc, eq) in enumerate(triples):
        treq.append(["ssmtriple", [st, wc, eq]]); twhere.append(("triple", ti, None))
    for ci, (c, r) in enumerate(zip(cases, impl)):
        if isinstance(r, dict) and r.get("outcome") == "done" and r.get("rc") == 0:
            if r.get("init") is not None and r.get("constrained") is not None:
                treq.append(["ssmconstrain", [c["st"], c["wc"], c["eq"], r["init"]]]); twhere.append(("constrain", ci, r["constrained"]))
            if r.get("chain") is not None and r.get("constrained") is not None:
                prev = r["constrained"]
                for s_ in r["chain"]:
                    if s_ != prev:
                        treq.append(["ssmstep", [c["st"], c["wc"], c["eq"], prev, s_]]); twhere.append(("step", ci, (prev, s_)))
                        prev = s_
    tres = fw.run_model(treq)
    tie_fail = {}; bad_triples = []; nsteps = 0; nconstrain = 0
    for (kind, idx, extra), v in zip(twhere, tres):
        if kind == "triple":
            if v != "T": bad_triples.append(idx)
        elif kind == "constrain":
            nconstrain += 1
            if v != extra: tie_fail.setdefault(idx, ("constrain", "model constrain gives %r, the binary printed %r" % (v, extra)))
        else:
            nsteps += 1
            if v != "T": tie_fail.setdefault(idx, ("step", "no mutation of a free location to a base of its template turns %r into the next traced sequence %r" % extra))
    invalid = {}
    for (ci, s), v in zip(where, vres):
        if v != "T": invalid.setdefault(ci, s)
    failures = []; nontrivial = set()
    dist = {"runs": len(cases), "triples": len(triples), "no_limit_runs": 0, "sequences_validated": len(vreq), "lengths": {}, "options": {}, "free_bases": 0,
            "constrain_compared": nconstrain, "search_steps_matched": nsteps}
    for ti in bad_triples:
        failures.append({"kind": "tie", "key": "triple-ok", "summary": "a generated triple does not satisfy triple_ok (hypothesis of the validity theorems): %r" % (triples[ti][0][:60],),
                         "replay": {"template": triples[ti][0], "wc": triples[ti][1], "eq": triples[ti][2]}})
    for ci, (c, r) in enumerate(zip(cases, impl)):
        rep = {"template": c["st"], "wc": c["wc"], "eq": c["eq"], "options": c["opts"],
               "reproduce": "build spuriousSSM.c with clang -fsanitize=address,undefined; write the three arrays to t.st / t.wc / t.eq; timeout 150 ./spuriousSSM template=t.st wc=t.wc eq=t.eq " + " ".join(c["opts"])}
        n = len(c["st"])
        b = "1" if n == 1 else "2-9" if n < 10 else "10-99" if n < 100 else "100+"
        dist["lengths"][b] = dist["lengths"].get(b, 0) + 1
        key = " ".join(sorted(o.split("=")[0] + ("=" + o.split("=")[1] if o.startswith("score") else "") for o in c["opts"])) or "(none)"
        dist["options"][key] = dist["options"].get(key, 0) + 1
        limited = any(o.startswith(("imax=", "tmax=")) for o in c["opts"])
        if not limited: dist["no_limit_runs"] += 1
        if not isinstance(r, dict) or r.get("outcome") not in ("done", "timeout"):
            failures.append({"kind": "disagreement", "key": "impl-run", "summary": "runner failed: %r" % (str(r)[:200],), "replay": rep}); continue
        if r["outcome"] == "timeout":
            failures.append({"kind": "predicate", "key": "no-termination:" + key, "summary": "spuriousSSM does not stop (%s s) with options [%s] on a %d-position design" % ("60" if limited else "150", " ".join(c["opts"]), n), "replay": rep}); continue
        san = "AddressSanitizer" in r["stderr"] or "runtime error" in r["stderr"] or "LeakSanitizer" in r["stderr"]
        if san:
            failures.append({"kind": "predicate", "key": "sanitizer", "summary": "memory error / undefined behaviour reported on a %d-position design with options [%s]: %s" % (n, " ".join(c["opts"]), r["stderr"][-300:].replace("\n", " | ")), "replay": rep}); continue
        if r["rc"] != 0:
            failures.append({"kind": "predicate", "key": "exit-status", "summary": "exit status %s on a consistent triple (options [%s]): %s" % (r["rc"], " ".join(c["opts"]), r["stderr"][-200:].replace("\n", " | ")), "replay": rep}); continue
        if r["final"] is None or len(r["final"]) != n:
            failures.append({"kind": "predicate", "key": "output-shape", "summary": "the output %r is not one sequence of the input length %d" % (r["final"], n), "replay": rep}); continue
        if ci in tie_fail:
            failures.append({"kind": "disagreement", "key": "model-" + tie_fail[ci][0], "summary": "the model of spuriousSSM's %s disagrees with the binary: %s" % tie_fail[ci], "replay": rep}); continue
        if ci in invalid:
            failures.append({"kind": "predicate", "key": "invalid-sequence", "summary": "a printed sequence violates template / eq / wc: %r" % invalid[ci], "replay": rep}); continue
        if any(x != -1 for x in c["wc"]) or n >= 100: nontrivial.add((c["st"], tuple(c["opts"])))
    return {"evaluations": len(cases), "distinct_nontrivial": len(nontrivial),
            "rule": "consistent triples: the designer model's files for generated PIL documents in both layouts, plus hand-built ones (length 1 and 2, blanks, hairpins, unconstrained designs of 97-282 positions, fully fixed, one design of 1267 positions) x option sets (none, score=automatic, bmax, imax, tmax, score modes and weights, bmult incl. 0, trace=ON, quiet modes, output=, sequence=, spurious_range/equality, temperature); ASan+UBSan binary under a time-out; exit status, output shape, every traced and final sequence through the extracted validity predicate; the model's constrain compared exactly with the binary's 'constrained S' for start sequences given by file (within the templates, not obeying eq/wc), every consecutive pair of traced sequences must be one model mutation of a free location; triple_ok evaluated on every triple. Non-trivial = has pairs or at least 100 positions",
            "samples": [{"template": c["st"], "options": c["opts"]} for c in cases[:5]], "distribution": dist, "failures": failures}

def replay(path):
    print("re-run the check; cases are regenerated from the seed"); return 0
