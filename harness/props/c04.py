"""C04 designer arrays = exact closure of the specification.  Theorems on the designer model
(arrays are min-representatives of the parity closure of the seeded link graph; layout
formula) + correspondence on PIL documents x both layouts + the denotation-level oracle."""
import random
import framework as fw
import pepper

ID = "C04"
LEVEL = "proof"
THEOREMS = ["C04_closure_exact_partial", "C04_eq_rep_least", "C04_wc_rep_least", "C04_wc_rep_none", "C04_same_rep_iff_connected", "C04_wc_rep_is_eq_rep_of_partner", "C04_strand_layout", "C04_template_clause", "C04_seeded_total", "C04_seeded_graph_denotes", "C04_connected_nodes_declared", "C04_contraction", "C04_denotation_nonvacuous", "C04_loaded_graph_denotes", "C04_loaded_hypotheses", "C04_seed_is_declarative", "C04_blank_iff_off_strand", "C04_two_blanks_after_strand", "C04_struct_loaded_graph_denotes", "C04_struct_loaded_hypotheses", "C04_struct_seed_is_declarative", "C04_struct_blank_iff_off_struct", "C04_struct_blanks", "C04_struct_separators"]
TRUSTED = ["harness/pepper.py: generator/printer of PIL documents (compiler-emitted and hand-written style), and spec_arrays: the parity union-find oracle over the document's denotation used by the failing-input search",
           "PIL_parser's regular expressions are exercised with free spacing / comments / optional [..], not modelled"]
ASSUMPTIONS = ["structure-oriented layout only for documents in which every strand occurs in some structure"]

def impl_case(case):
    import implrun, os, shutil
    d = implrun.fresh_dir()
    try:
        path = os.path.join(d, "doc.pil")
        open(path, "w").write(case["text"])
        out = {}
        for so in (False, True):
            a, conv = implrun.designer_arrays(path, so)
            out["struct" if so else "strand"] = a
        return out
    finally:
        shutil.rmtree(d, ignore_errors=True)

def lines_sexp(lines):
    return [["kinetic", l[3], l[4]] if l[0] == "kinetic" else l for l in lines]

def model_arrays(m):
    if m[0] == "ok":
        o = lambda x: None if x == "None" else int(x[1])
        return ("ok", [o(x) for x in m[1]], [o(x) for x in m[2]], [None if x == "None" else x for x in m[3]])
    if m[0] == "over": return ("unsat",)
    return ("rejected", m[1])

def gen_docs(rng, n, frac_compiled=0.4):
    from props import c01
    docs = []
    ncomp = int(n * frac_compiled)
    progs = c01.gen_cases(rng, ncomp, density=0.04)
    comp = fw.run_impl("props.c01", "impl_case", [{"text": c["text"]} for c in progs])
    for c, r in zip(progs, comp):
        if isinstance(r, dict) and r.get("outcome") == "ok" and r.get("lines"):
            docs.append({"source": "compiler", "lines": r["lines"], "text": pepper.pil_text(rng, r["lines"], handwritten=False)})
    while len(docs) < n:
        lines = pepper.gen_pil_doc(rng, struct_ok=rng.random() < 0.7)
        docs.append({"source": "hand", "lines": lines, "text": pepper.pil_text(rng, lines, handwritten=True)})
    return docs

def evaluate(docs, which=("C04",)):
    impl = fw.run_impl("props.c04", "impl_case", [{"text": d["text"]} for d in docs])
    reqs = []
    for d in docs:
        for so in (False, True):
            reqs.append(["design", [lines_sexp(d["lines"]), so]])
    mres = fw.run_model(reqs)
    dres = fw.run_model([["denote", [lines_sexp(d["lines"])]] for d in docs])
    failures = {"C04": [], "C15": []}
    stats = {"sat": 0, "unsat": 0, "illformed": 0, "compiler": 0, "hand": 0, "nontrivial": set(), "unsat_kinds": {}, "denotation_hypotheses_hold": {"strand": 0, "struct": 0}}
    for i, (d, r) in enumerate(zip(docs, impl)):
        stats[d["source"]] += 1
        if not isinstance(r, dict) or "strand" not in r:
            failures["C04"].append({"kind": "disagreement", "key": "impl-run", "summary": "runner failed: %r" % (r,), "replay": {"text": d["text"]}}); continue
        names = ("same_graph", "spec_okb", "dgraph_ok", "place_okb")
        for lname, fl in zip(("strand", "struct"), dres[i] if isinstance(dres[i], list) and len(dres[i]) == 2 else (["?"], ["?"])):
            if isinstance(fl, list) and fl and all(x == "T" for x in fl): stats["denotation_hypotheses_hold"][lname] += 1
            elif fl != []:
                bad = [n for n, x in zip(names, fl) if x != "T"] if isinstance(fl, list) and len(fl) == 4 else ["request"]
                for pid in ("C04", "C15"):
                    failures[pid].append({"kind": "tie", "key": "denote:%s:%s" % (lname, ",".join(bad)), "summary": "hypothesis %s of the denotation theorems (seeded graph = declarative graph of the document / loaded specification well formed / node encoding increasing, links between declared nodes / strand positions where the layout says) fails for this document (%s layout): %r" % (",".join(bad), lname, fl),
                                          "replay": {"files": {"doc.pil": d["text"]}, "layout": lname}})
        for j, lay in enumerate(("strand", "struct")):
            so = lay == "struct"
            m = model_arrays(mres[2 * i + j])
            spec = pepper.spec_arrays(d["lines"], so)
            a = r[lay]
            rep = {"files": {"doc.pil": d["text"]}, "layout": lay,
                   "reproduce": "PYTHONPATH=/repo /venv/bin/python -c \"from peppercompiler.design.constraint_load import Convert; print(Convert('doc.pil', %s).get_constraints())\"" % so}
            got = ("ok", a["eq"], a["wc"], a["st"]) if a["outcome"] == "ok" else ("rejected", a.get("error", ""))
            if lay == "strand":
                stats["sat" if spec[0] == "ok" else "unsat" if spec[0] == "unsat" else "illformed"] += 1
                if spec[0] == "unsat": stats["unsat_kinds"][spec[1]] = stats["unsat_kinds"].get(spec[1], 0) + 1
            if spec[0] == "ok":
                if got[0] != "ok":
                    over = "ValueError" in got[1]
                    failures["C15" if over else "C04"].append({"kind": "predicate", "key": "sat-rejected:" + lay, "summary": "a satisfiable document is rejected by get_constraints (%s layout): %s" % (lay, got[1][:120]), "replay": rep})
                elif got != spec:
                    which_arr = [nm for nm, x, y in zip(("eq", "wc", "st"), got[1:], spec[1:]) if x != y]
                    k = which_arr[0]; gi = got[1 + ("eq", "wc", "st").index(k)]; si = spec[1 + ("eq", "wc", "st").index(k)]
                    pos = [p for p in range(min(len(gi), len(si))) if gi[p] != si[p]][:3] if len(gi) == len(si) else "length %d vs %d" % (len(gi), len(si))
                    failures["C04"].append({"kind": "predicate", "key": "arrays-%s:%s" % (k, lay), "summary": "%s array (%s layout) is not the closure of the specification at positions %s" % (k, lay, pos),
                                            "replay": dict(rep, expected=str(spec[1:])[:1500], observed=str(got[1:])[:1500])})
                if any(x is not None for x in spec[2]) or len(set(spec[1])) < len([x for x in spec[1] if x is not None]):
                    stats["nontrivial"].add(d["text"])
            elif spec[0] == "unsat":
                if got[0] == "ok":
                    failures["C15"].append({"kind": "predicate", "key": "unsat-accepted:" + spec[1], "summary": "no assignment satisfies the document (%s) but get_constraints returns arrays (%s layout)" % (spec[1], lay), "replay": rep})
                stats["nontrivial"].add(d["text"])
            mr = mres[2 * i + j]
            if (mr[0] == "ok" and mr[4] != "T") or (mr[0] == "over" and mr[1] != "T"):
                failures["C04"].append({"kind": "tie", "key": "graph-ok", "summary": "hypothesis graph_ok of the theorems (links between initialised nodes, template table keyed by the nodes, templates are codes) fails on the graph the model seeds for this document", "replay": rep})
            # model vs implementation
            mm = m if m[0] == "ok" else ("rejected",)
            gg = got if got[0] == "ok" else ("rejected",)
            if mm != gg:
                failures["C04"].append({"kind": "disagreement", "key": "model:" + lay, "summary": "model and implementation disagree (%s layout): model %s, implementation %s" % (lay, str(m)[:150], str(got)[:150]), "replay": rep})
            elif m[0] == "unsat" and "ValueError" not in got[1]:
                failures["C15"].append({"kind": "disagreement", "key": "model-over:" + lay, "summary": "model reports over-constrained, implementation fails differently: %s" % got[1][:100], "replay": rep})
    return failures, stats

def run(tier, seed, build, pid="C04"):
    rng = random.Random(seed * 733 + 4)
    n = 300 if tier == "quick" else 4000
    docs = gen_docs(rng, n)
    failures, stats = evaluate(docs)
    return {"evaluations": 2 * len(docs), "distinct_nontrivial": len(stats["nontrivial"]),
            "rule": "PIL documents: 40% emitted by the real compiler from generated components, 60% hand-written style (free spacing, comments, structure with/without [..], super-sequence keyword variants, equal lines with stars, strands reused across and inside structures, unused sequences, specific-base templates) x {strand, structure} layout; arrays compared with the model and with the denotation-level parity union-find oracle. Non-trivial = some complement representative or shared equality class",
            "samples": [d["text"] for d in docs[-2:]],
            "distribution": {k: v for k, v in stats.items() if k != "nontrivial"}, "failures": failures[pid]}

def replay(path):
    print("re-run the check; cases are regenerated from the seed"); return 0
