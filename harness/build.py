"""Build step shared by every check: regenerate the source-derived Coq files from
/repo's working tree, build all model/proof .vo files (full build, no -vos), extract,
and build the OCaml driver.  Serialised with flock so checks may run in parallel."""
import fcntl, glob, hashlib, os, subprocess, sys, time

VERIF = os.path.dirname(os.path.dirname(os.path.abspath(__file__)))
REPO = os.environ.get("VERIF_REPO", "/repo")
COQ = os.path.join(VERIF, "coq")
OCAML = os.path.join(VERIF, "ocaml")

def sh(cmd, cwd=None, timeout=1800):
    p = subprocess.run(cmd, shell=True, cwd=cwd, stdout=subprocess.PIPE, stderr=subprocess.STDOUT,
                       timeout=timeout, text=True)
    return p.returncode, p.stdout

def write_if_changed(path, text):
    old = open(path).read() if os.path.exists(path) else None
    if old != text:
        os.makedirs(os.path.dirname(path), exist_ok=True)
        with open(path, "w") as f:
            f.write(text)
        return True
    return False

def generated_files():
    """Run the translators (tie (a)); returns {relpath: {'ok':bool,'msg':str,'sha':..}}"""
    out = {}
    sys.path.insert(0, os.path.dirname(os.path.abspath(__file__)))
    import translate_tables, translate_footprint
    for mod, rel in ((translate_tables, "Base/TablesGen.v"), (translate_footprint, "Conc/FootprintGen.v")):
        try:
            text = mod.translate(REPO)
            ok, msg = True, ""
        except Exception as e:  # fail closed: an unrecognised shape is a broken tie
            text = "(* translator failed: %s *)\nDefinition translator_failed : True := I.\n" % str(e).replace("*)", "* )")
            ok, msg = False, "%s: %s" % (type(e).__name__, e)
        write_if_changed(os.path.join(COQ, rel), text)
        out[rel] = {"ok": ok, "msg": msg, "sha256": hashlib.sha256(text.encode()).hexdigest()}
    return out

def vfiles():
    fs = []
    for root, _, names in os.walk(COQ):
        for n in names:
            if n.endswith(".v"):
                rel = os.path.relpath(os.path.join(root, n), COQ)
                if rel.startswith("Props/") or rel.startswith("extracted"):
                    continue
                fs.append(rel)
    return sorted(fs)

def build(verbose=False):
    """Returns dict: ok (driver built), failed (list of .v that did not compile), log, gen."""
    t0 = time.time()
    lock = open(os.path.join(VERIF, ".build.lock"), "w")
    fcntl.flock(lock, fcntl.LOCK_EX)
    try:
        gen = generated_files()
        fs = vfiles()
        write_if_changed(os.path.join(COQ, "_CoqProject"), "-Q . PC\n" + "\n".join(fs) + "\n")
        if (not os.path.exists(os.path.join(COQ, "Makefile"))
                or os.path.getmtime(os.path.join(COQ, "Makefile")) < os.path.getmtime(os.path.join(COQ, "_CoqProject"))):
            rc, log = sh("coq_makefile -f _CoqProject -o Makefile", cwd=COQ)
            if rc != 0:
                return {"ok": False, "failed": ["coq_makefile"], "log": log, "gen": gen, "wall_s": time.time() - t0}
        os.makedirs(os.path.join(COQ, "extracted"), exist_ok=True)
        rc, log = sh("timeout 1500 make -k -j16 2>&1", cwd=COQ, timeout=1600)
        failed = [f for f in fs if not os.path.exists(os.path.join(COQ, f + "o"))
                  or os.path.getmtime(os.path.join(COQ, f + "o")) < os.path.getmtime(os.path.join(COQ, f))]
        # a file whose recompilation failed keeps its old .vo: read make's own report as well
        import re
        for m in re.finditer(r"\*\*\* \[[^\]]*?([A-Za-z0-9_/]+)\.vo\] Error", log):
            f = m.group(1) + ".v"
            if f in fs and f not in failed: failed.append(f)
        drv_ok = False
        ml = os.path.join(COQ, "extracted", "model.ml")
        drv = os.path.join(OCAML, "driver")
        # the driver is only valid if the extraction target itself is up to date w.r.t. everything it depends on
        rc_x, log_x = sh("timeout 600 make Extract.vo 2>&1", cwd=COQ, timeout=700)
        if rc_x != 0:
            log += log_x
            if "Extract.v" not in failed: failed.append("Extract.v")
        if os.path.exists(ml) and "Extract.v" not in failed:
            srcs = [ml, os.path.join(COQ, "extracted", "model.mli"), os.path.join(OCAML, "driver.ml")]
            if (not os.path.exists(drv)) or any(os.path.getmtime(s) > os.path.getmtime(drv) for s in srcs):
                os.makedirs(os.path.join(OCAML, "_build"), exist_ok=True)
                for s in srcs:
                    sh("cp %s %s/" % (s, os.path.join(OCAML, "_build")))
                rc2, log2 = sh("ocamlfind ocamlopt -O2 -w -a -o ../driver model.mli model.ml driver.ml 2>&1 || "
                               "ocamlfind ocamlopt -w -a -o ../driver model.mli model.ml driver.ml 2>&1",
                               cwd=os.path.join(OCAML, "_build"))
                log += log2
                drv_ok = (rc2 == 0)
            else:
                drv_ok = True
        if verbose:
            print(log[-3000:])
        return {"ok": drv_ok, "failed": failed, "log": log, "gen": gen, "wall_s": time.time() - t0}
    finally:
        fcntl.flock(lock, fcntl.LOCK_UN)
        lock.close()

if __name__ == "__main__":
    r = build(verbose="-v" in sys.argv)
    print("build ok=%s failed=%s wall=%.1fs" % (r["ok"], r["failed"], r["wall_s"]))
    for k, v in r["gen"].items():
        print(" gen", k, "ok" if v["ok"] else "FAILED " + v["msg"])
    if not r["ok"] or r["failed"]:
        print(r["log"][-4000:])
        sys.exit(1)
