#!/usr/bin/env python3
"""check.py <Cxx> [--tier quick|thorough] [--replay path]"""
import importlib, os, sys, time
HERE = os.path.dirname(os.path.abspath(__file__))
sys.path.insert(0, HERE)
import framework as fw

def main():
    if len(sys.argv) < 2:
        print(__doc__); sys.exit(2)
    pid = sys.argv[1]
    t0 = time.time()
    mod = importlib.import_module("props." + pid.lower())
    replay = None
    for i, a in enumerate(sys.argv):
        if a == "--replay" and i + 1 < len(sys.argv):
            replay = sys.argv[i + 1]
    b = fw.buildmod.build()
    proof = fw.check_proofs(pid, mod.THEOREMS)
    if replay:
        sys.exit(mod.replay(replay))
    try:
        corr = mod.run(fw.tier(), fw.seed(), b)
    except Exception as e:
        import traceback
        corr = {"evaluations": 0, "distinct_nontrivial": 0, "rule": "", "samples": [],
                "failures": [{"kind": "tie", "key": "harness", "summary": "correspondence run failed: %s: %s" % (type(e).__name__, e),
                              "replay": {"traceback": traceback.format_exc()[-3000:]}}]}
    rc = fw.finish(pid, getattr(mod, "LEVEL", "proof"), mod.THEOREMS, proof, corr, t0, b,
                   extra_trusted=getattr(mod, "TRUSTED", ()), assumptions=getattr(mod, "ASSUMPTIONS", ()))
    sys.exit(rc)

if __name__ == "__main__":
    main()
