"""Translator (tie (a)) : /repo working tree -> coq/Base/TablesGen.v

Reads the nucleotide-code tables and alphabets *from the source text* of the
three Python table modules, the PIL / .mfe / fixed-file readers and
spuriousSSM.c, and emits them as Coq association lists.  Fail-closed: any shape
it does not recognise raises, which the build turns into a file that breaks
Base/Tables.v (a broken tie, reported as such)."""
import ast, os, re

class Unrecognised(Exception):
    pass

def _module(repo, rel):
    path = os.path.join(repo, rel)
    return ast.parse(open(path).read(), path)

def _const(node):
    if isinstance(node, ast.Constant) and isinstance(node.value, str):
        return node.value
    if isinstance(node, ast.BinOp) and isinstance(node.op, ast.Add):
        return _const(node.left) + _const(node.right)
    raise Unrecognised("not a string constant: " + ast.dump(node))

def _dict_literal(mod, name, rel):
    found = [n for n in mod.body if isinstance(n, ast.Assign) and len(n.targets) == 1
             and isinstance(n.targets[0], ast.Name) and n.targets[0].id == name]
    if len(found) != 1:
        raise Unrecognised("%s: expected exactly one module-level assignment of %s" % (rel, name))
    d = found[0].value
    if not isinstance(d, ast.Dict):
        raise Unrecognised("%s: %s is not a dict literal" % (rel, name))
    items = [(_const(k), _const(v)) for k, v in zip(d.keys, d.values)]
    keys = [k for k, _ in items]
    if len(set(keys)) != len(keys):
        raise Unrecognised("%s: duplicate key in %s" % (rel, name))
    for k, _ in items:
        if len(k) != 1:
            raise Unrecognised("%s: key %r of %s is not one character" % (rel, k, name))
    # later re-assignments / mutations of the table anywhere in the module would not be seen
    for n in ast.walk(mod):
        if isinstance(n, (ast.Subscript, ast.Attribute)) and isinstance(getattr(n, "ctx", None), (ast.Store, ast.Del)):
            v = n.value
            if isinstance(v, ast.Name) and v.id == name:
                raise Unrecognised("%s: %s is mutated after its definition" % (rel, name))
        if isinstance(n, ast.Call) and isinstance(n.func, ast.Attribute) and isinstance(n.func.value, ast.Name) \
                and n.func.value.id == name and n.func.attr in ("update", "pop", "setdefault", "clear", "popitem", "__setitem__"):
            raise Unrecognised("%s: %s is mutated by .%s()" % (rel, name, n.func.attr))
    return items

REV_GROUP_SHAPE = "Call(func=Name(id='dict'), args=[ListComp(elt=Tuple(elts=[Name(id='v'), Name(id='k')]), generators=[comprehension(target=Tuple(elts=[Name(id='k'), Name(id='v')]), iter=Call(func=Name(id='list'), args=[Call(func=Attribute(value=Name(id='group'), attr='items'), args=[], keywords=[])], keywords=[]), ifs=[], is_async=0)])], keywords=[])"

def _strip_ctx(s):
    return re.sub(r", ctx=(Load|Store)\(\)", "", s)

def _check_rev_group(mod, rel):
    found = [n for n in mod.body if isinstance(n, ast.Assign) and isinstance(n.targets[0], ast.Name) and n.targets[0].id == "rev_group"]
    if len(found) != 1 or _strip_ctx(ast.dump(found[0].value)) != REV_GROUP_SHAPE:
        raise Unrecognised("%s: rev_group is not the plain inversion of group" % rel)

WC_BODY_SHAPES = {
    "Call(func=Attribute(value=Constant(value=''), attr='join'), args=[GeneratorExp(elt=Subscript(value=Name(id='complement'), slice=Name(id='nt')), generators=[comprehension(target=Name(id='nt'), iter=Call(func=Name(id='reversed'), args=[Name(id='seq')], keywords=[]), ifs=[], is_async=0)])], keywords=[])",
    "Call(func=Attribute(value=Name(id='string'), attr='join'), args=[ListComp(elt=Subscript(value=Name(id='complement'), slice=Name(id='nt')), generators=[comprehension(target=Name(id='nt'), iter=Call(func=Name(id='reversed'), args=[Name(id='seq')], keywords=[]), ifs=[], is_async=0)]), Constant(value='')], keywords=[])",
}

def _check_wc_func(mod, fname, rel):
    found = [n for n in mod.body if isinstance(n, ast.FunctionDef) and n.name == fname]
    if len(found) != 1:
        raise Unrecognised("%s: no function %s" % (rel, fname))
    body = [b for b in found[0].body if not (isinstance(b, ast.Expr) and isinstance(b.value, ast.Constant))]
    if len(body) != 1 or not isinstance(body[0], ast.Return) or _strip_ctx(ast.dump(body[0].value)) not in WC_BODY_SHAPES:
        raise Unrecognised("%s: %s is not 'join(complement[nt] for nt in reversed(seq))'" % (rel, fname))

def _import_source(mod, name, rel):
    src = []
    for n in ast.walk(mod):
        if isinstance(n, ast.ImportFrom):
            for a in n.names:
                if (a.asname or a.name) == name:
                    src.append("." * n.level + (n.module or ""))
                if a.name == "*":
                    src.append("*" + "." * n.level + (n.module or ""))
    return src

def _c_function(text, header):
    i = text.find(header)
    if i < 0:
        raise Unrecognised("spuriousSSM.c: cannot find '%s'" % header)
    j = text.index("{", i)
    depth, k = 0, j
    while True:
        if text[k] == "{": depth += 1
        elif text[k] == "}":
            depth -= 1
            if depth == 0: break
        k += 1
    return text[j:k + 1]

def coq_char(c):
    if c == '"': return '""""%char'
    return '"%s"%%char' % c

def coq_str(s):
    return '"%s"' % s.replace('"', '""')

def coq_assoc_cs(items):
    return "[" + "; ".join("(%s, %s)" % (coq_char(k), coq_str(v)) for k, v in items) + "]"

def coq_assoc_cc(items):
    return "[" + "; ".join("(%s, %s)" % (coq_char(k), coq_char(v)) for k, v in items) + "]"

def read_tables(repo):
    """Everything the translator reads, as a plain dict (also used by the C11 search)."""
    T = {}
    for tag, rel, wcf in (("dna", "peppercompiler/DNA_classes.py", "wc"),
                          ("pil", "peppercompiler/design/PIL_DNA_classes.py", "seq_comp"),
                          ("nupack", "peppercompiler/design/DNA_nupack_classes.py", "seq_comp")):
        mod = _module(repo, rel)
        T["group_" + tag] = _dict_literal(mod, "group", rel)
        T["compl_" + tag] = _dict_literal(mod, "complement", rel)
        _check_rev_group(mod, rel)
        _check_wc_func(mod, wcf, rel)
    # which copy each consumer uses
    cl = _module(repo, "peppercompiler/design/constraint_load.py")
    for nm in ("group", "rev_group", "complement"):
        s = _import_source(cl, nm, "constraint_load.py")
        if s != [".PIL_DNA_classes"]:
            raise Unrecognised("constraint_load.py imports %s from %r" % (nm, s))
    pp = _module(repo, "peppercompiler/design/PIL_parser.py")
    s = _import_source(pp, "group", "PIL_parser.py")
    if s != [".DNA_nupack_classes"]:
        raise Unrecognised("PIL_parser.py imports group from %r" % (s,))
    # PIL parse_seq alphabet test must be 'set(template).issubset(set(group.keys()))'
    ptxt = open(os.path.join(repo, "peppercompiler/design/PIL_parser.py")).read()
    if "if not set(template).issubset( set(group.keys()) ):" not in ptxt:
        raise Unrecognised("PIL_parser.parse_seq: alphabet test not recognised")
    fin = _module(repo, "peppercompiler/finish.py")
    if _import_source(fin, "wc", "finish.py") != [".DNA_classes"]:
        raise Unrecognised("finish.py does not import wc from .DNA_classes")
    # .mfe reader alphabet
    ng = _module(repo, "peppercompiler/nupack_out_grammar.py")
    found = [n for n in ng.body if isinstance(n, ast.Assign) and isinstance(n.targets[0], ast.Name) and n.targets[0].id == "seq"]
    if len(found) != 1 or not (isinstance(found[0].value, ast.Call) and getattr(found[0].value.func, "id", None) == "Word"
                               and len(found[0].value.args) == 1 and not found[0].value.keywords):
        raise Unrecognised("nupack_out_grammar.seq is not Word(<chars>)")
    T["mfe_alphabet"] = _const(found[0].value.args[0])
    # fixed-file alphabet
    ctxt = open(os.path.join(repo, "peppercompiler/compiler.py")).read()
    m = re.search(r'def parse_fixed\(line\):.*?match\(r"([^"]*)", line\)', ctxt, re.S)
    if not m:
        raise Unrecognised("compiler.parse_fixed: regex not found")
    m2 = re.search(r"=\[ \\t\]\*\(\[([A-Z+]+)\]\+\)", m.group(1))
    if not m2:
        raise Unrecognised("compiler.parse_fixed: sequence character class not recognised in %r" % m.group(1))
    T["fixed_alphabet"] = m2.group(1)
    # C side
    c = open(os.path.join(repo, "peppercompiler/SpuriousDesign/spuriousSSM.c")).read()
    body = _c_function(c, "char WC(char c)")
    cases = re.findall(r"case '(.)': return '(.)';", body)
    dflt = re.findall(r"default: return '(.)';", body)
    stripped = re.sub(r"case '.': return '.';|default: return '.';|switch\(c\)|[{}\s]", "", body)
    if stripped or len(dflt) != 1 or len(set(k for k, _ in cases)) != len(cases):
        raise Unrecognised("spuriousSSM.c: WC() has an unexpected shape: %r" % stripped)
    T["c_wc"] = cases
    T["c_wc_default"] = dflt[0]
    m = re.findall(r'char degenerates\[(\d+)\] = "([^"]*)";', c)
    if len(m) != 1:
        raise Unrecognised("spuriousSSM.c: degenerates string not found")
    size, deg = int(m[0][0]), m[0][1]
    if len(deg) + 1 > size:
        raise Unrecognised("spuriousSSM.c: degenerates initialiser (%d chars + NUL) overflows its array of %d" % (len(deg), size))
    toks = deg.split(" ")
    if any(len(t) != 2 for t in toks):
        raise Unrecognised("spuriousSSM.c: degenerates is not a list of 2-letter tokens")
    T["c_degenerates"] = [(t[0], t[1]) for t in toks]
    T["c_degenerates_raw"] = deg
    body = _c_function(c, "char randbasec(char Stc)")
    rb = re.findall(r"case '(.)': choices = \"([^\"]*)\"; break;", body)
    rbd = re.findall(r"default:\s*choices = \"([^\"]*)\";", body)
    stripped = re.sub(r"case '.': choices = \"[^\"]*\"; break;|default:\s*choices = \"[^\"]*\";|char \*choices;|switch\(Stc\)|return choices\[ int_urn\(0,strlen\(choices\)-1\) \];|[{}\s]", "", body)
    if stripped or len(rbd) != 1:
        raise Unrecognised("spuriousSSM.c: randbasec() has an unexpected shape: %r" % stripped)
    T["c_randbase"] = rb
    T["c_randbase_default"] = rbd[0]
    body = _c_function(c, "void load_input_files()")
    idx = re.findall(r'index\("([^"]*)",c\)', body)
    if len(idx) != 2:
        raise Unrecognised("spuriousSSM.c: expected two index(\"...\",c) alphabets in load_input_files, found %d" % len(idx))
    T["c_seq_alphabet"], T["c_template_alphabet"] = idx
    return T

def translate(repo):
    T = read_tables(repo)
    L = []
    L.append("(* GENERATED on every run by harness/translate_tables.py from /repo's working tree. Do not edit. *)")
    L.append("From Coq Require Import List String Ascii.")
    L.append("Import ListNotations.")
    L.append("Local Open Scope string_scope.")
    for tag in ("dna", "pil", "nupack"):
        L.append("Definition py_group_%s : list (ascii * string) := %s." % (tag, coq_assoc_cs(T["group_" + tag])))
        L.append("Definition py_compl_%s : list (ascii * string) := %s." % (tag, coq_assoc_cs(T["compl_" + tag])))
    L.append("Definition mfe_alphabet : string := %s." % coq_str(T["mfe_alphabet"]))
    L.append("Definition fixed_alphabet : string := %s." % coq_str(T["fixed_alphabet"]))
    L.append("Definition c_wc : list (ascii * ascii) := %s." % coq_assoc_cc(T["c_wc"]))
    L.append("Definition c_wc_default : ascii := %s." % coq_char(T["c_wc_default"]))
    L.append("Definition c_degenerates : list (ascii * ascii) := %s." % coq_assoc_cc(T["c_degenerates"]))
    L.append("Definition c_randbase : list (ascii * string) := %s." % coq_assoc_cs(T["c_randbase"]))
    L.append("Definition c_randbase_default : string := %s." % coq_str(T["c_randbase_default"]))
    L.append("Definition c_seq_alphabet : string := %s." % coq_str(T["c_seq_alphabet"]))
    L.append("Definition c_template_alphabet : string := %s." % coq_str(T["c_template_alphabet"]))
    return "\n".join(L) + "\n"

if __name__ == "__main__":
    import sys
    print(translate(sys.argv[1] if len(sys.argv) > 1 else "/repo"))
