"""S-expression text format shared with ocaml/driver.ml: atoms are always quoted."""
def dumps(x):
    if isinstance(x, bool):
        return '"T"' if x else '"F"'
    if isinstance(x, int):
        return '"%d"' % x
    if isinstance(x, str):
        return '"' + x.replace("\\", "\\\\").replace('"', '\\"').replace("\n", "\\n").replace("\t", "\\t") + '"'
    if x is None:
        return '"None"'
    return "(" + " ".join(dumps(y) for y in x) + ")"

def some(x):
    return ["Some", x]

def loads(s):
    pos = 0
    n = len(s)
    def item():
        nonlocal pos
        while pos < n and s[pos] in " \t":
            pos += 1
        if s[pos] == "(":
            pos += 1
            out = []
            while True:
                while pos < n and s[pos] in " \t":
                    pos += 1
                if s[pos] == ")":
                    pos += 1
                    return out
                out.append(item())
        assert s[pos] == '"', (s[:80], pos)
        pos += 1
        buf = []
        while s[pos] != '"':
            if s[pos] == "\\":
                c = s[pos + 1]
                buf.append({"n": "\n", "t": "\t"}.get(c, c))
                pos += 2
            else:
                buf.append(s[pos]); pos += 1
        pos += 1
        return "".join(buf)
    r = item()
    return r
