"""Translator (tie (a)) for C20: /repo working tree -> coq/Conc/FootprintGen.v

Walks the ast of the three command-line tools' entry functions and of the repository functions
they call, collects every file effect (open / remove / parseFile / pickle / subprocess / tempfile)
and abstracts each path expression to a symbolic term over the function's parameters.
Fail-closed: an effect or a path expression of a shape it does not recognise raises."""
import ast, os

class Unrecognised(Exception):
    pass

def _src(repo, rel):
    return ast.parse(open(os.path.join(repo, rel)).read(), rel)

def _functions(mod):
    out = {}
    for n in mod.body:
        if isinstance(n, ast.FunctionDef): out[n.name] = n
        if isinstance(n, ast.ClassDef):
            for m in n.body:
                if isinstance(m, ast.FunctionDef): out[n.name + "." + m.name] = m
    return out

# term constructors (python tuples) -> Coq text
def T_arg(s): return ("arg", s)
def T_cat(t, lit): return ("cat", t, lit)
def T_default(a, b): return ("default", a, b)
SOURCES = ("sources",); FRESH = ("fresh",)

def coq_term(t):
    if t[0] == "alt": return "(PAlt %s %s)" % (coq_term(t[1]), coq_term(t[2]))
    if t[0] == "arg": return '(PArg "%s")' % t[1]
    if t[0] == "cat": return '(PCat %s "%s")' % (coq_term(t[1]), t[2])
    if t[0] == "default": return "(PDefault %s %s)" % (coq_term(t[1]), coq_term(t[2]))
    if t[0] == "sources": return "PSources"
    if t[0] == "fresh": return "PFresh"
    raise Unrecognised("term " + repr(t))

EFFECT_NAMES = {"open", "remove", "unlink", "rename", "replace", "rmdir", "mkdir", "makedirs", "mkstemp", "mktemp", "NamedTemporaryFile",
                "TemporaryFile", "system", "Popen", "call", "check_call", "check_output", "run", "copy", "copyfile", "move", "rmtree", "fdopen", "parseFile", "dump", "load"}

def call_name(c):
    f = c.func
    if isinstance(f, ast.Name): return f.id
    if isinstance(f, ast.Attribute): return f.attr
    return None

def call_qual(c):
    f = c.func
    if isinstance(f, ast.Name): return f.id
    if isinstance(f, ast.Attribute) and isinstance(f.value, ast.Name): return f.value.id + "." + f.attr
    if isinstance(f, ast.Attribute) and isinstance(f.value, ast.Attribute): return "?." + f.attr
    return None

class Walker:
    """symbolic walk of one function body: env maps local names to path terms"""
    def __init__(self, funcs, rel):
        self.funcs = funcs; self.rel = rel; self.effects = []

    def term(self, e, env):
        if isinstance(e, ast.Name):
            if e.id in env:
                if env[e.id][0] == "unknown": raise Unrecognised("%s: path name %s was reassigned to an expression not recognised" % (self.rel, e.id))
                return env[e.id]
            raise Unrecognised("%s: path expression uses unknown name %s" % (self.rel, e.id))
        if isinstance(e, ast.BinOp) and isinstance(e.op, ast.Add) and isinstance(e.right, ast.Constant) and isinstance(e.right.value, str):
            return T_cat(self.term(e.left, env), e.right.value)
        if isinstance(e, ast.Attribute) and isinstance(e.value, ast.Name) and e.value.id == "options":
            return env.get("options." + e.attr, T_arg("--" + e.attr.replace("_", "-")))
        raise Unrecognised("%s: path expression not recognised: %s" % (self.rel, ast.dump(e)[:120]))

    def walk(self, fname, env, depth=0):
        if depth > 6: raise Unrecognised("call depth")
        fn = self.funcs[fname]
        env = dict(env)
        for st in fn.body:
            self.stmt(st, env, fname, depth)

    def stmt(self, st, env, fname, depth):
        if isinstance(st, ast.Assign) and len(st.targets) == 1:
            tgt = st.targets[0]
            try:
                t = self.term(st.value, env)
            except Unrecognised:
                t = None
            if t is not None:
                if isinstance(tgt, ast.Name):
                    env[tgt.id] = t
                elif isinstance(tgt, ast.Attribute) and isinstance(tgt.value, ast.Name) and tgt.value.id == "options":
                    env["options." + tgt.attr] = t
            else:
                # a tracked path name is given a value of a shape not recognised: any later use of it as a path is unknown
                key = tgt.id if isinstance(tgt, ast.Name) else ("options." + tgt.attr if isinstance(tgt, ast.Attribute) and isinstance(tgt.value, ast.Name) and tgt.value.id == "options" else None)
                if key is not None and key in env and getattr(self, "strict", True):
                    env[key] = ("unknown", key)
            self.expr(st.value, env, fname, depth)
            return
        if isinstance(st, ast.If):
            # pattern: if not NAME: NAME = default     /   if not options.X: options.X = default
            test = st.test
            if isinstance(test, ast.UnaryOp) and isinstance(test.op, ast.Not) and not st.orelse:
                op = test.operand
                key = op.id if isinstance(op, ast.Name) else ("options." + op.attr if isinstance(op, ast.Attribute) and isinstance(op.value, ast.Name) and op.value.id == "options" else None)
                if key is not None:
                    e1 = dict(env)
                    for b in st.body: self.stmt(b, e1, fname, depth)
                    if key in e1 and e1.get(key) != env.get(key):
                        cur = env.get(key, T_arg("--" + key[8:].replace("_", "-")) if key.startswith("options.") else None)
                        if cur is None: raise Unrecognised("default of unknown name " + key)
                        env[key] = T_default(cur, e1[key])
                        for k in e1:
                            if k != key and k not in env: env[k] = e1[k]
                        return
            self.expr(st.test, env, fname, depth)
            # generic: walk both branches with copies, then merge names assigned identically
            e1 = dict(env); e2 = dict(env)
            for b in st.body: self.stmt(b, e1, fname, depth)
            for b in st.orelse: self.stmt(b, e2, fname, depth)
            for k in set(e1) | set(e2):
                if e1.get(k) == e2.get(k): env[k] = e1[k]
                elif k in e1 and k in e2: env[k] = ("alt", e1[k], e2[k])
                else: env[k] = e1.get(k, e2.get(k))
            return
        for child in ast.iter_child_nodes(st):
            if isinstance(child, ast.stmt): self.stmt(child, env, fname, depth)
            elif isinstance(child, ast.expr): self.expr(child, env, fname, depth)
            elif isinstance(child, (ast.ExceptHandler,)):
                for b in child.body: self.stmt(b, env, fname, depth)

    def expr(self, e, env, fname, depth):
        for c in ast.walk(e):
            if isinstance(c, ast.Call):
                self.call(c, env, fname, depth)

    def add(self, mode, t):
        if isinstance(t, tuple) and t and t[0] == "alt":
            self.add(mode, t[1]); self.add(mode, t[2]); return
        if (mode, t) not in self.effects: self.effects.append((mode, t))

    def call(self, c, env, fname, depth):
        q = call_qual(c); n = call_name(c)
        if q == "open":
            mode = c.args[1].value if len(c.args) > 1 and isinstance(c.args[1], ast.Constant) else "r"
            self.add("MW" if ("w" in mode or "a" in mode) else "MR", self.term(c.args[0], env)); return
        if q == "os.remove":
            self.add("MD", self.term(c.args[0], env)); return
        if q in ("os.path.isfile", "os.path.join", "os.path.dirname"): return
        if n == "parseFile":
            self.add("MR", self.term(c.args[0], env)); return
        if q == "pickle.dump" or q == "pickle.load": return          # on a file object obtained from open()
        if q == "subprocess.Popen":
            self.add("MX", T_arg("spuriousbinary")); return
        if q in ("f.close", "f.write", "outfile.write", "outfile.close", "spo.write", "spo.close"): return
        # calls into the repository
        table = {"save": "save", "load": "load", "load_fixed": "load_fixed", "print_list": "print_list", "read_design": "kinetics.read_design"}
        if n in table and (table[n] in self.funcs):
            callee = self.funcs[table[n]]
            params = [a.arg for a in callee.args.args]
            sub = {}
            for p, a in zip(params, c.args):
                try: sub[p] = self.term(a, env)
                except Unrecognised: pass
            w = Walker(self.funcs, self.rel); w.effects = self.effects
            w.walk(table[n], sub, depth + 1); return
        if n == "load_file":
            self.add("MR", SOURCES); return
        if n == "Convert":
            self.add("MR", self.term(c.args[0], env)); return
        if n == "output" and isinstance(c.func, ast.Attribute) and isinstance(c.func.value, ast.Name) and c.func.value.id == "convert":
            self.add("MW", self.term(c.args[0], env)); self.add("MW", FRESH); return      # DNAfold's mkstemp files when findmfe
        if n in EFFECT_NAMES and q not in ("sys.exit",):
            raise Unrecognised("%s: %s(): file effect %s not recognised" % (self.rel, fname, q or n))

def check_no_other_effects(mod, rel, allowed_funcs):
    """functions of the module outside the walked set must not contain file effects"""
    for name, fn in _functions(mod).items():
        if name in allowed_funcs: continue
        for c in ast.walk(fn):
            if isinstance(c, ast.Call):
                q = call_qual(c); n = call_name(c)
                if q in ("open", "os.remove", "os.unlink", "os.rename", "os.replace", "subprocess.Popen", "os.system", "tempfile.mkstemp", "shutil.move", "shutil.copy"):
                    raise Unrecognised("%s: function %s has a file effect (%s) outside the translated set" % (rel, name, q))

def read_footprints(repo):
    comp = _src(repo, "peppercompiler/compiler.py")
    sd = _src(repo, "peppercompiler/design/spurious_design.py")
    fin = _src(repo, "peppercompiler/finish.py")
    kin = _src(repo, "peppercompiler/kinetics.py")
    F = {}
    F.update(_functions(comp))
    fx = {}
    # compiler
    w = Walker(_functions(comp), "compiler.py")
    w.walk("compiler", {k: T_arg(k) for k in ("basename", "outputname", "savename", "fixed_file")})
    fx["compile"] = list(w.effects)
    check_no_other_effects(comp, "compiler.py", {"compiler", "save", "load", "load_fixed", "main", "fix_signal", "parse_fixed"})
    # in the main() functions BASENAME stands for the base name however it is cut out of argv: reassignments keep it
    wm = Walker(_functions(comp), "compiler.py"); wm.strict = False; envm = {"basename": T_arg("BASENAME")}
    main = _functions(comp)["main"]
    for st in main.body: wm.stmt(st, envm, "main", 0)
    cli_compile = {k[8:]: v for k, v in envm.items() if k.startswith("options.")}
    # design
    funcs = dict(_functions(sd)); funcs["kinetics.read_design"] = _functions(kin)["read_design"]
    w = Walker(funcs, "spurious_design.py")
    w.walk("design", {k: T_arg(k) for k in ("basename", "infilename", "outfilename", "tempname", "spuriousbinary")})
    fx["design"] = list(w.effects)
    check_no_other_effects(sd, "spurious_design.py", {"design", "print_list", "main"})
    wm = Walker(funcs, "spurious_design.py"); wm.strict = False; envm = {"basename": T_arg("BASENAME"), "infilename": T_arg("BASENAME")}
    for st in _functions(sd)["main"].body: wm.stmt(st, envm, "main", 0)
    cli_design = {k[8:]: v for k, v in envm.items() if k.startswith("options.")}
    # finish
    funcs = dict(_functions(fin)); funcs["load"] = _functions(comp)["load"]; funcs["kinetics.read_design"] = _functions(kin)["read_design"]
    w = Walker(funcs, "finish.py")
    # only the part of finish() before the optional kinetics runs is walked (run_kin / spurious default off)
    w.walk("finish", {k: T_arg(k) for k in ("savename", "designname", "seqsname", "strandsname")})
    fx["finish"] = list(w.effects)
    check_no_other_effects(fin, "finish.py", {"finish", "main"})
    wm = Walker(funcs, "finish.py"); wm.strict = False; envm = {"basename": T_arg("BASENAME")}
    for st in _functions(fin)["main"].body: wm.stmt(st, envm, "main", 0)
    cli_finish = {k[8:]: v for k, v in envm.items() if k.startswith("options.")}
    return fx, {"compile": cli_compile, "design": cli_design, "finish": cli_finish}

# ---- the rest of the package: every file effect outside the four translated modules, as found on the tree the
# translator was written for.  Anything else (a new effect, one more of a known one) is a shape not recognised.
PACKAGE_EFFECTS = {
    ("DNAfold_Nupack.py", "DNAfold", "subprocess.check_call"): 1, ("DNAfold_Nupack.py", "DNAfold", "os.remove"): 2,
    ("DNAfold_Vienna.py", "DNAfold", "subprocess.check_call"): 1, ("DNAfold_Vienna.py", "DNAfold", "os.remove"): 2,
    ("_spuriousSSM_wrapper.py", "main", "os.system"): 1,
    ("component_parser.py", "load_component", "open"): 1, ("system_parser.py", "load_system", "open"): 1,
    ("design/PIL_parser.py", "load_spec", "open"): 1, ("design/constraint_load.py", "output", "open"): 1,
    ("design/new_loading.py", "load_file", "open"): 1, ("design/random_design.py", "output_sequences", "open"): 1,
    ("multihelp.py", "DNAkinfold", "open"): 2, ("multihelp.py", "DNAkinfold", "subprocess.check_call"): 1, ("multihelp.py", "DNAkinfold", "os.remove"): 1,
    ("multistrand.py", "DNAkinfold", "subprocess.check_call"): 1, ("multistrand.py", "DNAkinfold", "open"): 1, ("multistrand.py", "DNAkinfold", "os.remove"): 3,
    ("new_loading.py", "load_file", "open"): 1, ("utils.py", "mktemp", "tempfile.mkstemp"): 1,
    ("var_substitute.py", "process_filename", "open"): 1, ("var_substitute.py", "substitute", "open"): 1, ("var_substitute.py", "<module>", "open"): 1,
}
_EFFECT_QUALS = {"open", "os.remove", "os.unlink", "os.rename", "os.replace", "os.rmdir", "os.mkdir", "os.makedirs", "os.system", "os.popen", "os.chdir",
                 "subprocess.Popen", "subprocess.call", "subprocess.check_call", "subprocess.check_output", "subprocess.run",
                 "tempfile.mkstemp", "tempfile.mktemp", "tempfile.NamedTemporaryFile", "tempfile.TemporaryFile",
                 "shutil.move", "shutil.copy", "shutil.copyfile", "shutil.rmtree", "io.open", "codecs.open"}
TRANSLATED_MODULES = {"compiler.py", "design/spurious_design.py", "finish.py", "kinetics.py"}

def check_package_effects(repo):
    import glob, warnings
    root = os.path.join(repo, "peppercompiler")
    seen = {}
    for path in sorted(glob.glob(os.path.join(root, "**", "*.py"), recursive=True)):
        rel = os.path.relpath(path, root)
        if rel in TRANSLATED_MODULES: continue
        with warnings.catch_warnings():
            warnings.simplefilter("ignore")
            mod = ast.parse(open(path).read(), rel)
        def scan(node, fname):
            for c in ast.walk(node):
                if isinstance(c, ast.Call) and call_qual(c) in _EFFECT_QUALS:
                    k = (rel, fname, call_qual(c)); seen[k] = seen.get(k, 0) + 1
        for n in ast.walk(mod):
            if isinstance(n, (ast.FunctionDef, ast.AsyncFunctionDef)): scan(n, n.name)
        for st in mod.body:
            if not isinstance(st, (ast.FunctionDef, ast.AsyncFunctionDef, ast.ClassDef)): scan(st, "<module>")
    for k, v in seen.items():
        if v > PACKAGE_EFFECTS.get(k, 0):
            raise Unrecognised("%s: function %s has a file effect (%s) outside the translated set" % k)

def translate(repo):
    check_package_effects(repo)
    fx, cli = read_footprints(repo)
    L = ["(* GENERATED on every run by harness/translate_footprint.py from /repo's working tree. Do not edit. *)",
         "From Coq Require Import List String.", "From PC Require Import Conc.FootprintDefs.", "Import ListNotations.", "Local Open Scope string_scope."]
    for k in ("compile", "design", "finish"):
        L.append("Definition %s_fx : list (mode * pterm) := [%s]." % (k, "; ".join("(%s, %s)" % (m, coq_term(t)) for m, t in fx[k])))
    for k in ("compile", "design", "finish"):
        items = []
        for opt, t in sorted(cli[k].items()):
            items.append('("%s", %s)' % (opt, coq_term(t)))
        L.append("Definition %s_cli : list (string * pterm) := [%s]." % (k, "; ".join(items)))
    return "\n".join(L) + "\n"

if __name__ == "__main__":
    import sys
    print(translate(sys.argv[1] if len(sys.argv) > 1 else "/repo"))
