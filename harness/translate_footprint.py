def translate(repo):
    return "(* placeholder until the C20 translator is written *)\nDefinition footprint_placeholder : True := I.\n"
