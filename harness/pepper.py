"""Shared harness library: generators of component ASTs, printers to .comp text with
randomised spelling, the harness's own reader of .pil files, and spec-level denotations."""
import os, random, re

CODES = "ATCGRYWSMKBVDHN"

# ------------------------------------------------------------------ structures
def random_structure(rng, lens, p_open=None):
    """random balanced multi-strand dot-paren for strands of the given lengths (joined by +)"""
    n = sum(lens)
    s = ["."] * n
    stack = []
    i = 0
    if p_open is None:
        p_open = rng.choice([0.0, 0.2, 0.4])
    opened = []
    for i in range(n):
        r = rng.random()
        if opened and r < 0.3:
            j = opened.pop(); s[j] = "("; s[i] = ")"
        elif r < 0.3 + p_open:
            opened.append(i)
    out = []; k = 0
    for L in lens:
        out.append("".join(s[k:k + L])); k += L
    return "+".join(out)

def dp_to_tree(dp):
    """plain dot-paren -> nested list tree: '+', '.', ['(' , body]"""
    stack = [[]]
    for ch in dp:
        if ch == "(":
            stack.append([])
        elif ch == ")":
            body = stack.pop(); stack[-1].append(["par", body])
        else:
            stack[-1].append(ch)
    assert len(stack) == 1
    return stack[0]

def tree_to_hu(rng, tree):
    """a random HU spelling (AST) of a dot-paren tree: run splitting, U0/H0 insertion, paren merging"""
    out = []
    i = 0
    while i < len(tree):
        t = tree[i]
        if t == "+":
            out.append(["+"]); i += 1
        elif t == ".":
            j = i
            while j < len(tree) and tree[j] == ".":
                j += 1
            run = j - i
            while run > 0:
                k = run if rng.random() < 0.7 else rng.randint(1, run)
                out.append(["U", k]); run -= k
            i = j
        else:
            depth = 1; body = t[1]
            while len(body) == 1 and isinstance(body[0], list) and rng.random() < 0.8:
                depth += 1; body = body[0][1]
            out.append(["H", depth, tree_to_hu(rng, body)]); i += 1
        if rng.random() < 0.07:
            out.append(["U", 0])
        if rng.random() < 0.04:
            out.append(["H", 0, tree_to_hu(rng, [])] if rng.random() < 0.5 else ["H", 0, [["U", 0]]])
    if out and rng.random() < 0.12:
        # H0 around a non-empty slice denotes the slice itself
        i = rng.randrange(len(out)); j = rng.randrange(i, len(out)) + 1
        out = out[:i] + [["H", 0, out[i:j]]] + out[j:]
    return out

def lengthify(r, text):
    """the same component with two of its quoted multipliers written through a `length` variable that is defined right after the
    declare line, re-assigned just before its first use and re-assigned again before its second use (values differ): the
    hand expansion is the original text.  `r` is a generator of its own, so the caller's stream is not disturbed."""
    if "zq" in text: return text
    lines = text.split("\n")
    decl = [i for i, l in enumerate(lines) if re.match(r"\s*declare\b", l)]
    if not decl: return text
    cands = []
    for li, l in enumerate(lines):
        if li <= decl[0] or "#" in l or re.match(r"\s*(length|declare)\b", l): continue
        for q in re.finditer(r'"[^"]*"', l):
            for m in re.finditer(r'(?<![\w<>?])(\d+)([A-Za-z])', q.group(0)):
                cands.append((li, q.start() + m.start(1), q.start() + m.end(1), int(m.group(1))))
    if not cands: return text
    first = r.choice(cands)
    later = [c for c in cands if c[0] > first[0] and c[3] != first[3]]
    picks = [first] + ([r.choice(later)] if later else [])
    off = r.choice([1, 2, 3])
    for (li, a, b, k) in sorted(picks, reverse=True):          # bottom-up: insertions do not move the lines above
        lines[li] = lines[li][:a] + "<zq>" + lines[li][b:]
        lines.insert(li, "length zq = zq - %d" % off if (li, a, b, k) == first else "length zq = zq * 0 + %d" % k)
    lines.insert(decl[0] + 1, "length zq = %d" % (first[3] + off))
    return "\n".join(lines)

def hu_text(rng, hu):
    parts = []
    for t in hu:
        if t[0] == "+":
            parts.append("+")
        elif t[0] == "U":
            parts.append("U%s" % t[1])
        else:
            parts.append("H%s(%s)" % (t[1], hu_text(rng, t[2])))
    sep = rng.choice([" ", " ", "  "])
    return sep.join(parts)

def dp_to_ext(rng, dp, plain=False):
    """run-length spelling (AST: list of [n, sym])"""
    out = []
    i = 0
    while i < len(dp):
        j = i
        while j < len(dp) and dp[j] == dp[i]:
            j += 1
        run = j - i
        if plain or dp[i] == "+":
            out += [[1, dp[i]]] * run
        else:
            while run > 0:
                k = run if rng.random() < 0.7 else rng.randint(1, run)
                out.append([k, dp[i]]); run -= k
        i = j
    return out

def ext_text(rng, ext, plain=False):
    toks = []
    for n, s in ext:
        if n == 1 and (plain or rng.random() < 0.6):
            toks.append(s)
        else:   # the count may be set off from its symbol by any amount of blank space (column-aligned spellings)
            toks.append("%s%s%s" % (n, "" if plain or rng.random() < 0.75 else rng.choice([" ", "  ", " \t", "   "]), s))
    if plain:
        return "".join(toks)
    return "".join(t + (" " if rng.random() < 0.4 else "") for t in toks).strip() or toks and "".join(toks) or ""

def hu_expand(hu):
    s = ""
    for t in hu:
        if t[0] == "+": s += "+"
        elif t[0] == "U": s += "." * t[1]
        else: s += "(" * t[1] + hu_expand(t[2]) + ")" * t[1]
    return s

def balanced(dp):
    d = 0
    for ch in dp:
        if ch == "(": d += 1
        elif ch == ")":
            d -= 1
            if d < 0: return False
    return d == 0

# ------------------------------------------------------------------ component generator
NAME_POOL = ["a", "b", "c", "d", "t", "x", "y", "toe", "dom1", "B2", "s-1", "q_r", "in", "out", "m", "g7", "Hx", "Uy", "N", "S", "5p", "3x_1"]

def parts_len(parts, wild=0):
    return sum(wild if p[0] == "?" else p[0] for p in parts)

def gen_parts(rng, allow_wild, maxn=5):
    k = rng.choice([1, 1, 2, 3])
    parts = []
    for _ in range(k):
        parts.append([rng.choice([0, 1, 1, 2, 3, 4, maxn]), rng.choice(CODES)])
    if allow_wild:
        parts[rng.randrange(len(parts))][0] = "?"
    return parts

class CompGen:
    """Builds a mostly-valid component AST bottom-up, tracking lengths."""
    def __init__(self, rng, name="comp", allow_zero=True, nstmts=None, density=None):
        self.rng = rng; self.name = name
        self.bases = {}; self.sups = {}; self.strands = {}; self.structs = {}
        self.body = []; self.used = set(); self.allow_zero = allow_zero
        self.sup_items = {}   # name -> top-level item lengths (for domain-level structures)
        self.nstmts = nstmts
        self.density = density

    def fresh(self, kind):
        rng = self.rng
        if not hasattr(self, "ns"): self.ns = {"seq": set(), "strand": set(), "struct": set()}
        mine = {"b": "seq", "s": "seq", "T": "strand", "X": "struct"}.get(kind, "seq")
        # sequences, strands and structures are separate name spaces: now and then reuse a name of another
        # kind (a structure and a sequence may not share one: mostly avoided, sometimes tried - must be rejected)
        if rng.random() < 0.1:
            others = [k for k in self.ns if k != mine and not ({k, mine} == {"seq", "struct"} and rng.random() < 0.8)]
            cands = sorted(set().union(*[self.ns[k] for k in others]) - self.ns[mine]) if others else []
            if cands:
                n = rng.choice(cands); self.ns[mine].add(n); return n
        for _ in range(50):
            n = rng.choice(NAME_POOL) + (str(rng.randrange(10)) if rng.random() < 0.5 else "")
            if n not in self.used:
                self.used.add(n); self.ns[mine].add(n); return n
        n = "%s%d" % (kind, len(self.used)); self.used.add(n); self.ns[mine].add(n); return n

    def seqlen(self, n):
        return self.bases[n] if n in self.bases else self.sups[n]

    def add_base(self):
        rng = self.rng
        n = self.fresh("b")
        wild = rng.random() < 0.25
        parts = gen_parts(rng, wild)
        if not self.allow_zero:
            for p in parts:
                if p[0] == 0: p[0] = 2
        if wild:
            w = rng.choice([0, 1, 2, 5]) if self.allow_zero else rng.choice([1, 2, 5])
            L = parts_len(parts, w); decl = L
        else:
            L = parts_len(parts); decl = L if rng.random() < 0.3 else None
        if L == 0 and not self.allow_zero:
            parts[0][0] = 3 if parts[0][0] != "?" else "?"; L = parts_len(parts, 3 if wild else 0); decl = L if (wild or decl is not None) else None
        self.body.append(["seq", n, [["nuc", parts]], ["Some", decl] if decl is not None else None])
        self.bases[n] = L
        return n

    def gen_items(self, allow_wild_region=True):
        """returns (items, top-level item lengths or None when unknown (wild), total len without wild, wild index)"""
        rng = self.rng
        k = rng.choice([1, 2, 2, 3, 4])
        items = []; lens = []
        names = list(self.bases) + list(self.sups)
        wild_at = None
        for i in range(k):
            r = rng.random()
            if names and r < 0.6:
                n = rng.choice(names); star = rng.random() < 0.4
                items.append(["ref", n, star]); lens.append([self.seqlen(n)])
            elif self.sups and r < 0.75:
                n = rng.choice(list(self.sups)); star = rng.random() < 0.4
                items.append(["dom", n, star])
                sub = list(self.sup_items[n]); lens.append(sub[::-1] if star else sub)
            else:
                if allow_wild_region and wild_at is None and rng.random() < 0.3:
                    parts = gen_parts(rng, True); items.append(["nuc", parts]); lens.append(None); wild_at = i
                else:
                    parts = gen_parts(rng, False); items.append(["nuc", parts]); lens.append([parts_len(parts)])
        return items, lens, wild_at

    def finish_items(self, items, lens, wild_at, force_len_positive):
        rng = self.rng
        decl = None
        if wild_at is not None:
            parts = items[wild_at][1]
            w = rng.choice([0, 1, 3])
            wl = parts_len(parts, w)
            lens[wild_at] = [wl]
            total = sum(sum(l) for l in lens)
            decl = total
        else:
            total = sum(sum(l) for l in lens)
            if rng.random() < 0.3:
                decl = total
        flat = [x for l in lens for x in l]
        return decl, total, flat

    def add_sup(self):
        items, lens, wild_at = self.gen_items()
        if len(items) == 1 and items[0][0] == "nuc":
            items.append(["nuc", gen_parts(self.rng, False)]); lens.append([parts_len(items[-1][1])])
        decl, total, flat = self.finish_items(items, lens, wild_at, False)
        n = self.fresh("s")
        self.body.append(["seq", n, items, ["Some", decl] if decl is not None else None])
        self.sups[n] = total; self.sup_items[n] = flat
        return n

    def add_strand(self):
        rng = self.rng
        for _ in range(10):
            items, lens, wild_at = self.gen_items()
            decl, total, flat = self.finish_items(items, lens, wild_at, True)
            if total > 0:
                break
        else:
            items = [["nuc", [[4, "N"]]]]; decl = None; total = 4; flat = [4]
        n = self.fresh("T")
        dummy = rng.random() < 0.15
        self.body.append(["strand", dummy, n, items, ["Some", decl] if decl is not None else None])
        self.strands[n] = (total, flat)
        return n

    def add_struct(self):
        rng = self.rng
        if not self.strands: return None
        k = rng.choice([1, 1, 2, 3])
        names = [rng.choice(list(self.strands)) for _ in range(k)]
        lens = [self.strands[s][0] for s in names]
        n = self.fresh("X")
        opt = rng.choice([1, 1, 0, 3, 12])
        mode = rng.choice(["plain", "ext", "hu", "domain"])
        if mode == "domain":
            doms = [self.strands[s][1] for s in names]
            flat = [(si, di, L) for si, ds in enumerate(doms) for di, L in enumerate(ds)]
            syms = {}
            opened = []
            for idx, (si, di, L) in enumerate(flat):
                r = rng.random()
                cands = [o for o in opened if flat[o][2] == L]
                if cands and r < 0.4 and cands[-1] == opened[-1]:
                    o = opened.pop(); syms[o] = "("; syms[idx] = ")"
                elif r < 0.6:
                    opened.append(idx)
            dl = "+".join("".join(syms.get(i, ".") for i, f in enumerate(flat) if f[0] == si) for si in range(len(doms)))
            # unmatched "opened" stay dots
            ext = dp_to_ext(rng, dl, plain=rng.random() < 0.5)
            self.body.append(["struct", opt, n, names, True, ["ext", ext]])
            full = "+".join("".join(syms.get(i, ".") * f[2] for i, f in enumerate(flat) if f[0] == si) for si in range(len(doms)))
            self.structs[n] = full
            return n
        dp = random_structure(rng, lens, p_open=self.density)
        if mode == "hu":
            note = ["hu", tree_to_hu(rng, dp_to_tree(dp))]
        else:
            note = ["ext", dp_to_ext(rng, dp, plain=(mode == "plain"))]
        self.body.append(["struct", opt, n, names, False, note])
        self.structs[n] = dp
        return n

    def add_kin(self):
        rng = self.rng
        if not self.structs: return
        ins = [rng.choice(list(self.structs)) for _ in range(rng.choice([1, 2]))]
        outs = [rng.choice(list(self.structs)) for _ in range(rng.choice([1, 2]))]
        r = rng.random()
        lo = str(rng.choice([5, 100, "2.5", "1e3"])) if r < 0.3 else None
        self.body.append(["kin", ["Some", lo] if lo else None, None, ins, outs])

    def build(self):
        rng = self.rng
        n = self.nstmts or rng.choice([3, 5, 8, 12, 18])
        for _ in range(rng.choice([1, 2, 3])):
            self.add_base()
        for _ in range(n):
            r = rng.random()
            if r < 0.25: self.add_base()
            elif r < 0.5: self.add_sup()
            elif r < 0.75: self.add_strand()
            elif r < 0.93: self.add_struct()
            else: self.add_kin()
        if not self.strands:
            self.add_strand()
        if not self.structs:
            self.add_struct()
        seqs = list(self.bases) + list(self.sups)
        def port():
            s = rng.choice(seqs)
            st = rng.choice(list(self.structs)) if self.structs and rng.random() < 0.4 else None
            return [s, rng.random() < 0.3, ["Some", st] if st else None]
        ins = [port() for _ in range(rng.choice([0, 1, 2]))]
        outs = [port() for _ in range(rng.choice([0, 1, 2]))]
        return {"decl": [self.name, ins, outs], "body": self.body}

# ------------------------------------------------------------------ printer (.comp text)
def sp(rng):
    return rng.choice([" ", " ", " ", "  ", "\t"])

def parts_text(rng, parts):
    out = ""
    for n, c in parts:
        gap = rng.choice(["", "", "", "", "", " ", "\t"])     # blanks inside the quotes are ignored, also between a multiplier and its code
        if n == "?": tok = "?" + gap + c
        elif n == 1 and rng.random() < 0.5: tok = c
        else: tok = "%s%s%s" % (n, gap, c)
        out += tok + (" " if rng.random() < 0.5 else "")
        if n != "?" and tok == c and out.rstrip() != out:
            pass
    # a bare letter directly followed by a letter token merges fine ("NS" = 1N 1S); but a bare letter
    # followed by a number token without space ("N3S") is also fine ([1,N],[3,S]).
    return '"' + out.strip() + '"'

def item_text(rng, it):
    if it[0] == "nuc": return parts_text(rng, it[1])
    if it[0] == "ref": return it[1] + ("*" if it[2] else "")
    return "domains(%s%s)" % (it[1], "*" if it[2] else "")

def note_text(rng, note):
    if note[0] == "hu":
        t = hu_text(rng, note[1])
        return t
    plain = all(n == 1 for n, s in note[1])
    return ext_text(rng, note[1], plain=plain and rng.random() < 0.5)

def stmt_text(rng, st):
    k = st[0]
    if k == "seq":
        s = "sequence" + sp(rng) + st[1] + sp(rng) + "=" + sp(rng) + sp(rng).join(item_text(rng, i) for i in st[2])
        if st[3]: s += sp(rng) + ":" + sp(rng) + str(st[3][1])
        return s
    if k == "strand":
        s = "strand" + sp(rng) + ("[dummy]" + sp(rng) if st[1] else "") + st[2] + sp(rng) + "=" + sp(rng) + sp(rng).join(item_text(rng, i) for i in st[3])
        if st[4]: s += sp(rng) + ":" + sp(rng) + str(st[4][1])
        return s
    if k == "struct":
        opt = st[1]
        o = "" if opt == 1 and rng.random() < 0.7 else (rng.choice(["[no-opt]", "[0nt]"]) if opt == 0 else "[%dnt]" % opt)     # [0nt] is the explicit spelling of no-opt
        s = "structure" + (sp(rng) + o if o else "") + sp(rng) + st[2] + sp(rng) + "=" + sp(rng) + (sp(rng) + "+" + sp(rng)).join(st[3]) \
            + sp(rng) + ":" + (sp(rng) + "domain" if st[4] else "") + sp(rng) + note_text(rng, st[5])
        return s
    if k == "kin":
        par = ""
        if st[1]: par = "[k > %s /M/s]" % st[1][1] + sp(rng)
        return "kinetic" + sp(rng) + par + (sp(rng) + "+" + sp(rng)).join(st[3]) + sp(rng) + "->" + sp(rng) + (sp(rng) + "+" + sp(rng)).join(st[4])
    raise ValueError(k)

def port_text(p):
    return p[0] + ("*" if p[1] else "") + ("(%s)" % p[2][1] if p[2] else "")

def comp_text(rng, prog, params=None):
    d = prog["decl"]
    head = "declare component %s%s: %s -> %s" % (d[0], "(%s)" % ", ".join(params) if params else "",
                                                 " + ".join(port_text(p) for p in d[1]), " + ".join(port_text(p) for p in d[2]))
    lines = [head]
    for st in prog["body"]:
        if rng.random() < 0.1:
            lines.append("# a comment " + rng.choice(["", "sequence zz = \"5N\"", "<3+4>"]))
        if rng.random() < 0.05:
            lines.append("")
        t = stmt_text(rng, st)
        if rng.random() < 0.08:
            t += "  # trailing comment"
        lines.append(t)
    return "\n".join(lines) + ("\n" if rng.random() < 0.9 else "")

# ------------------------------------------------------------------ the harness's own .pil reader
def read_pil(text):
    """-> list of canonical lines (the encoding Run/RComp.v emits), or raises ValueError"""
    out = []
    for raw in text.split("\n"):
        line = raw.split("#", 1)[0].strip()
        if not line:
            continue
        cmd = line.split()[0]
        def items(s):
            return [[t[:-1], True] if t.endswith("*") else [t, False] for t in s.split()]
        if cmd == "sequence":
            m = re.match(r"sequence\s+(\S+)\s*=\s*(\S*)\s*:\s*(\d+)\s*$", line)
            if not m: raise ValueError(line)
            out.append(["sequence", m.group(1), m.group(2), int(m.group(3))])
        elif cmd in ("sup-sequence", "super-sequence"):
            m = re.match(r"\S+\s+(\S+)\s*=\s*([^:]*):\s*(\d+)\s*$", line)
            if not m: raise ValueError(line)
            out.append(["sup-sequence", m.group(1), items(m.group(2)), int(m.group(3))])
        elif cmd == "strand":
            m = re.match(r"strand\s+(\[dummy\]\s+)?(\S+)\s*=\s*([^:]*):\s*(\d+)\s*$", line)
            if not m: raise ValueError(line)
            out.append(["strand", bool(m.group(1)), m.group(2), items(m.group(3)), int(m.group(4))])
        elif cmd == "structure":
            m = re.match(r"structure\s+\[(\d+)nt\]\s+(\S+)\s*=\s*([^:]*):\s*(\S*)\s*$", line)
            if not m: raise ValueError(line)
            out.append(["structure", int(m.group(1)), m.group(2), [s.strip() for s in m.group(3).split("+")], m.group(4)])
        elif cmd == "kinetic":
            m = re.match(r"kinetic\s+\[(\S+) /M/s < k < (\S+) /M/s\]\s+(.*?)\s*->\s*(.*)$", line)
            if not m: raise ValueError(line)
            side = lambda t: [] if not t.strip() else [s.strip() for s in t.split("+")]     # a reaction may have no reactants / products
            out.append(["kinetic", float(m.group(1)), float(m.group(2)), side(m.group(3)), side(m.group(4))])
        elif cmd == "equal":
            out.append(["equal", items(line[len("equal"):])])
        else:
            raise ValueError(line)
    return out

def canon_model_lines(lines):
    """model output (sexp lists of strings) -> same canonical form as read_pil"""
    out = []
    def its(l): return [[n, b == "T"] for n, b in l]
    def opt(x): return None if x == "None" else x[1]
    for l in lines:
        k = l[0]
        if k == "sequence": out.append(["sequence", l[1], l[2], int(l[3])])
        elif k == "sup-sequence": out.append(["sup-sequence", l[1], its(l[2]), int(l[3])])
        elif k == "strand": out.append(["strand", l[1] == "T", l[2], its(l[3]), int(l[4])])
        elif k == "structure": out.append(["structure", int(l[1]), l[2], list(l[3]), l[4]])
        elif k == "kinetic":
            lo, hi = opt(l[1]), opt(l[2])
            out.append(["kinetic", float(lo) if lo else 0.0, float(hi) if hi else float("inf"), list(l[3]), list(l[4])])
        elif k == "equal": out.append(["equal", its(l[1])])
    return out

# ------------------------------------------------------------------ spec-level denotations
def flip(nts): return [(d, i, not r) for (d, i, r) in reversed(nts)]

def den_pil(lines):
    """canonical lines -> dict(domains{name:const}, named{name:[nt]}, strands{name:(dummy,[nt])}, structs[(opt,name,strands,dp)], kins, equals)
    raises ValueError when a reference does not resolve to a unique earlier definition or a length is inconsistent"""
    doms = {}; env = {}; strands = {}; structs = []; kins = []; equals = []; order = []
    def res(items):
        out = []
        for n, star in items:
            if n not in env: raise ValueError("undefined reference %s" % n)
            out += flip(env[n]) if star else env[n]
        return out
    for l in lines:
        k = l[0]
        if k == "sequence":
            if l[1] in env: raise ValueError("duplicate definition %s" % l[1])
            if len(l[2]) != l[3]: raise ValueError("length of %s" % l[1])
            doms[l[1]] = l[2]; env[l[1]] = [(l[1], i, False) for i in range(l[3])]; order.append(l[1])
        elif k == "sup-sequence":
            if l[1] in env: raise ValueError("duplicate definition %s" % l[1])
            v = res(l[2])
            if len(v) != l[3]: raise ValueError("length of %s" % l[1])
            env[l[1]] = v; order.append(l[1])
        elif k == "strand":
            if l[2] in strands: raise ValueError("duplicate strand %s" % l[2])
            v = res(l[3])
            if len(v) != l[4]: raise ValueError("length of strand %s: %d != %d" % (l[2], len(v), l[4]))
            strands[l[2]] = (l[1], v)
        elif k == "structure":
            segs = l[4].split("+")
            if any(s not in strands for s in l[3]): raise ValueError("undefined strand in %s" % l[2])
            if len(segs) != len(l[3]) or any(len(sg) != len(strands[s][1]) for sg, s in zip(segs, l[3])):
                raise ValueError("structure %s does not fit its strands" % l[2])
            if not balanced(l[4]): raise ValueError("structure %s unbalanced" % l[2])
            if any(x[1] == l[2] for x in structs): raise ValueError("duplicate structure %s" % l[2])
            structs.append((l[1], l[2], tuple(l[3]), l[4]))
        elif k == "kinetic":
            if any(s not in [x[1] for x in structs] for s in l[3] + l[4]): raise ValueError("undefined structure in kinetic")
            kins.append((l[1], l[2], tuple(l[3]), tuple(l[4])))
        elif k == "equal":
            equals.append([flip(env[n]) if st else env[n] for n, st in l[1]])
    return {"doms": doms, "named": {n: env[n] for n in order}, "strands": strands, "structs": structs, "kins": kins, "equals": equals}

def den_src(prog, prefix="", anon_start=0):
    """Specification: the design a component AST describes, by structural recursion.
    Returns the same shape as den_pil, or None when the program is ill-formed (rejection expected).
    Anonymous regions are numbered in creation order (non-wild first, wild last per statement)."""
    doms = {}; env = {}; kind = {}; tops = {}; strands = {}; structs = []; kins = []; named = {}
    ctr = [anon_start]
    class Bad(Exception): pass
    def parts_const(parts, w):
        return "".join(c * (w if n == "?" else n) for n, c in parts)
    def new_anon(const):
        nm = prefix + "_Anon%d" % ctr[0]; ctr[0] += 1
        doms[nm] = const
        v = [(nm, i, False) for i in range(len(const))]
        if v: named[nm] = v
        return v
    def build(items, decl):
        pieces = []   # list of (flat, toplens) or ("wild", parts)
        wild = None
        for it in items:
            if it[0] == "ref":
                if it[1] not in env: raise Bad()
                v = env[it[1]]; pieces.append((flip(v) if it[2] else v, [len(v)]))
            elif it[0] == "dom":
                if kind.get(it[1]) != "sup": raise Bad()
                v = env[it[1]]; t = tops[it[1]]
                pieces.append((flip(v), t[::-1]) if it[2] else (v, t))
            else:
                parts = it[1]
                nw = sum(1 for p in parts if p[0] == "?")
                if nw > 1: raise Bad()
                if nw == 1:
                    if wild is not None: raise Bad()
                    wild = len(pieces); pieces.append(("wild", parts))
                else:
                    v = new_anon(parts_const(parts, 0)); pieces.append((v, [len(v)]))
        total = sum(len(p[0]) for p in pieces if p[0] != "wild")
        if wild is not None:
            if decl is None or decl < total: raise Bad()
            parts = pieces[wild][1]
            rem = decl - total
            fixed = sum(n for n, c in parts if n != "?")
            if rem < fixed: raise Bad()
            v = new_anon(parts_const(parts, rem - fixed)); pieces[wild] = (v, [len(v)])
        flat = [x for p in pieces for x in p[0]]
        if decl is not None and decl != len(flat): raise Bad()
        return flat, [x for p in pieces for x in p[1]]
    try:
        for st in prog["body"]:
            if st[0] == "seq":
                name, items, decl = st[1], st[2], (st[3][1] if st[3] else None)
                if name in env: raise Bad()
                if name in [x[1] for x in structs]: raise Bad()      # a sequence may not take the name of a structure
                if len(items) == 1 and items[0][0] == "nuc":
                    parts = items[0][1]
                    nw = sum(1 for p in parts if p[0] == "?")
                    fixed = sum(n for n, c in parts if n != "?")
                    if nw > 1 or (nw == 1 and (decl is None or decl < fixed)) or (nw == 0 and decl is not None and decl != fixed): raise Bad()
                    const = parts_const(parts, (decl - fixed) if nw else 0)
                    doms[prefix + name] = const
                    env[name] = [(prefix + name, i, False) for i in range(len(const))]; kind[name] = "base"
                else:
                    flat, t = build(items, decl)
                    env[name] = flat; kind[name] = "sup"; tops[name] = t
                named[prefix + name] = env[name]
            elif st[0] == "strand":
                dummy, name, items, decl = st[1], st[2], st[3], (st[4][1] if st[4] else None)
                if name in strands: raise Bad()
                flat, t = build(items, decl)
                if not flat: raise Bad()
                strands[name] = (dummy, flat, t)
            elif st[0] == "struct":
                opt, name, names, domain, note = st[1:6]
                if name in [x[1] for x in structs]: raise Bad()
                if name in env or name.startswith("_Anon"): raise Bad()   # nor a structure the name of a sequence / a reserved name
                if any(n not in strands for n in names): raise Bad()
                s = hu_expand(note[1]) if note[0] == "hu" else "".join(sym * n for n, sym in note[1])
                if note[0] == "ext" and not balanced(s): raise Bad()
                if domain:
                    segs = s.split("+")
                    if len(segs) != len(names): raise Bad()
                    full = []
                    for sg, n in zip(segs, names):
                        t = strands[n][2]
                        if len(sg) != len(t): raise Bad()
                        full.append("".join(ch * L for ch, L in zip(sg, t)))
                    s = "+".join(full)
                    if not balanced(s): raise Bad()
                segs = s.split("+")
                if len(segs) != len(names) or any(len(sg) != len(strands[n][1]) for sg, n in zip(segs, names)): raise Bad()
                structs.append((opt, name, tuple(names), s))
            elif st[0] == "kin":
                if any(n not in [x[1] for x in structs] for n in st[3] + st[4]): raise Bad()
                lo = float(st[1][1]) if st[1] else 0.0
                kins.append((lo, float("inf"), tuple(prefix + n for n in st[3]), tuple(prefix + n for n in st[4])))
        d = prog["decl"]
        for p in d[1] + d[2]:
            if p[0] not in env: raise Bad()
            if p[2] and p[2][1] not in [x[1] for x in structs]: raise Bad()
    except Bad:
        return None
    return {"doms": {k: v for k, v in doms.items() if v != ""},
            "named": {k: v for k, v in named.items() if v},
            "strands": {prefix + k: (v[0], v[1]) for k, v in strands.items()},
            "structs": [(o, prefix + n, tuple(prefix + x for x in ns), s) for (o, n, ns, s) in structs],
            "kins": kins, "equals": [], "anon_end": ctr[0],
            "zero": sorted(k for k, v in named.items() if not v and not k.startswith(prefix + "_Anon"))}

# ------------------------------------------------------------------ PIL documents (designer side)
GROUPS = {"A": "A", "T": "T", "C": "C", "G": "G", "R": "AG", "Y": "CT", "W": "AT", "S": "CG", "M": "AC", "K": "GT",
          "B": "CGT", "V": "ACG", "D": "AGT", "H": "ACT", "N": "ACGT"}
REV_GROUPS = {v: k for k, v in GROUPS.items()}
BCOMPL = {"A": "T", "T": "A", "C": "G", "G": "C"}

class ParityUF:
    """union-find with parity and per-class base sets; try_link refuses links that would make the design unsatisfiable"""
    def __init__(self):
        self.parent = {}; self.par = {}; self.bases = {}
    def add(self, x, code):
        self.parent[x] = x; self.par[x] = 0; self.bases[x] = set(GROUPS[code])
    def find(self, x):
        if self.parent[x] == x: return x, 0
        r, q = self.find(self.parent[x])
        self.parent[x] = r; self.par[x] ^= q
        return r, self.par[x]
    def try_link(self, a, b, q):
        ra, qa = self.find(a); rb, qb = self.find(b)
        if ra == rb:
            return (qa ^ qb) == q
        rel = qa ^ qb ^ q      # parity of ra relative to rb
        ga = self.bases[ra] if not rel else set(BCOMPL[x] for x in self.bases[ra])
        g = ga & self.bases[rb]
        if not g: return False
        self.parent[ra] = rb; self.par[ra] = rel; self.bases[rb] = g
        return True

def gen_pil_doc(rng, struct_ok=False, conflicts=True):
    """hand-written style PIL document as canonical lines (same encoding as read_pil)"""
    lines = []
    seqs = {}   # name -> length
    def template(L):
        r = rng.random()
        if r < 0.55: return "N" * L
        if r < 0.75: return "".join(rng.choice("ACGT") if rng.random() < 0.3 else "N" for _ in range(L))
        return "".join(rng.choice(CODES) for _ in range(L))
    nb = rng.choice([1, 2, 3, 4, 6])
    lens_pool = [rng.choice([1, 2, 3, 4, 6]) for _ in range(2)]
    for i in range(nb):
        L = rng.choice(lens_pool + [rng.choice([1, 2, 3, 5, 8])])
        n = "d%d" % i
        lines.append(["sequence", n, template(L), L]); seqs[n] = L
    for i in range(rng.choice([0, 0, 1, 2])):
        items = [[rng.choice(list(seqs)), rng.random() < 0.4] for _ in range(rng.choice([1, 2, 3]))]
        n = "u%d" % i
        L = sum(seqs[x[0]] for x in items)
        lines.append(["sup-sequence", n, items, L]); seqs[n] = L
    strands = {}
    for i in range(rng.choice([1, 2, 3, 4])):
        items = [[rng.choice(list(seqs)), rng.random() < 0.4] for _ in range(rng.choice([1, 2, 3, 4]))]
        n = "s%d" % i
        L = sum(seqs[x[0]] for x in items)
        lines.append(["strand", rng.random() < 0.1, n, items, L]); strands[n] = L
    if rng.random() < 0.12:         # an empty strand (hand-written documents may have one: "strand e =  : 0")
        lines.append(["strand", rng.random() < 0.5, "e0", [], 0]); strands["e0"] = 0
    used = set()
    sparse = rng.choice([0.0, 0.03, 0.03, 0.08, 0.2, 0.4])
    sat_biased = rng.random() < 0.65
    uf = ParityUF(); env = {}; sflat = {}
    for l in lines:
        if l[0] == "sequence":
            env[l[1]] = [(l[1], i, False) for i in range(l[3])]
            for i, c in enumerate(l[2]): uf.add((l[1], i), c)
        elif l[0] == "sup-sequence":
            env[l[1]] = [x for n, st in l[2] for x in (flip(env[n]) if st else env[n])]
        elif l[0] == "strand":
            sflat[l[2]] = [x for n, st in l[3] for x in (flip(env[n]) if st else env[n])]
    ns = rng.choice([1, 1, 2, 3])
    for i in range(ns):
        names = [rng.choice(list(strands)) for _ in range(rng.choice([1, 1, 2, 3]))]
        if all(strands[x] == 0 for x in names):      # a structure needs at least one nucleotide
            names.append(rng.choice([x for x in strands if strands[x] > 0]))
        used.update(names)
        if sat_biased:
            flat = [x for nme in names for x in sflat[nme]]
            sy = ["."] * len(flat); opened = []
            for j in range(len(flat)):
                r = rng.random()
                if opened and r < 0.45:
                    o = opened[-1]
                    a, b = flat[o], flat[j]
                    if uf.try_link(a[:2], b[:2], a[2] ^ b[2] ^ 1):
                        opened.pop(); sy[o] = "("; sy[j] = ")"
                elif r < 0.75:
                    opened.append(j)
            k = 0; segs = []
            for nme in names:
                segs.append("".join(sy[k:k + strands[nme]])); k += strands[nme]
            dp = "+".join(segs)
        else:
            dp = random_structure(rng, [strands[x] for x in names], p_open=sparse)
        sname = "X%d" % i
        taken = {l[2] for l in lines if l[0] == "structure"}
        if rng.random() < 0.2:      # a structure may carry the name of one of its strands (separate namespaces)
            sname = rng.choice(names[1:] or names)
            if sname in taken: sname = "X%d" % i
        lines.append(["structure", rng.choice([1, 0, 5]), sname, names, dp])
    if struct_ok:
        for n in strands:
            if n not in used:
                if strands[n] == 0:       # an empty strand cannot make a structure of its own: it joins the last one
                    last = [l for l in lines if l[0] == "structure"][-1]
                    last[3] = last[3] + [n]; last[4] = last[4] + "+"
                else:
                    lines.append(["structure", 1, "Y" + n, [n], "." * strands[n]])
    for i in range(rng.choice([0, 0, 1, 2])):
        a = rng.choice(list(seqs))
        same = [x for x in seqs if seqs[x] == seqs[a]]
        items = [[a, rng.random() < 0.3]] + [[rng.choice(same), rng.random() < 0.4] for _ in range(rng.choice([1, 1, 2]))]
        if sat_biased:
            v0 = flip(env[items[0][0]]) if items[0][1] else env[items[0][0]]
            keep = [items[0]]
            for it in items[1:]:
                v = flip(env[it[0]]) if it[1] else env[it[0]]
                import copy as _c
                snap = _c.deepcopy((uf.parent, uf.par, uf.bases))
                if all(uf.try_link(x[:2], y[:2], x[2] ^ y[2]) for x, y in zip(v0, v)):
                    keep.append(it)
                else:
                    uf.parent, uf.par, uf.bases = snap
            items = keep
            if len(items) < 2: continue
        lines.append(["equal", items])
    # a chain of equal statements through sequences that are on no strand: `equal t u` BEFORE `equal u a`
    # (the template of t must still reach the strand sequence a; a and c tied through unused ones only)
    if rng.random() < 0.15:
        onstrand = sorted({n for l in lines if l[0] == "strand" for n, _ in l[3] if n in [x[1] for x in lines if x[0] == "sequence"]})
        if onstrand:
            a = rng.choice(onstrand); L = seqs[a]
            tpl = "".join(rng.choice("ACGT") if rng.random() < 0.5 else "N" for _ in range(L))
            nseq = max(i for i, l in enumerate(lines) if l[0] == "sequence") + 1
            new = [["sequence", "zt", tpl, L], ["sequence", "zu", "N" * L, L]]
            for k, l in enumerate(new): lines.insert(nseq + k, l)
            for i, c in enumerate(tpl): uf.add(("zt", i), c)
            for i in range(L): uf.add(("zu", i), "N")
            ok = all(uf.try_link(("zt", i), ("zu", i), 0) and uf.try_link(("zu", i), (a, i), 0) for i in range(L)) if sat_biased else True
            if ok or not sat_biased:
                lines.append(["equal", [["zt", False], ["zu", False]]])
                lines.append(["equal", [["zu", False], [a, False]]])
            else:
                del lines[nseq:nseq + 2]
    if rng.random() < 0.2 and lines:
        st = [l[2] for l in lines if l[0] == "structure"]
        lines.append(["kinetic", 0.0, float("inf"), [rng.choice(st)], [rng.choice(st)]])
    # statements may be interleaved as long as definitions precede uses: keep this order (valid)
    return lines

def pil_text(rng, lines, handwritten=True):
    out = []
    def its(l): return (" " * rng.choice([1, 1, 2])).join(n + ("*" if s else "") for n, s in l)
    for l in lines:
        k = l[0]
        sp = (lambda: rng.choice([" ", " ", "  ", "\t"])) if handwritten else (lambda: " ")
        if k == "sequence":
            out.append("sequence%s%s%s=%s%s%s:%s%d" % (sp(), l[1], sp(), sp(), l[2], sp(), sp(), l[3]))
        elif k == "sup-sequence":
            kw = rng.choice(["sup-sequence", "super-sequence"]) if handwritten else "sup-sequence"
            out.append("%s%s%s%s=%s%s%s:%s%d" % (kw, sp(), l[1], sp(), sp(), its(l[2]), sp(), sp(), l[3]))
        elif k == "strand":
            out.append("strand%s%s%s%s=%s%s%s:%s%d" % (sp(), "[dummy]" + sp() if l[1] else "", l[2], sp(), sp(), its(l[3]), sp(), sp(), l[4]))
        elif k == "structure":
            br = "" if (handwritten and rng.random() < 0.4) else "[%dnt]%s" % (l[1], sp())
            dp = l[4]
            if handwritten and rng.random() < 0.3:
                dp = "".join(ch + (" " if rng.random() < 0.2 else "") for ch in dp).strip() or dp
            out.append("structure%s%s%s%s=%s%s%s:%s%s" % (sp(), br, l[2], sp(), sp(), (sp() + "+" + sp()).join(l[3]), sp(), sp(), dp))
        elif k == "kinetic":
            out.append("kinetic [%f /M/s < k < %f /M/s] %s -> %s" % (l[1], l[2], " + ".join(l[3]), " + ".join(l[4])))
        elif k == "equal":
            out.append("equal%s%s" % (sp(), its(l[1])))
        if handwritten and rng.random() < 0.1:
            out.append("# comment line")
        if handwritten and rng.random() < 0.05:
            out[-1] += "   # trailing"
    return "\n".join(out) + "\n"

def spec_arrays(lines, struct_orient):
    """Specification of the designer arrays, computed from the denotation of the document:
    parity union-find over base nucleotides (no auxiliary nodes).  Returns
    ("ok", eq, wc, st) | ("unsat", why) | ("illformed", why)"""
    doms = {}; env = {}; strands = {}; order = []; structs = []; equals = []
    def res(items):
        out = []
        for n, star in items:
            if n not in env: raise ValueError("undefined " + n)
            out += flip(env[n]) if star else env[n]
        return out
    try:
        for l in lines:
            k = l[0]
            if k == "sequence":
                if l[1] in env: raise ValueError("dup")
                if any(c not in GROUPS for c in l[2]): raise ValueError("alphabet")
                doms[l[1]] = l[2]; env[l[1]] = [(l[1], i, False) for i in range(len(l[2]))]
            elif k == "sup-sequence":
                if l[1] in env: raise ValueError("dup")
                env[l[1]] = res(l[2])
            elif k == "strand":
                if l[2] in strands: raise ValueError("dup strand")
                strands[l[2]] = res(l[3]); order.append(l[2])
            elif k == "structure":
                if any(s not in strands for s in l[3]): raise ValueError("undefined strand")
                segs = l[4].split("+")
                if len(segs) != len(l[3]) or any(len(sg) != len(strands[s]) for sg, s in zip(segs, l[3])): raise ValueError("size")
                if any(x[0] == l[2] for x in structs): raise ValueError("dup struct")
                # bonds (a ')' without '(' is an error; dangling '(' are ignored by the reader)
                st = []; bonds = []; pos = 0
                for ch in l[4]:
                    if ch == "+": continue
                    if ch == "(": st.append(pos)
                    elif ch == ")":
                        if not st: raise ValueError("unmatched")
                        bonds.append((st.pop(), pos))
                    pos += 1
                structs.append((l[2], l[3], bonds))
            elif k == "equal":
                vs = [flip(env[n]) if s else env[n] for n, s in l[1]] if all(n in env for n, s in l[1]) else None
                if vs is None or not vs or any(len(v) != len(vs[0]) for v in vs): raise ValueError("equal")
                equals.append(vs)
    except ValueError as e:
        return ("illformed", str(e))
    # layout
    pos_nt = {}
    if struct_orient:
        p = 0
        for (sn, names, bonds) in structs:
            for s in names:
                for i, nt in enumerate(strands[s]): pos_nt[p + i] = nt
                p += len(strands[s]) + 1
            p += 1
        if any(s not in [x for (_, ns, _) in structs for x in ns] for s in order):
            return ("illformed", "strand in no structure")
    else:
        p = 0
        for s in order:
            for i, nt in enumerate(strands[s]): pos_nt[p + i] = nt
            p += len(strands[s]) + 2
    # parity union-find
    parent = {}; par = {}
    def find(x):
        if x not in parent: parent[x] = x; par[x] = 0
        if parent[x] == x: return x, 0
        r, q = find(parent[x])
        parent[x] = r; par[x] ^= q
        return r, par[x]
    conflict = []
    def link(a, b, q):
        ra, qa = find(a); rb, qb = find(b)
        if ra == rb:
            if qa ^ qb != q: conflict.append((a, b))
        else:
            parent[ra] = rb; par[ra] = qa ^ qb ^ q
    for d, t in doms.items():
        for i in range(len(t)): find((d, i))
    for vs in equals:
        for v in vs[1:]:
            for a, b in zip(vs[0], v): link(a[:2], b[:2], a[2] ^ b[2])
    for (sn, names, bonds) in structs:
        flat = [nt for s in names for nt in strands[s]]
        for x, y in bonds:
            a, b = flat[x], flat[y]; link(a[:2], b[:2], a[2] ^ b[2] ^ 1)
    if conflict:
        return ("unsat", "odd cycle")
    cls = {}
    for d, t in doms.items():
        for i, c in enumerate(t):
            r, q = find((d, i))
            g = set(GROUPS[c]) if not q else set(BCOMPL[b] for b in GROUPS[c])
            cls[r] = cls.get(r, set("ACGT")) & g
    if any(not g for g in cls.values()):
        return ("unsat", "empty template intersection")
    n = max(pos_nt) + 1 if pos_nt else 0
    key = {}
    for p_, (d, i, rv) in pos_nt.items():
        r, q = find((d, i)); key[p_] = (r, q ^ rv)
    first = {}
    for p_ in sorted(pos_nt):
        first.setdefault(key[p_], p_)
    eq = [first[key[i]] if i in pos_nt else None for i in range(n)]
    wc = [first.get((key[i][0], key[i][1] ^ 1)) if i in pos_nt else None for i in range(n)]
    st = []
    for i in range(n):
        if i not in pos_nt: st.append(None); continue
        r, q = key[i]
        g = cls[r] if not q else set(BCOMPL[b] for b in cls[r])
        st.append(REV_GROUPS["".join(sorted(g))])
    return ("ok", eq, wc, st)

# ------------------------------------------------------------------ expressions inside templates
def num_text(rng, n):
    """a number of a template: literal int or ("e", expr)"""
    if isinstance(n, (list, tuple)) and n and n[0] == "e":
        from props import c13
        return "<" + c13.expr_text(rng, n[1]) + ">"
    return str(n)

def eval_num(n, env):
    if isinstance(n, (list, tuple)) and n and n[0] == "e":
        from props import c13
        return c13.eval_ast(n[1], env)
    return n

def instantiate(x, env):
    """replace every ("e", expr) number in an AST by its value"""
    if isinstance(x, (list, tuple)):
        if len(x) == 2 and x[0] == "e" and isinstance(x[1], (list, tuple)):
            return eval_num(x, env)
        return [instantiate(y, env) for y in x]
    if isinstance(x, dict):
        return {k: instantiate(v, env) for k, v in x.items()}
    return x

def sexp_nums(x):
    """AST -> s-expression with ("e" expr) nodes in the model's encoding"""
    from props import c13
    if isinstance(x, (list, tuple)):
        if len(x) == 2 and x[0] == "e" and isinstance(x[1], (list, tuple)):
            return ["e", c13.sexp_expr(x[1])]
        return [sexp_nums(y) for y in x]
    return x

# parameterised component templates (ports: (seq, star, structure?)), lengths as functions of args
def param_templates():
    E = lambda e: ["e", e]
    n = ["v", "n"]; m = ["v", "m"]
    t1 = {"name": "P1", "params": ["n", "m"],
          "prog": {"decl": ["P1", [["a", False, None], ["b", True, None]], [["c", False, ["Some", "S"]]]],
                   "body": [["seq", "a", [["nuc", [[E(n), "N"]]]], None],
                            ["seq", "b", [["nuc", [[E(m), "S"], [1, "A"]]]], ["Some", E(["+", m, ["n", 1]])]],
                            ["seq", "c", [["ref", "a", False], ["nuc", [[2, "H"]]], ["ref", "b", True]], None],
                            ["strand", False, "T", [["ref", "c", False], ["ref", "a", True]], None],
                            ["struct", 1, "S", ["T"], False, ["ext", [[E(["+", ["*", ["n", 2], n], ["+", m, ["n", 3]]]), "."]]]]]},
          "ports": lambda a: [("a", False, a[0]), ("b", True, a[1] + 1), ("c", False, a[0] + 2 + a[1] + 1)], "nin": 2}
    t2 = {"name": "P2", "params": ["n"],
          "prog": {"decl": ["P2", [["x", True, None]], [["x", False, None], ["y", True, None]]],
                   "body": [["seq", "x", [["nuc", [["?", "N"], [1, "T"]]]], ["Some", E(n)]],
                            ["seq", "y", [["ref", "x", True], ["ref", "x", False]], None],
                            ["strand", False, "U1", [["ref", "y", False]], ["Some", E(["*", ["n", 2], n])]],
                            ["struct", 0, "V", ["U1"], False, ["hu", [["H", E(n), [["+"]] if False else []]]]]]},
          "ports": lambda a: [("x", True, a[0]), ("x", False, a[0]), ("y", True, 2 * a[0])], "nin": 1}
    return [t1, t2]

class SysGen:
    """a library of components and systems in a directory tree, a top-level system, and the model's file table"""
    def __init__(self, rng, depth=None):
        self.rng = rng
        self.files = {}       # relative path -> text
        self.entries = []     # model file table
        self.items = {}       # (dir, name) -> item
        self.depth = depth if depth is not None else rng.choice([1, 1, 2, 2, 3])
        self.includes = []
        self.counter = 0

    def new_comp(self, d, name=None):
        rng = self.rng
        self.counter += 1
        if name is None and rng.random() < 0.35:
            t = rng.choice(param_templates())
            name = "%s_%d" % (t["name"], self.counter)
            prog = {"decl": [name] + t["prog"]["decl"][1:], "body": t["prog"]["body"]}
            item = {"kind": "comp", "name": name, "params": t["params"], "prog": prog, "ports_fn": t["ports"], "nin": t["nin"], "dir": d}
        else:
            name = name or "G%d" % self.counter
            for _ in range(20):
                prog = sat_component(rng, name=name, allow_zero=rng.random() < 0.3, nstmts=rng.choice([3, 5, 8]))
                dd = den_src(prog, "", 0)
                ports = prog["decl"][1] + prog["decl"][2]
                lens = [len(dd["named"].get(p[0], [])) for p in ports]
                if ports and all(l > 0 for l in lens): break
            item = {"kind": "comp", "name": name, "params": [], "prog": prog, "nin": len(prog["decl"][1]), "dir": d,
                    "ports_fn": (lambda a, ports=ports, lens=lens: [(p[0], p[1], l) for p, l in zip(ports, lens)])}
        self.put(item)
        return item

    def put(self, item):
        rng = self.rng
        d = item["dir"]
        ext = ".sys" if item["kind"] == "sys" else ".comp"
        path = (d + "/" if d else "") + item["name"] + ext
        if item["kind"] == "comp":
            text = comp_text_tpl(rng, item["prog"], item["params"])
            body = [sexp_nums(item["prog"]["decl"]), sexp_nums(item["prog"]["body"])]
        else:
            text = sys_text(rng, item)
            body = [item["ins"], item["outs"], sexp_nums(item["stmts"])]
        self.files[path] = text
        self.entries.append([path, item["kind"] == "sys", item["params"], body])
        self.items[(d, item["name"])] = item
        item["path"] = path

    def new_sys(self, d, level, top=False):
        rng = self.rng
        self.counter += 1
        name = ("Top%d" if top else "Y%d") % self.counter
        params = ["n"] if rng.random() < 0.4 else []
        ninst = rng.choice([1, 2, 2, 3, 4])
        stmts = []; imports = []; sigs = {}   # signal -> length
        insts = []
        sig_order = []
        for k in range(ninst):
            # choose or create a template
            if level > 1 and rng.random() < 0.45:
                sub_dir = self.place(d)
                t = self.new_sys(sub_dir[0], level - 1)
            else:
                sub_dir = self.place(d)
                # now and then a component gets the base name of a component that lives in another directory (both imported by
                # their bare names, each from its own directory): a lookup must not be shared between importing directories
                reuse = None
                if sub_dir == (d, "") and rng.random() < 0.15:
                    cands = sorted({n for (dd, n), it in self.items.items() if it["kind"] == "comp" and not it["params"] and n.startswith("G")
                                    and dd != d and dd not in ("inc1", "inc2")
                                    and not any(n2 == n and (d2 == d or d2 in ("inc1", "inc2")) for (d2, n2) in self.items)})
                    if cands: reuse = rng.choice(cands)
                t = self.new_comp(sub_dir[0], name=reuse)
            alias = t["name"] if rng.random() < 0.7 else "A%d" % k
            imp_path = sub_dir[1] + t["name"]
            if (imp_path, alias) not in imports and not any(a == alias for _, a in imports):
                imports.append((imp_path, alias))
            else:
                alias = [a for p, a in imports if p == imp_path][0] if any(p == imp_path for p, a in imports) else alias
            # arguments
            args = []; argvals = []
            for p in t["params"]:
                v = rng.choice([1, 2, 3, 4])
                if params and rng.random() < 0.5:
                    args.append(["e", ["+", ["v", "n"], ["n", v - 2]]]); argvals.append(("n", v - 2))
                else:
                    args.append(v); argvals.append(v)
            insts.append({"name": "i%d" % k, "templ": alias, "item": t, "args": args, "argvals": argvals})
        nval = rng.choice([2, 3])
        item = {"kind": "sys", "name": name, "params": params, "dir": d, "nval_default": nval}
        # wiring needs concrete port lengths: evaluate with this system's own parameter value (chosen by the instantiator);
        # ports lengths may depend on n, so signals are only shared between ports whose lengths agree for every n (same expression)
        def ports_of(inst, nv):
            a = [(x[1] + nv if isinstance(x, tuple) else x) for x in inst["argvals"]]
            return inst["item"]["ports_fn"](a), a
        comp_stmts = []
        for inst in insts:
            ports, a = ports_of(inst, nval)
            ports2, _ = ports_of(inst, nval + 1)
            ins = []; outs = []
            for pi, ((pn, pstar, plen), (_, _, plen2)) in enumerate(zip(ports, ports2)):
                cands = [s for s in sig_order if sigs[s] == (plen, plen2)]
                mine = [x[0] for x in ins + outs]
                if rng.random() < 0.9: cands = [s for s in cands if s not in mine]    # rarely bind one signal to two ports of one instance
                if cands and rng.random() < 0.4:
                    s = rng.choice(cands)
                else:
                    s = "w%d" % len(sig_order); sig_order.append(s); sigs[s] = (plen, plen2)
                # a port declared with a star is bound with a star more often: the two stars must cancel, at any depth
                (ins if pi < inst["item"]["nin"] else outs).append([s, rng.random() < (0.6 if pstar else 0.3)])
            comp_stmts.append(["component", inst["name"], inst["templ"], inst["args"], ins, outs])
        item["insts"] = insts
        item["stmts"] = [["import", [[p, ["Some", a] if a != p.split("/")[-1] else None] for p, a in imports]]] + comp_stmts
        chosen = [s for s in sig_order if rng.random() < 0.5]
        k = rng.randrange(len(chosen) + 1)
        item["ins"] = [[s, rng.random() < 0.3] for s in chosen[:k]]
        item["outs"] = [[s, rng.random() < 0.3] for s in chosen[k:]]
        if rng.random() < 0.15 and chosen:      # the same signal exported twice with different stars
            item["outs"].append([chosen[0], not (item["ins"] + item["outs"])[0][1]])
        item["nin"] = len(item["ins"])
        item["sig_lens"] = sigs
        def ports_fn(a, item=item):
            nv = a[0] if item["params"] else item["nval_default"]
            d0 = item["nval_default"]
            return [(s, st, item["sig_lens"][s][0] + (item["sig_lens"][s][1] - item["sig_lens"][s][0]) * (nv - d0)) for s, st in item["ins"] + item["outs"]]
        item["ports_fn"] = ports_fn
        self.put(item)
        return item

    def place(self, d):
        """where a library item goes relative to importer dir d: (directory, import path prefix)"""
        rng = self.rng
        r = rng.random()
        if r < 0.5: return (d, "")
        if r < 0.75:
            sub = rng.choice(["lib", "parts"])
            return ((d + "/" if d else "") + sub, sub + "/")
        inc = rng.choice(["inc1", "inc2"])
        if inc not in self.includes: self.includes.append(inc)
        return (inc, "")

def comp_text_tpl(rng, prog, params):
    """comp_text for ASTs that may contain ("e", expr) numbers"""
    return comp_text(rng, TextNums(rng, prog), params)

def TextNums(rng, x):
    """replace ("e", expr) numbers by objects whose str() is <expr> so the plain printer can be reused"""
    if isinstance(x, (list, tuple)):
        if len(x) == 2 and x[0] == "e" and isinstance(x[1], (list, tuple)):
            return NumExpr(num_text(rng, x))
        return [TextNums(rng, y) for y in x]
    if isinstance(x, dict):
        return {k: TextNums(rng, v) for k, v in x.items()}
    return x

class NumExpr:
    def __init__(self, s): self.s = s
    def __str__(self): return self.s
    def __mod__(self, o): return self.s
    def __eq__(self, o): return False
    def __hash__(self): return hash(self.s)
    def __format__(self, spec): return self.s

def sys_text(rng, item):
    def sl(l): return (" + ").join(s + ("*" if st else "") for s, st in l)
    lines = ["declare system %s%s: %s -> %s" % (item["name"], "(%s)" % ", ".join(item["params"]) if item["params"] else "", sl(item["ins"]), sl(item["outs"]))]
    for st in item["stmts"]:
        if rng.random() < 0.1: lines.append("# comment")
        if st[0] == "import":
            if st[1]:
                lines.append("import " + ", ".join(p + (" as " + a[1] if a else "") for p, a in st[1]))
        else:
            args = ""
            if st[3]:
                args = "(" + ", ".join(num_text(rng, a) for a in st[3]) + ")"
            lines.append("component %s = %s%s: %s -> %s" % (st[1], st[2], args, sl(st[4]), sl(st[5])))
    return "\n".join(lines) + "\n"

def add_decoys(gen, rng):
    """same-named files in directories that must NOT win the lookup (later include directories)"""
    incs = gen.includes
    for (d, name), item in list(gen.items.items()):
        if rng.random() > 0.35: continue
        later = [i for i in incs if i != d] if d not in incs else incs[incs.index(d) + 1:]
        later = [i for i in later if (i, name) not in gen.items]
        if not later:
            if not incs or d in incs: continue
        if not later: continue
        tgt = rng.choice(later)
        if (tgt + "/" + name + ".comp") in gen.files or (tgt + "/" + name + ".sys") in gen.files: continue
        prog = {"decl": [name, [["q", False, None]], [["q", False, None]]],
                "body": [["seq", "q", [["nuc", [[7, "N"]]]], None], ["strand", False, "Tq", [["ref", "q", False]], None],
                         ["struct", 1, "Sq", ["Tq"], False, ["ext", [[7, "."]]]]]}
        gen.put({"kind": "comp", "name": name, "params": [], "prog": prog, "nin": 1, "dir": tgt,
                 "ports_fn": (lambda a: [("q", False, 7), ("q", False, 7)])})
    # decoys in directories that no lookup of that name ever probes (ancestors, siblings, unrelated library
    # directories): an implementation that searches more directories than the importing one and the include list finds them
    def norm(path): return os.path.normpath(path)
    sys_items = [it for it in gen.items.values() if it["kind"] == "sys"]
    alldirs = set(incs)
    for (dd, nm) in gen.items:
        parts = dd.split("/") if dd else []
        for k in range(len(parts) + 1): alldirs.add("/".join(parts[:k]))
    for (d, name), item in list(gen.items.items()):
        if rng.random() > 0.5: continue
        probes = set()
        for S in sys_items:
            for imp in (S["stmts"][0][1] if S["stmts"] and S["stmts"][0][0] == "import" else []):
                pth = imp[0]
                if pth.split("/")[-1] != name: continue
                for base in [S["dir"]] + incs:
                    probes.add(norm((base + "/" if base else "") + pth))
        cands = [t for t in sorted(alldirs) if t != d and norm((t + "/" if t else "") + name) not in probes
                 and not any(((t + "/" if t else "") + name + e) in gen.files for e in (".comp", ".sys"))]
        if not cands: continue
        t = rng.choice(cands)
        ext = rng.choice([".comp", ".sys"])
        path = (t + "/" if t else "") + name + ext
        if ext == ".sys":
            gen.files[path] = "declare system %s: x -> y\n" % name
            gen.entries.append([path, True, [], [[["x", False]], [["y", False]], []]])
        else:
            gen.files[path] = 'declare component %s: q -> q\nsequence q = "7N"\nstrand Tq = q\nstructure Sq = Tq : 7.\n' % name
            gen.entries.append([path, False, [], [sexp_nums([name, [["q", False, None]], [["q", False, None]]]),
                                                  sexp_nums([["seq", "q", [["nuc", [[7, "N"]]]], None], ["strand", False, "Tq", [["ref", "q", False]], None],
                                                             ["struct", 1, "Sq", ["Tq"], False, ["ext", [[7, "."]]]]])]])
    # cross-kind decoys: a same-named file of the OTHER kind in a later search directory must not win either
    # (raw files: they are never read on a correct lookup, so they are not items of the generator)
    sysdirs = {dd for (dd, nm), it in gen.items.items() if it["kind"] == "sys"}     # an importer searches its own directory first
    for (d, name), item in list(gen.items.items()):
        if rng.random() > 0.5 or not incs: continue
        later = [i for i in incs if i != d] if d not in incs else incs[incs.index(d) + 1:]
        later = [i for i in later if (i, name) not in gen.items and i not in sysdirs]
        if not later: continue
        tgt = rng.choice(later)
        other = ".comp" if item["kind"] == "sys" else ".sys"
        path = tgt + "/" + name + other
        if path in gen.files or (tgt + "/" + name + (".sys" if other == ".comp" else ".comp")) in gen.files: continue
        if other == ".sys":
            gen.files[path] = "declare system %s: x -> y\n" % name
            gen.entries.append([path, True, [], [[["x", False]], [["y", False]], []]])
        else:
            gen.files[path] = 'declare component %s: q -> q\nsequence q = "7N"\nstrand Tq = q\nstructure Sq = Tq : 7.\n' % name
            gen.entries.append([path, False, [], [sexp_nums([name, [["q", False, None]], [["q", False, None]]]),
                                                  sexp_nums([["seq", "q", [["nuc", [[7, "N"]]]], None], ["strand", False, "Tq", [["ref", "q", False]], None],
                                                             ["struct", 1, "Sq", ["Tq"], False, ["ext", [[7, "."]]]]])]])

def expected_system_den(gen, top, args, ctr0):
    """Specification of the compiled system: every instance under its own path prefix (den_src of the
    instantiated component), plus one signal sequence and one equality list per signal with the
    orientation rule  signal[*bind] = port-as-declared.  Returns (den, anon counter)."""
    doms = {}; named = {}; strands = {}; structs = []; kins = []; equals = []
    ctr = [ctr0]
    from props import c13
    def resolve(importer_dir, path):
        for d in [importer_dir] + gen.includes:
            full = (d + "/" if d else "") + path
            dd, nm = (full.rsplit("/", 1) if "/" in full else ("", full))
            if (dd, nm) in gen.items: return gen.items[(dd, nm)]
        raise KeyError(path)
    def go(item, a, prefix):
        env = dict(zip(item["params"], a))
        if item["kind"] == "comp":
            prog = instantiate(item["prog"], env)
            d = den_src(prog, prefix, ctr[0])
            if d is None: raise ValueError("ill-formed component " + item["name"])
            ctr[0] = d["anon_end"]
            doms.update(d["doms"]); named.update(d["named"]); strands.update(d["strands"]); structs.extend(d["structs"]); kins.extend(d["kins"])
            ports = []
            env2 = den_env(prog, prefix, d)
            for p in prog["decl"][1] + prog["decl"][2]:
                v = env2[p[0]]
                ports.append(flip(v) if p[1] else v)
            return ports
        # system
        templ = {}
        sig_nts = {}; sig_eq = {}; order = []
        for st in item["stmts"]:
            if st[0] == "import":
                for p, al in st[1]:
                    templ[al[1] if al else p.split("/")[-1]] = p
            else:
                _, iname, tname, targs, ins, outs = st
                sub = resolve(item["dir"], templ[tname])
                vals = [eval_num(x, env) for x in targs]
                if len(vals) != len(sub["params"]): raise ValueError("arity")
                ports = go(sub, vals, prefix + iname + "-")
                if len(ins) != sub["nin"] or len(ins) + len(outs) != len(ports): raise ValueError("port count")
                for (s, star), V in zip(ins + outs, ports):
                    if s not in sig_nts:
                        nm = prefix + s
                        sig_nts[s] = [(nm, i, False) for i in range(len(V))]; sig_eq[s] = []; order.append(s)
                        if len(V) == 0: raise ValueError("dummy signal")
                    if len(V) != len(sig_nts[s]): raise ValueError("signal length")
                    sig_eq[s].append(flip(V) if star else V)
        for s in order:
            nm = prefix + s
            doms[nm] = "N" * len(sig_nts[s]); named[nm] = sig_nts[s]
            equals.append([sig_nts[s]] + sig_eq[s])
        return [flip(sig_nts[s]) if st else sig_nts[s] for s, st in item["ins"] + item["outs"]]
    go(top, args, "")
    return {"doms": doms, "named": named, "strands": strands, "structs": structs, "kins": kins, "equals": equals}, ctr[0]

def den_env(prog, prefix, d):
    """name -> nucleotides for every sequence / super-sequence of an instantiated component (incl. zero-length ones)"""
    env = {}
    for st in prog["body"]:
        if st[0] == "seq":
            env[st[1]] = d["named"].get(prefix + st[1], [])
    return env

def sat_component(rng, name="prog", allow_zero=True, nstmts=None):
    """a generated component whose structures are built so that the whole design stays satisfiable"""
    for _ in range(30):
        g = CompGen(rng, name=name, allow_zero=allow_zero, nstmts=nstmts)
        prog = g.build()
        body = [st for st in prog["body"] if st[0] not in ("struct", "kin")]
        base = {"decl": [prog["decl"][0], [[p[0], p[1], None] for p in prog["decl"][1]], [[p[0], p[1], None] for p in prog["decl"][2]]], "body": body}
        den = den_src(base, "", 0)
        if den is None or not den["strands"]: continue
        uf = ParityUF()
        for d, t in den["doms"].items():
            for i, c in enumerate(t): uf.add((d, i), c)
        names = list(den["strands"])
        structs = []
        for k in range(rng.choice([1, 1, 2, 3])):
            sel = [rng.choice(names) for _ in range(rng.choice([1, 1, 2, 3]))]
            flat = [x for s in sel for x in den["strands"][s][1]]
            sy = ["."] * len(flat); opened = []
            for j in range(len(flat)):
                r = rng.random()
                if opened and r < 0.45:
                    o = opened[-1]; a, b = flat[o], flat[j]
                    if uf.try_link(a[:2], b[:2], a[2] ^ b[2] ^ 1):
                        opened.pop(); sy[o] = "("; sy[j] = ")"
                elif r < 0.75:
                    opened.append(j)
            segs = []; p = 0
            for s in sel:
                L = len(den["strands"][s][1]); segs.append("".join(sy[p:p + L])); p += L
            dp = "+".join(segs)
            mode = rng.choice(["plain", "ext", "hu"])
            note = ["hu", tree_to_hu(rng, dp_to_tree(dp))] if mode == "hu" else ["ext", dp_to_ext(rng, dp, plain=(mode == "plain"))]
            sn = "X%d" % k
            body.append(["struct", rng.choice([1, 1, 0, 4]), sn, sel, False, note]); structs.append(sn)
        if rng.random() < 0.3 and structs:
            body.append(["kin", None, None, [rng.choice(structs)], [rng.choice(structs)]])
        ports = lambda: [[rng.choice(list(den["named"]) or ["x"]), rng.random() < 0.3, ["Some", rng.choice(structs)] if rng.random() < 0.3 else None] for _ in range(rng.choice([0, 1, 2]))]
        seqnames = [st[1] for st in body if st[0] == "seq"]
        def port():
            return [rng.choice(seqnames), rng.random() < 0.3, ["Some", rng.choice(structs)] if rng.random() < 0.3 else None]
        prog2 = {"decl": [name, [port() for _ in range(rng.choice([0, 1, 2]))], [port() for _ in range(rng.choice([0, 1, 2]))]], "body": body}
        if den_src(prog2, "", 0) is not None:
            return prog2
    raise RuntimeError("could not generate a satisfiable component")
