#!/venv/bin/python
"""Runs a history of compilations in ONE fresh process (C16, C18).  Input: JSON on stdin:
 {"repo": path, "jobs": [{"cwd": dir, "base":..., "args": [...], "includes": [...]|null, "synth": bool, "fixed": path|null,
                          "out": path, "save": path, "dump": bool}], ...}
Output: JSON list, one entry per job: outcome, output text, anonymous counter before/after, canonical object dump."""
import contextlib, io, json, os, sys

def dump_graph(system):
    """canonical dump of the object graph: identity classes (not addresses), tables, attributes"""
    from peppercompiler import DNA_classes as D
    ids = {}
    objs = []
    def oid(o):
        if id(o) not in ids:
            ids[id(o)] = len(ids); objs.append(o)
        return ids[id(o)]
    tables = {}
    for t in ("seqs", "base_seqs", "sup_seqs", "strands", "structs"):
        tables[t] = [[n, oid(o)] for n, o in getattr(system, t).items()]
    out = []
    i = 0
    while i < len(objs):
        o = objs[i]; i += 1
        d = {"id": ids[id(o)], "class": type(o).__name__}
        for a in ("name", "full_name", "length", "const", "reversed", "dummy", "opt", "struct"):
            if hasattr(o, a):
                v = getattr(o, a)
                d[a] = v if isinstance(v, (str, int, float, bool, type(None))) else repr(v)
        if hasattr(o, "wc"):
            d["wc"] = oid(o.wc); d["wc_wc_is_self"] = (o.wc.wc is o)
        for a in ("seqs", "base_seqs", "strands"):
            if hasattr(o, a) and isinstance(getattr(o, a), list):
                d[a] = [oid(x) for x in getattr(o, a)]
        out.append(d)
    comps = []
    def walk(s, prefix):
        if hasattr(s, "components"):
            for n, c in s.components.items():
                walk(c, prefix + n + "-")
            comps.append({"system": prefix, "signals": [[k, [[(x[0] if isinstance(x[0], str) else "obj%d" % oid(x[0])), x[1], x[2]] for x in v]] for k, v in s.signals.items()]})
        else:
            comps.append({"component": prefix, "tables": {t: [[n, oid(o)] for n, o in getattr(s, t).items()] for t in ("seqs", "base_seqs", "sup_seqs", "strands", "structs")}})
    walk(system, "")
    return {"tables": tables, "objects": out, "components": comps}

def dump_full(root):
    """generic dump of everything reachable from the system object: every instance attribute of every
    peppercompiler object (whoever attached it), containers in their iteration order, objects by identity
    class; catches any attribute that a save/load round trip loses or changes"""
    ids = {}; order = []
    def is_obj(v):
        return hasattr(v, "__dict__") and type(v).__module__.startswith("peppercompiler") and not isinstance(v, type)
    def oid(o):
        if id(o) not in ids:
            ids[id(o)] = len(ids); order.append(o)
        return ids[id(o)]
    def canon(v, depth=0):
        if v is None or isinstance(v, (bool, int, float, str)): return v
        if depth > 40: return "<deep>"
        if isinstance(v, dict):
            return ["dict:" + type(v).__name__, [[canon(k, depth + 1), canon(x, depth + 1)] for k, x in v.items()]]
        if isinstance(v, (list, tuple)):
            return [type(v).__name__, [canon(x, depth + 1) for x in v]]
        if isinstance(v, (set, frozenset)):
            return ["set", sorted((json.dumps(canon(x, depth + 1), sort_keys=True, default=str) for x in v))]
        if is_obj(v):
            if hasattr(v, "__iter__") and not hasattr(v, "name"):     # ordered_set and friends
                try: return ["iter:" + type(v).__name__, [canon(x, depth + 1) for x in v]]
                except TypeError: pass
            return {"obj": oid(v)}
        if callable(v): return "<callable %s>" % getattr(v, "__name__", type(v).__name__)
        return "<%s>" % type(v).__name__
    oid(root)
    out = []
    i = 0
    while i < len(order):
        o = order[i]; i += 1
        out.append({"id": ids[id(o)], "class": type(o).__name__, "attrs": [[a, canon(x)] for a, x in sorted(vars(o).items())]})
    return out

def main():
    spec = json.load(sys.stdin)
    sys.path.insert(0, spec["repo"])
    import warnings; warnings.simplefilter("ignore")
    from peppercompiler import compiler as C, DNA_classes as D
    captured = {}
    real_save = C.save
    def spy_save(obj, filename):
        captured["obj"] = obj
        return real_save(obj, filename)
    C.save = spy_save
    results = []
    home = os.getcwd()
    for job in spec["jobs"]:
        os.chdir(job["cwd"])
        buf = io.StringIO(); res = {"ctr0": D.AnonymousSequence.num}
        captured.clear()
        try:
            with contextlib.redirect_stdout(buf), contextlib.redirect_stderr(buf):
                if job.get("cli"):
                    # through the command-line entry point (option parsing, defaults, argument evaluation)
                    argv = ["pepper-compiler"] + ([] if job["synth"] else ["--des"]) + ["--output", job["out"], "--save", job["save"]]
                    if job.get("fixed"): argv += ["--fixed", job["fixed"]]
                    for inc in job.get("includes") or []: argv += ["-I", inc]
                    argv += [job["base"]] + [str(a) for a in job["args"]]
                    old_argv = sys.argv
                    sys.argv = argv
                    try: C.main()
                    finally: sys.argv = old_argv
                else:
                    C.compiler(job["base"], list(job["args"]), job["out"], job["save"], job.get("fixed"), job["synth"], job.get("includes"))
            res.update(outcome="ok", text=open(job["out"]).read())
            if job.get("dump") and "obj" in captured:
                res["memory_dump"] = dump_graph(captured["obj"])
                res["memory_dump"]["full"] = dump_full(captured["obj"])
                if job.get("finish_mfe"):
                    from peppercompiler import finish as F, kinetics as K
                    try:
                        with contextlib.redirect_stdout(buf), contextlib.redirect_stderr(buf):
                            seqs = K.read_design(job["finish_mfe"])
                            F.apply_design(captured["obj"], seqs)
                        o = captured["obj"]
                        res["memory_finish"] = {"seqs": [[n, s.seq] for n, s in o.seqs.items()], "strands": [[n, s.seq, bool(s.dummy)] for n, s in o.strands.items()],
                                                "structs": [[n, s.seq] for n, s in o.structs.items()]}
                    except BaseException as e:
                        res["memory_finish"] = {"error": "%s: %s" % (type(e).__name__, e)}
        except SystemExit:
            res.update(outcome="rejected", error="exit " + buf.getvalue()[-200:])
        except BaseException as e:
            res.update(outcome="rejected", error="%s: %s" % (type(e).__name__, str(e)[:200]))
        res["ctr1"] = D.AnonymousSequence.num
        results.append(res)
        os.chdir(home)
    if spec.get("reload"):
        # C16: a FRESH process only reloads: jobs = [] and reload = {"save": path, "mfe": path|null}
        r = spec["reload"]
        from peppercompiler import finish as F, kinetics as K
        o = C.load(r["save"])
        out = {"reloaded_dump": dump_graph(o)}
        out["reloaded_dump"]["full"] = dump_full(o)
        if r.get("mfe"):
            buf = io.StringIO()
            try:
                with contextlib.redirect_stdout(buf), contextlib.redirect_stderr(buf):
                    F.apply_design(o, K.read_design(r["mfe"]))
                out["reloaded_finish"] = {"seqs": [[n, s.seq] for n, s in o.seqs.items()], "strands": [[n, s.seq, bool(s.dummy)] for n, s in o.strands.items()],
                                          "structs": [[n, s.seq] for n, s in o.structs.items()]}
            except BaseException as e:
                out["reloaded_finish"] = {"error": "%s: %s" % (type(e).__name__, e)}
        results.append(out)
    json.dump(results, sys.stdout)

if __name__ == "__main__":
    main()
