#!/usr/bin/env python3
"""seeds.py import            copy finished sub-agent mutants from /tmp/wt/Cxx/_seed/mN to /verif/seeded/Cxx-mN
   seeds.py confirm <name>    confirm in a scratch worktree: patch applies, 33 tests pass, demo fails with / passes without
   seeds.py run <name> [pid]  apply to /repo, run the quick check(s), undo; records result in meta.json"""
import glob, json, os, shutil, subprocess, sys, time
VERIF = os.path.dirname(os.path.dirname(os.path.abspath(__file__)))
SEEDED = os.path.join(VERIF, "seeded")

def sh(cmd, cwd=None, timeout=3600, env=None):
    p = subprocess.run(cmd, shell=True, cwd=cwd, stdout=subprocess.PIPE, stderr=subprocess.STDOUT, text=True, timeout=timeout, env=env)
    return p.returncode, p.stdout

def meta_path(name): return os.path.join(SEEDED, name, "meta.json")
def load_meta(name):
    p = meta_path(name)
    return json.load(open(p)) if os.path.exists(p) else {"name": name, "property": name.split("-")[0]}
def save_meta(name, m): json.dump(m, open(meta_path(name), "w"), indent=1)

def do_import():
    for d in sorted(glob.glob("/tmp/wt/C*/_seed/m*")):
        pid = d.split("/")[3]; name = "%s-%s" % (pid, os.path.basename(d))
        dst = os.path.join(SEEDED, name)
        if not os.path.exists(os.path.join(d, "patch.diff")):
            continue
        os.makedirs(dst, exist_ok=True)
        new = False
        for f in os.listdir(d):
            if (f in ("patch.diff", "notes.md") or f.startswith("demo.")) and not os.path.exists(os.path.join(dst, f)):
                shutil.copy(os.path.join(d, f), dst); new = True
        if new: print("imported", name)

def demo_cmd(name, checkout):
    d = os.path.join(SEEDED, name)
    if os.path.exists(os.path.join(d, "demo.py")):
        return "PYTHONPATH=%s timeout 600 /venv/bin/python %s %s" % (checkout, os.path.join(d, "demo.py"), checkout)
    return "PYTHONPATH=%s timeout 600 bash %s %s" % (checkout, os.path.join(d, "demo.sh"), checkout)

def confirm(name):
    wt = "/tmp/seedconfirm-%s" % name
    sh("git -C /repo worktree remove --force %s" % wt)
    rc, out = sh("git -C /repo worktree add -q --detach %s HEAD" % wt)
    assert rc == 0, out
    m = load_meta(name)
    try:
        rc0, o0 = sh(demo_cmd(name, wt), cwd=wt)
        rca, oa = sh("git apply %s" % os.path.join(SEEDED, name, "patch.diff"), cwd=wt)
        rct, ot = sh("PYTHONPATH=%s /venv/bin/python -m pytest -q -p no:cacheprovider 2>&1 | tail -1" % wt, cwd=wt)
        rc1, o1 = sh(demo_cmd(name, wt), cwd=wt)
        m["confirmed"] = {"demo_clean_rc": rc0, "patch_applies": rca == 0, "tests": ot.strip()[-60:], "demo_mutant_rc": rc1,
                          "ok": rc0 == 0 and rca == 0 and "33 passed" in ot and rc1 != 0,
                          "ran": "scratch worktree of /repo HEAD: demo (rc %d), git apply, pytest (%s), demo (rc %d)" % (rc0, ot.strip()[-30:], rc1)}
        print(name, "confirmed" if m["confirmed"]["ok"] else "NOT CONFIRMED", m["confirmed"])
    finally:
        sh("git -C /repo worktree remove --force %s" % wt)
        shutil.rmtree(wt, ignore_errors=True)
    notes = os.path.join(SEEDED, name, "notes.md")
    if os.path.exists(notes):
        m["needs_to_manifest"] = open(notes).read()[:1500]
    save_meta(name, m)

def run(name, pids):
    m = load_meta(name)
    rc, out = sh("git -C /repo status --porcelain --untracked-files=no")
    assert out.strip() == "", "repo not clean: " + out
    rc, out = sh("git -C /repo apply %s" % os.path.join(SEEDED, name, "patch.diff"))
    assert rc == 0, out
    res = m.setdefault("checks", {})
    evdir = os.path.join(VERIF, "evidence"); bak = os.path.join(VERIF, ".work", "evidence.bak")
    shutil.rmtree(bak, ignore_errors=True); os.makedirs(os.path.dirname(bak), exist_ok=True); shutil.copytree(evdir, bak)
    try:
        for pid in pids:
            t0 = time.time()
            rc, out = sh("/venv/bin/python harness/check.py %s --tier quick" % pid, cwd=VERIF, timeout=3000)
            viol = [l for l in out.split("\n") if l.startswith("VIOLATION")]
            res[pid] = {"rc": rc, "caught": rc == 1 and bool(viol), "lines": viol[:3], "tail": out.strip().split("\n")[-1][:300], "wall_s": round(time.time() - t0, 1)}
            print(name, pid, "CAUGHT" if res[pid]["caught"] else "MISSED", viol[:2], res[pid]["tail"])
    finally:
        sh("git -C /repo checkout -- .")
        shutil.rmtree(evdir, ignore_errors=True); shutil.copytree(bak, evdir)   # evidence must come from the unchanged tree
    save_meta(name, m)

if __name__ == "__main__":
    if sys.argv[1] == "import": do_import()
    elif sys.argv[1] == "confirm": [confirm(n) for n in sys.argv[2:]]
    elif sys.argv[1] == "run":
        name = sys.argv[2]; run(name, sys.argv[3:] or [name.split("-")[0]])
