"""Build spuriousSSM (sanitised) and a small table-dumping harness from /repo's working tree."""
import fcntl, hashlib, os, subprocess
VERIF = os.path.dirname(os.path.dirname(os.path.abspath(__file__)))
REPO = os.environ.get("VERIF_REPO", "/repo")
SRC = os.path.join(REPO, "peppercompiler", "SpuriousDesign", "spuriousSSM.c")
BIN = os.path.join(VERIF, ".work", "bin")

HARNESS = r'''
#define main ssm_main
#include "%s"
#undef main
int main(int argc, char **argv) {
  int c, k;
  for (c = 1; c < 256; c++) { char r = WC((char)c); printf("WC %%d %%d\n", c, (int)(unsigned char)r); }
  printf("DEG %%s\n", degenerates);
  for (c = 1; c < 256; c++) {
    char seen[256]; memset(seen, 0, 256);
    for (k = 0; k < 400; k++) { unsigned char r = (unsigned char) randbasec((char)c); seen[r] = 1; }
    printf("RB %%d ", c); for (k = 1; k < 256; k++) if (seen[k]) printf("%%c", k); printf("\n");
  }
  return 0;
}
'''

def _sh(cmd, timeout=300):
    p = subprocess.run(cmd, shell=True, stdout=subprocess.PIPE, stderr=subprocess.STDOUT, text=True, timeout=timeout)
    return p.returncode, p.stdout

def _cached(tag, build_cmd_fn):
    os.makedirs(BIN, exist_ok=True)
    h = hashlib.sha256(open(SRC, "rb").read()).hexdigest()[:16]
    out = os.path.join(BIN, "%s-%s" % (tag, h))
    lock = open(os.path.join(BIN, ".lock"), "w")
    fcntl.flock(lock, fcntl.LOCK_EX)
    try:
        if not os.path.exists(out):
            rc, log = build_cmd_fn(out)
            if rc != 0:
                if os.path.exists(out):
                    os.remove(out)
                return None, log
        return out, ""
    finally:
        fcntl.flock(lock, fcntl.LOCK_UN); lock.close()

def ssm_asan():
    """clang ASan+UBSan build of spuriousSSM from the working tree; returns (path|None, log)"""
    return _cached("ssm-asan", lambda out: _sh(
        "clang -g -O1 -fsanitize=address,undefined -fno-sanitize-recover=undefined -fno-omit-frame-pointer -w -o %s %s -lm" % (out, SRC)))

def ssm_plain():
    return _cached("ssm-plain", lambda out: _sh("gcc -O2 -w -o %s %s -lm" % (out, SRC)))

def tables_harness():
    def b(out):
        hc = out + ".c"
        open(hc, "w").write(HARNESS % SRC)
        return _sh("gcc -O1 -w -o %s %s -lm" % (out, hc))
    return _cached("ssm-tables", b)

def c_tables():
    """Run the harness: returns dict(wc={char:char}, deg=str, rb={char:str}) or raises."""
    path, log = tables_harness()
    if path is None:
        raise RuntimeError("cannot build C table harness: " + log[-800:])
    p = subprocess.run([path], stdout=subprocess.PIPE, stderr=subprocess.PIPE, timeout=60)
    wc, rb, deg = {}, {}, None
    for line in p.stdout.decode("latin-1").split("\n"):
        if line.startswith("WC "):
            _, a, b = line.split(" "); wc[chr(int(a))] = chr(int(b))
        elif line.startswith("DEG "):
            deg = line[4:]
        elif line.startswith("RB "):
            parts = line.split(" ", 2); rb[chr(int(parts[1]))] = parts[2] if len(parts) > 2 else ""
    if p.returncode != 0 or deg is None:
        raise RuntimeError("C table harness failed rc=%s %s" % (p.returncode, p.stderr[-300:]))
    return {"wc": wc, "deg": deg, "rb": rb}
