#!/usr/bin/env python3
"""Regenerates MANIFEST.json from the table below (kept in one place so it stays valid)."""
import json, os
VERIF = os.path.dirname(os.path.dirname(os.path.abspath(__file__)))
props = [json.loads(l) for l in open(os.path.join(VERIF, "properties.jsonl"))]

CHECKS = {
 "C11": dict(
   text="Proof: six theorems (complement soundness and involution, reverse-complement involution for all strings by induction, closure of intersection, agreement of the three Python copies and of C's WC/degenerates/randbasec with the model on all 256 characters) stated over tables regenerated from the source on every run; finite parts by vm_compute sweeps lifted to all characters. The live intersection/complement functions are compared exhaustively (every ordered pair of codes) with the model.",
   note="Trusted: Coq kernel + vm_compute; the fail-closed translator harness/translate_tables.py; extraction/driver for the correspondence; gcc-built table harness for the failing-input search. Axioms: none (Closed under the global context).",
   technique="Coq theorems over source-regenerated tables + exhaustive model/impl correspondence",
   design="5 C11"),
 "C07": dict(
   text="Proof: the line-by-line Gallina model of propagate_constraints (outer key loop, two frontier loops per round, the assertions, the four assignment loops) is proved, for every symmetric link graph whose targets are keys, to terminate without assertion and to return for every key exactly the even-parity and odd-parity connected items (induction over an inductive path relation, fuel sufficiency by a NoDup/length measure); order independence is a corollary. The extracted model is compared with the real function on random graphs every run.",
   note="Trusted: Coq kernel; extraction + driver; the harness's injective numbering of int/tuple items; CPython set semantics (iteration order is quantified away). Axioms: none.",
   technique="Coq proof of a worklist-closure model + extracted-model/implementation correspondence",
   design="5 C07, Appendix A"),
}

checks = []
for p in props:
    pid = p["id"]
    if pid in CHECKS:
        c = CHECKS[pid]
        checks.append({
            "property_id": pid,
            "quick_cmd": "/venv/bin/python harness/check.py %s --tier quick" % pid,
            "thorough_cmd": "/venv/bin/python harness/check.py %s --tier thorough" % pid,
            "evidence_file": "/verif/evidence/%s.json" % pid,
            "replay_cmd_template": "/venv/bin/python harness/check.py %s --replay {path}" % pid,
            "engine": "coq-correspondence",
            "level_claimed": {"category": "proof", "text": c["text"], "design_ref": c["design"]},
            "level_note": c["note"],
            "technique": c["technique"],
        })
na = [{"property_id": p["id"], "reason": "check not built yet in this round; planned in DESIGN.md section 5 (machine-checked proof + correspondence)"}
      for p in props if p["id"] not in CHECKS]
m = {
 "version": 1,
 "setup_cmd": "python3 harness/build.py",
 "hooks": {"guard": "PEPPERCOMPILER_VERIF", "enable": "no source hooks are needed: every observable is reached through the public API, the CLIs and spuriousSSM's own options",
           "baseline_off_cmd": "cd /repo && /venv/bin/python -m pytest -ra -q -p no:cacheprovider --timeout=900 --continue-on-collection-errors",
           "source_commits": [], "add_only": True},
 "engines": [{"name": "coq-correspondence", "path": "/verif/harness/check.py", "serves_properties": sorted(CHECKS),
              "kind_free_text": "Coq 8.16.1 development under /verif/coq (models, proofs, Props/*.v), regenerated source-derived tables, OCaml-extracted model driven against /repo's implementation"}],
 "checks": checks,
 "notes": "All checks rebuild generated Coq files and C binaries from /repo's working tree on every run. known_findings.txt lists fixed/open findings.",
 "not_applicable": na,
}
json.dump(m, open(os.path.join(VERIF, "MANIFEST.json"), "w"), indent=1)
print("claimed:", sorted(CHECKS), "not claimed:", len(na))
