#!/usr/bin/env python3
"""Regenerates MANIFEST.json from the table below (kept in one place so it stays valid)."""
import json, os
VERIF = os.path.dirname(os.path.dirname(os.path.abspath(__file__)))
props = [json.loads(l) for l in open(os.path.join(VERIF, "properties.jsonl"))]

CHECKS = {
 "C11": dict(
   text="Proof: six theorems (complement soundness and involution, reverse-complement involution for all strings by induction, closure of intersection, agreement of the three Python copies and of C's WC/degenerates/randbasec with the model on all 256 characters) stated over tables regenerated from the source on every run; finite parts by vm_compute sweeps lifted to all characters. The live intersection/complement functions are compared exhaustively (every ordered pair of codes) with the model.",
   note="Trusted: Coq kernel + vm_compute; the fail-closed translator harness/translate_tables.py; extraction/driver for the correspondence; gcc-built table harness for the failing-input search. Axioms: none (Closed under the global context).",
   technique="Coq theorems over source-regenerated tables + exhaustive model/impl correspondence",
   design="5 C11"),
 "C07": dict(
   text="Proof: the line-by-line Gallina model of propagate_constraints (outer key loop, two frontier loops per round, the assertions, the four assignment loops) is proved, for every symmetric link graph whose targets are keys, to terminate without assertion and to return for every key exactly the even-parity and odd-parity connected items (induction over an inductive path relation, fuel sufficiency by a NoDup/length measure); order independence is a corollary. The extracted model is compared with the real function on random graphs every run.",
   note="Trusted: Coq kernel; extraction + driver; the harness's injective numbering of int/tuple items; CPython set semantics (iteration order is quantified away). Axioms: none.",
   technique="Coq proof of a worklist-closure model + extracted-model/implementation correspondence",
   design="5 C07, Appendix A"),
 "C01": dict(
   text="Proof, both halves, for every program the compile model accepts. Source to object: every sequence, super-sequence, strand, structure and kinetic statement is present in the final object under its name with its flag / bound / strand order; the item list of every composite is the written item list in written order (references keep their star, domains() is replaced in place, each quoted region becomes a fresh anonymous sequence at its written position, a declared length is met exactly); later statements never drop or change an earlier definition. Object invariant: every accepted program yields an object satisfying WF and WF2 (induction over the statements, incl. the deferred wildcard, register and the anonymous counter). Object to PIL: re-reading the emitted lines through their own definitions yields exactly the nucleotides (domain, offset, orientation) of every strand and every non-empty sequence / super-sequence, defines nothing else, and complement views flatten to reverse complements (14 theorems, closed). The compile model is tied to the code by correspondence on generated programs, the verified checker wf_check re-establishes WF per case, and the denotation predicate is evaluated on the real .pil.",
   note="Trusted: Coq kernel; extraction/driver; harness/pepper.py (AST printer with random spelling, .pil reader, Python transcription of den_src/den_pil used by the search); regex layer exercised not modelled. Hypothesis of the invariant theorem: user sequence names do not start with the reserved prefix _Anon (decidable, stated in the theorem). Axioms: none.",
   technique="Coq proof about the emit/re-read model + extracted-model/implementation correspondence",
   design="5 C01"),
 "C08": dict(
   text="Proof: HU expansion is always balanced (nested induction), run-length/plain notation is accepted iff its flattening balances and yields the flattening, every spelling of one balanced string compiles to that string, dot-paren -> HU -> dot-paren is the identity on every parse tree, accepted domain-level structures are balanced with per-strand lengths equal to the summed domain lengths, and Structure's check pins each segment to its strand (9 theorems, closed). Correspondence runs HU2dotParen / extended2dotParen / dotParen2HU / parse_structure_statement / add_structure on random structures in random spellings, corrupted strings and domain-level cases.",
   note="Trusted: Coq kernel; extraction/driver; pyparsing lexing exercised with random spacing but not modelled (DotParen_grammar acceptance is modelled as parenthesis balance). Axioms: none.",
   technique="Coq proofs on the notation model + extracted-model/implementation correspondence",
   design="5 C08"),
 "C10": dict(
   text="Proof: for one '?' and a declared length L >= the other parts the wildcard takes exactly L - sum, the result has length L and equals the explicit spelling; parts keep written order and multiplicity; more than one wildcard, a wildcard without length, a negative remainder and a length mismatch are all errors; in a composite the deferred '?' region lands at its written index in both the item list and the flattened base-sequence list, takes exactly what the other items (compiled on their own) leave so that the total is the declared length, every other item keeps its written place and multiplicity, and two '?' regions are rejected (8 theorems, closed). Correspondence over constraint lists x declared lengths, incl. compiling each single-wildcard case in its explicit spelling and reading seqs/base_seqs back from the .save.",
   note="Trusted: Coq kernel; extraction/driver; harness/pepper.py printers/readers; pickle for the object read-back. Equality with the explicit spelling of a composite 'up to anonymous numbering' is checked by correspondence, the position theorem is proved. Axioms: none.",
   technique="Coq proofs on the wildcard model + extracted-model/implementation correspondence",
   design="5 C10"),
 "C09": dict(
   text="Proof: the emission of every component object satisfying the invariants WF and WF2 passes the executable well-formedness predicate wf_pil (unique earlier definitions, resolved length = declared length for every sequence / super-sequence / strand, every structure balanced with one segment per strand of that strand's length, kinetics over defined structures); every program the compile model accepts yields such an object, so whatever is accepted emits a document passing wf_pil (end-to-end theorem); the per-case checkers are proved sound as well; every structure any notation compiles to is balanced, also after domain-level expansion (7 theorems, closed). wf_pil, extracted from Coq, is evaluated on the real .pil of every accepted AST mutant, token-level text mutant and wrong-arity instantiation; AST mutants are also compared model vs implementation (accept/reject and output).",
   note="Trusted: Coq kernel; extraction/driver; harness mutators, printer and .pil reader. .sys-level clauses (instance arity) are exercised for component templates only here and for systems in C02. Axioms: none.",
   technique="Coq proof that emission satisfies an executable well-formedness predicate + mutation correspondence",
   design="5 C09"),
 "C14": dict(
   text="Proof (emission model): a zero-length base sequence contributes no nucleotide wherever it is inserted or deleted; zero-length items never appear in emitted item lists and inserting/deleting them leaves the lists unchanged; no emitted sequence / super-sequence line has length 0; in a well-formed object a zero-length reference denotes nothing; strands re-read to the flattening of their base lists (6 theorems, closed). Correspondence on (program, program + zero-length insertions) pairs: both compiled, designs compared modulo anonymous numbering, designer arrays compared in both layouts, the zero-length variant pushed through fill -> .mfe -> finish.",
   note="Trusted: Coq kernel; extraction/driver; harness generators, .pil reader, array filler. Insertions avoid strands of domain-level structures (those would need an extra '.' per inserted domain). Axioms: none.",
   technique="Coq proofs on the emission model + pairwise differential correspondence through compiler, designer front-end and finisher",
   design="5 C14"),
 "C04": dict(
   text="Proof (at the level of the link graph seeded by Convert.get_constraints over strand positions and auxiliary sequence nodes): the closure step is exact and never asserts (reusing C07), every equality / complement representative is the least position of its parity class, two positions share an equality representative iff they are forced equal, the complement representative equals the equality representative of the complementary class and is absent iff nothing is forced complementary, every position's base code denotes exactly the intersection of the templates of its equality class and the complements of the templates of its complementary class, blank slots are exactly the uninitialised ones, once seeded the generation either returns arrays or reports over-constraint, and the strand layout obeys its formula (9 theorems, closed). The line-by-line designer model (PIL loading, both layouts, seeding, closure, template propagation, representatives, dump) is compared with the real front-end on compiler-emitted and hand-written documents in both layouts, and both are compared with an independent denotation-level oracle (parity union-find over base nucleotides, no auxiliary nodes).",
   note="Not proved in Coq: that connectivity through the auxiliary nodes, restricted to positions, equals the equalities forced by the document's denotation; decided per case by the oracle. Hypothesis graph_ok (links between initialised nodes, template table keyed by the nodes, templates are codes) is evaluated per case by the extracted checker. Trusted: Coq kernel; extraction/driver; harness/pepper.py (document generator/printer, spec_arrays oracle). Axioms: none.",
   technique="Coq proofs over the seeded link graph + three-way correspondence (model, implementation, denotation oracle)",
   design="5 C04"),
 "C15": dict(
   text="Proof: for every document whose seeded link graph passes graph_ok, constraint generation reports over-constraint exactly when no nucleotide assignment satisfies every template and every equal / complementary link (both directions: a satisfying assignment is constructed from a successful run, and any assignment forces success), it otherwise returns arrays, and the only reasons for the report are a node forced complementary to itself (any odd cycle) or a class with no common base (6 theorems, closed). Correspondence on documents about half of which are unsatisfiable (planted hairpins, long odd cycles, template clashes inside repeated sequences and across equal lines): the implementation must raise the over-constrained error exactly when the denotation-level satisfiability oracle finds no assignment, in both layouts.",
   note="Satisfiability is stated over the seeded link graph (positions plus auxiliary nodes); its agreement with the document's denotation is decided per case by the oracle. Trusted: as C04. Axioms: none.",
   technique="Coq proof (failure iff unsatisfiable, over the seeded link graph) + satisfiability-oracle correspondence",
   design="5 C15"),
 "C05": dict(
   text="Proof: for every exact closure table the equality representative of a nucleotide position is defined, idempotent and at most the position; the complement representative is itself a representative and its own complement representative is the position's equality representative; positions forced equal carry identical template codes and positions forced complementary carry complementary codes (6 theorems, closed). Per case: design(just_files=True) in both layouts, file contents compared with the model's eq_map/wc_map/st_map output, the Coq-extracted predicate contract_ok evaluated on the real files, a separator/layout check, and two runs of an ASan/UBSan spuriousSSM built from the working tree which must exit 0 without ERROR or sanitizer report.",
   note="The file encoding (1-based, separators) and acceptance by the C program are checked per case, not proved (no C semantics installed). Trusted: as C04 plus clang sanitizers. Axioms: none.",
   technique="Coq proofs on representatives and template codes + extracted contract predicate on real files + sanitised binary acceptance",
   design="5 C05"),
 "C13": dict(
   text="Proof: on the character-level model of process_list, brace duplication of any line (any number of groups, any number of alternatives incl. empty ones, arbitrary surrounding text) equals the declarative hand expansion -- the cartesian product of the alternatives with the leftmost group varying slowest and all other text untouched -- also with the fuel the model actually uses; and <expression> replacement equals segment-wise substitution of the decimal values, left to right (3 theorems, closed). Both loaders consume only process_list's text, so compile(template,args) = compile(expansion) follows by congruence; this last step and the text-level behaviour are checked by correspondence: process_list vs model vs hand expansion on free-form templates, and compile(template,args) vs compile(hand-expanded file) on well-formed ones.",
   note="Trusted: Coq kernel; extraction/driver; Python's eval is outside the model (integer expression subset supplied as ASTs keyed by source text; anything else is reported unsupported, never agreement); harness hand_expand transcription. Axioms: none.",
   technique="Coq proofs on a character-level substitution model + text-level and compile-level correspondence",
   design="5 C13"),
 "C02": dict(
   text="Proof on the system model: an import resolves to the first directory (importing directory, then the include list in order) holding name.sys xor name.comp, both-present is an ambiguity error, none is an error; the parameter environment binds the declared names to the given arguments in order and a different count is an error; the emitted item of a binding carries star = binding XOR declaration and re-reads to the port as declared, reverse-complemented iff the binding is starred; every name a component instance emits carries the instance's prefix and compilation keeps the prefix it is given (6 theorems, closed). The recursion through nested systems (load_file / add_component / emit) is tied to the code by correspondence on generated libraries (sub-directories, include directories, aliases, shared signals, stars on both sides, parameterised templates, decoy files), and the composed denotation is compared with the specification oracle per case.",
   note="Trusted: Coq kernel; extraction/driver; harness/pepper.py (SysGen, printers, expected_system_den); pyparsing grammar of .sys files exercised not modelled; os.path modelled by path_join/dirname/normalize. Disjointness of instances is proved as 'names carry the instance prefix'; that distinct instance names give prefix-disjoint name sets relies on instance names containing no '-' (the .sys grammar's identifier). Axioms: none.",
   technique="Coq proofs on the system model + correspondence on generated libraries + denotation oracle",
   design="5 C02"),
 "C12": dict(
   text="Proof (base case): fixing a base sequence replaces each position's code by a code denoting exactly the intersection of the old and the fixed code; a wrong length and an empty intersection are errors; only the addressed sequence changes, its length is kept, and a failed or warned fix changes nothing; a starred domain is fixed through the reverse complement. Composite case: in every well-formed component, fixing a super-sequence or strand through its nested item list (incl. complemented views of super-sequences) equals fixing the flattened base-sequence references left to right, each with its own slice of the string, and every base sequence ends with its old constraint intersected in order with exactly the slices that land on its occurrences, reverse complemented for starred ones, everything else untouched (7 theorems, closed). Structures split the string on '+' over their strands by definition of the model; signals bound directly or through nested systems are the model's fix_signal / fix_at. All of it is compared with compiler.compiler(--fixed) on generated components and system libraries and with a per-nucleotide intersection oracle over the denotation.",
   note="Trusted: as C02 plus the harness oracle expected_fixed. The system-level routing of a signal fix (fix_at / fix_signal) is checked per case, not proved. Axioms: none.",
   technique="Coq proofs on the fix model (base and composite) + correspondence + per-nucleotide oracle",
   design="5 C12"),
 "C03": dict(
   text="Proof (partial) on the .des model: the sequence list assigned to a structure re-reads (names through their own sequence lines, * as reverse complement, zero-length domains skipped) to exactly the nucleotides of the structure's strands in order; the auxiliary duplex of length L pairs position L-1-i of its first strand with position L+i, so its second strand is the reverse complement of its first (3 theorems, closed). Per case: model and implementation .des compared line by line on components and nested system libraries, and the constraint partition (classes with parity and allowed bases) over every position of every program structure compared between the .des incl. its auxiliary duplexes and the source denotation; targets and objective lines checked.",
   note="Partial: global equivalence of the two constraint sets is decided per case by the partition oracle, not proved. One open known finding (duplicate auxiliary structure names, see known_findings.txt). Trusted: as C02 plus the harness .des reader and partition oracle. Axioms: none.",
   technique="Coq proofs on the .des model + line correspondence + constraint-partition oracle",
   design="5 C03"),
 "C17": dict(
   text="Proof on the model of apply_design (component level): a successful base pass means every non-empty base sequence takes its record's string of the declared length whose reverse complement is the starred record; the result depends only on the records of base sequences, their starred names and structures, so corrupting any other record changes nothing; a changed base record (starred record intact), a changed starred record, or a missing one is refused -- using injectivity of reverse complement from the C11 algebra (5 theorems, closed). Fault enumeration on real (.save,.mfe) pairs: every single-edit corruption (sequence positions x 15 substitutions / deletion / insertion, header rename / star toggle / collision / damage, numeric and structure fields, record drop / duplicate / swap, Total line) must make finish.finish fail or write byte-identical files; verdicts compared with the model wherever the harness's record reader and kinetics.read_design agree.",
   note="Trusted: Coq kernel; extraction/driver; the harness .mfe reader (transcription of nupack_out_grammar; pyparsing itself is exercised, not modelled); pickle. The quick tier samples ~120 faults per design, the thorough tier enumerates all. Axioms: none.",
   technique="Coq proofs on the finish model + single-fault enumeration against finish.finish",
   design="5 C17"),
 "C06": dict(
   text="Proof (partial) on the finish model: whatever is written, every non-empty base sequence has its record's string of the declared length with the starred form its reverse complement, and every super-sequence and strand is the concatenation of its base sequences' values (2 theorems, closed). End-to-end correspondence: satisfiable generated components and system libraries, both layouts, compile -> get_constraints -> assignment satisfying the arrays -> process_results -> .mfe -> finish; the .seqs / strands files are checked against the source denotation (constraints, reverse complements, concatenations, Watson-Crick pairs of every target pair, agreement of ports bound to one signal through nested systems, completeness, non-dummy strands) and compared with the finish model; a few cases run through pepper-compiler / pepper-design-spurious (real spuriousSSM, NUPACK stub) / pepper-finish.",
   note="Partial: success of the chain for every assignment satisfying the arrays is exercised, not proved (it would compose the designer and finish models). Unused sequences are undesigned by design of the tool (they keep their template codes); the oracle accepts a degenerate code that denotes a subset of the constraint. Trusted: as C17 plus the NUPACK stub and gcc build. Axioms: none.",
   technique="Coq proofs on the finish model + end-to-end differential pipeline against the source denotation",
   design="5 C06"),
 "C16": dict(
   text="Proof (partial): every line of the emitted .pil carries exactly the name, length, constraint string, dummy flag, item list, strand list and target of a compiled object of the model (the graph that is pickled), and by C01 every non-empty object has its line (1 theorem here, closed). Correspondence on histories: compile after 0-5 earlier compiles in one interpreter, capture the in-memory system at compiler.save, load the .save in a second fresh interpreter with another hash seed; canonical object-graph dumps (tables, attributes, item lists by identity class, complement links, sharing with component tables, signal tables) compared, cross-checked against the .pil of the same compile, and apply_design run on both sides.",
   note="Partial by nature: that pickle with default_ordered_dict / ordered_set reproduces an isomorphic graph in a fresh process is runtime behaviour no Gallina model can express; it is exhibited, not proved. Trusted: Coq kernel; hist_worker.py (wraps compiler.save, no source hook). Axioms: none.",
   technique="Coq lemma on emitted lines + save/reload round trips in fresh processes with canonical graph dumps",
   design="5 C16"),
 "C18": dict(
   text="Proof (partial): the compile model is a function of (file table, arguments, include list, starting counter); anonymous names are an injective function of the counter, so two compilations differ only by a renumbering fixed by the starting counter; every name defined in one emitted component document is fresh (wf_pil) (2 theorems, closed). Correspondence over histories in fresh interpreters: 0-3 earlier compilations of other projects using the same relative file names, invocation from the project root or its parent, several PYTHONHASHSEED values, both back-ends, with and without a fixed-sequence file using S/N over degenerate constraints; outputs must be identical modulo the timestamp line and a consistent renumbering, names unique; one run per target compared with the model.",
   note="Partial by nature: absence of any other hidden interpreter state is what a model assumes; the histories decide it per case. Trusted: Coq kernel; extraction/driver; hist_worker.py. Axioms: none.",
   technique="Coq lemmas (injective numbering, fresh names) + history / hash-seed / directory correspondence",
   design="5 C18"),
 "C19": dict(
   text="Proof (partial): the search loop of spuriousSSM as repaired (score-neutral moves count as boring, a boredom limit is always in force) terminates for every sequence of random choices and every score function within (|V|+1)*bmax iterations, by the lexicographic measure (number of sequences with strictly better score, bmax - bored) over the finite universe V; the loop as it was before the repair has a run that never stops (2 theorems, closed). The validity predicate (test_consistency: blanks, template membership, every eq and wc entry) is extracted from Coq and evaluated on every traced and final sequence printed by an ASan+UBSan binary built from the working tree, on consistent triples (designer output in both layouts, lengths 1 to 282, fully fixed to fully free) x option sets; runs without tmax/imax must stop by the program's own rule within the time-out.",
   note="Partial: constrain / mutate preserving validity is modelled (Search.v) but only observed through the predicate, not proved; memory safety and absence of undefined behaviour are observed under sanitizers (no C semantics installed); the score functions are abstracted to an arbitrary strict order; the rejection loop inside mutate relies on erand48 not repeating one value forever. Trusted: Coq kernel; extraction/driver; clang sanitizers. Axioms: none.",
   technique="Coq termination proof for the abstract loop + sanitised runs with an extracted validity predicate",
   design="5 C19"),
 "C20": dict(
   text="Proof (partial): over an abstract file system, processes whose write sets are pairwise disjoint and disjoint from the others' read sets produce under every interleaving of their atomic file operations (writes may depend on everything read so far) the same final files and per-process observations as any other order, in particular the sequential one (induction over permutations of the schedule, adjacent independent steps commute); over footprints REGENERATED from the source on every run: a compile modifies only its output and save files, a design run only its output, the four scratch files derived from its temp name and unique mkstemp files, a finish only its sequence files, and the CLI defaults derive these names from BASENAME; different temp names never share a scratch file (5 theorems, closed). Correspondence: strace'd runs of the three tools must modify only paths of the generated footprint; batches of 2-8 runs with distinct names (incl. dotted temp names) started simultaneously vs one after another, all files compared byte for byte.",
   note="Partial by nature: real OS scheduling, file-system semantics and interpreter side effects are outside any Gallina model; they are exercised. Trusted: Coq kernel; harness/translate_footprint.py (fail-closed; reads of source files abstracted to PSources); strace; NUPACK stub and gcc build of spuriousSSM. Axioms: none.",
   technique="Coq interleaving theorem + theorems over a source-regenerated footprint + strace and concurrent-vs-sequential correspondence",
   design="5 C20"),
}

checks = []
for p in props:
    pid = p["id"]
    if pid in CHECKS:
        c = CHECKS[pid]
        checks.append({
            "property_id": pid,
            "quick_cmd": "/venv/bin/python harness/check.py %s --tier quick" % pid,
            "thorough_cmd": "/venv/bin/python harness/check.py %s --tier thorough" % pid,
            "evidence_file": "/verif/evidence/%s.json" % pid,
            "replay_cmd_template": "/venv/bin/python harness/check.py %s --replay {path}" % pid,
            "engine": "coq-correspondence",
            "level_claimed": {"category": "proof", "text": c["text"], "design_ref": c["design"]},
            "level_note": c["note"],
            "technique": c["technique"],
        })
na = [{"property_id": p["id"], "reason": "check not built yet in this round; planned in DESIGN.md section 5 (machine-checked proof + correspondence)"}
      for p in props if p["id"] not in CHECKS]
m = {
 "version": 1,
 "setup_cmd": "python3 harness/build.py",
 "hooks": {"guard": "PEPPERCOMPILER_VERIF", "enable": "no source hooks are needed: every observable is reached through the public API, the CLIs and spuriousSSM's own options",
           "baseline_off_cmd": "cd /repo && /venv/bin/python -m pytest -ra -q -p no:cacheprovider --timeout=900 --continue-on-collection-errors",
           "source_commits": [], "add_only": True},
 "engines": [{"name": "coq-correspondence", "path": "/verif/harness/check.py", "serves_properties": sorted(CHECKS),
              "kind_free_text": "Coq 8.16.1 development under /verif/coq (models, proofs, Props/*.v), regenerated source-derived tables, OCaml-extracted model driven against /repo's implementation"}],
 "checks": checks,
 "notes": "All checks rebuild generated Coq files and C binaries from /repo's working tree on every run. known_findings.txt lists fixed/open findings.",
 "not_applicable": na,
}
json.dump(m, open(os.path.join(VERIF, "MANIFEST.json"), "w"), indent=1)
print("claimed:", sorted(CHECKS), "not claimed:", len(na))
