"""Common machinery of every check: build, proof obligations, model driver,
implementation workers, verdict logic, replay and evidence files."""
import hashlib, importlib, json, multiprocessing as mp, os, random, re, shutil, signal, subprocess, sys, time, traceback

HERE = os.path.dirname(os.path.abspath(__file__))
VERIF = os.path.dirname(HERE)
REPO = os.environ.get("VERIF_REPO", "/repo")
COQ = os.path.join(VERIF, "coq")
sys.path.insert(0, HERE)
import build as buildmod
import sexp

PY = "/venv/bin/python"
TRUSTED_BASE_COMMON = [
    "Coq 8.16.1 kernel incl. its vm_compute machine (no native_compute)",
    "Print Assumptions output of each property theorem (expected: Closed under the global context)",
    "extraction with ExtrOcamlBasic + ExtrOcamlString only (bool, option, list, prod, unit, sumbool, ascii->char, string->char list); nat/N/Z stay extracted inductives; OCaml 4.13.1 compiler",
    "ocaml/driver.ml: generic s-expression reader/printer (glue only)",
    "the Python correspondence harness (generators, canonicalisation, comparison)",
]

def tier():
    t = os.environ.get("VERIF_TIER", "")
    for i, a in enumerate(sys.argv):
        if a == "--tier" and i + 1 < len(sys.argv):
            t = sys.argv[i + 1]
    return t if t in ("quick", "thorough") else "quick"

def seed():
    try:
        return int(os.environ.get("VERIF_SEED", "1"))
    except ValueError:
        return 1

# ---------------------------------------------------------------- proofs
def check_proofs(pid, theorems):
    """Compile Props/<pid>.v against the freshly built .vo files and read Print Assumptions.
    Returns dict(ok, obligations, discharged, details[], log)."""
    src = os.path.join(COQ, "Props", pid + ".v")
    cmd = "timeout 600 coqc -Q . PC Props/%s.v" % pid
    p = subprocess.run(cmd, shell=True, cwd=COQ, stdout=subprocess.PIPE, stderr=subprocess.STDOUT, text=True)
    out = p.stdout
    text = open(src).read()
    declared = re.findall(r"^\s*Theorem\s+(\w+)", text, re.M)
    printed = re.findall(r"Print Assumptions\s+(\w+)\.", text)
    details = []
    ok = (p.returncode == 0)
    # forbidden constructs anywhere in the development
    bad = []
    for root, _, names in os.walk(COQ):
        for n in names:
            if n.endswith(".v"):
                t = open(os.path.join(root, n)).read()
                t_nocomment = re.sub(r"\(\*.*?\*\)", "", t, flags=re.S)
                for pat in (r"\bAdmitted\b", r"\badmit\b", r"^\s*Axiom\b", r"^\s*Parameter\b", r"^\s*Conjecture\b",
                            r"Unset Guard", r"bypass_check", r"Admit Obligations", r"-type-in-type"):
                    if re.search(pat, t_nocomment, re.M):
                        bad.append("%s: %s" % (os.path.relpath(os.path.join(root, n), COQ), pat))
    if bad:
        ok = False
    blocks = re.split(r"(?=Closed under the global context|Axioms:)", out)
    blocks = [b for b in blocks if b.startswith("Closed") or b.startswith("Axioms:")]
    missing = [t for t in theorems if t not in declared or t not in printed]
    if missing:
        ok = False
    discharged = 0
    if p.returncode == 0:
        for name, blk in zip(printed, blocks):
            closed = blk.startswith("Closed under the global context")
            details.append({"theorem": name, "assumptions": "Closed under the global context" if closed else blk.strip()[:400]})
            if closed:
                discharged += 1
            else:
                ok = False
        if len(blocks) != len(printed):
            ok = False
    return {"ok": ok, "obligations": len(theorems), "discharged": min(discharged, len(theorems)) if ok else
            sum(1 for d in details if d["theorem"] in theorems and d["assumptions"].startswith("Closed")),
            "details": details, "log": out[-3000:], "forbidden": bad, "missing": missing,
            "checker_cmd": "cd /verif/coq && make (coq_makefile, full .vo build) && " + cmd}

# ---------------------------------------------------------------- model driver
def _run_model_chunk(args):
    data, n, timeout = args
    p = subprocess.run(["bash", "-c", "ulimit -s unlimited 2>/dev/null; exec %s" % os.path.join(VERIF, "ocaml", "driver")],
                       input=data, stdout=subprocess.PIPE, stderr=subprocess.PIPE, text=True, timeout=timeout)
    lines = p.stdout.split("\n")
    if lines and lines[-1] == "":
        lines.pop()
    if len(lines) != n:
        raise RuntimeError("model driver answered %d of %d requests (rc=%s): %s" % (len(lines), n, p.returncode, p.stderr[-500:]))
    return lines

def run_model(requests, timeout=900):
    """requests: list of python s-expression values; returns list of results (parsed).
    The requests are independent: they are answered by several driver processes side by side, in order."""
    if not requests:
        return []
    texts = [sexp.dumps(r) for r in requests]
    size = max(50, (len(texts) + 7) // 8) if len(texts) > 200 else len(texts)
    chunks = [texts[i:i + size] for i in range(0, len(texts), size)]
    args = [("\n".join(c) + "\n", len(c), timeout) for c in chunks]
    if len(chunks) == 1:
        parts = [_run_model_chunk(args[0])]
    else:
        from concurrent.futures import ThreadPoolExecutor
        with ThreadPoolExecutor(max_workers=8) as ex:
            parts = list(ex.map(_run_model_chunk, args))
    return [sexp.loads(l) for part in parts for l in part]

# ---------------------------------------------------------------- implementation workers
class CaseTimeout(Exception):
    pass

def _alarm(signum, frame):
    raise CaseTimeout()

def _worker_init(repo):
    sys.path.insert(0, repo)
    os.environ["PYTHONPATH"] = repo
    signal.signal(signal.SIGALRM, _alarm)
    import warnings
    warnings.simplefilter("ignore")

def _worker_call(args):
    modname, funcname, case, per_case_timeout = args
    mod = importlib.import_module(modname)
    f = getattr(mod, funcname)
    signal.alarm(per_case_timeout)
    try:
        return f(case)
    except CaseTimeout:
        return {"outcome": "timeout"}
    except BaseException as e:  # harness-level failure inside impl runner
        return {"outcome": "harness-exception", "detail": "%s: %s" % (type(e).__name__, e), "tb": traceback.format_exc()[-1500:]}
    finally:
        signal.alarm(0)

def run_impl(modname, funcname, cases, procs=12, per_case_timeout=20, chunksize=8):
    """Run props.<mod>.<func>(case) for every case in fresh worker processes importing /repo."""
    if not cases:
        return []
    ctx = mp.get_context("fork")
    with ctx.Pool(processes=min(procs, max(1, len(cases))), initializer=_worker_init, initargs=(REPO,), maxtasksperchild=200) as pool:
        res = pool.map_async(_worker_call, [(modname, funcname, c, per_case_timeout) for c in cases], chunksize=chunksize)
        return res.get(timeout=max(120, per_case_timeout * len(cases)))

def workdir(tag):
    d = os.path.join(VERIF, ".work", "%s-%d" % (tag, os.getpid()))
    shutil.rmtree(d, ignore_errors=True)
    os.makedirs(d, exist_ok=True)
    return d

# ---------------------------------------------------------------- known findings
def known_findings():
    path = os.path.join(VERIF, "known_findings.txt")
    open_, fixed = [], []
    if os.path.exists(path):
        for line in open(path):
            line = line.strip()
            if not line or line.startswith("#"):
                continue
            if line.startswith("fixed:"):
                fixed.append(line)
            elif line.startswith("open:"):
                m = re.match(r"open:\s*property=(\w+)\s+key=(\S+)\s+(.*)", line)
                if m:
                    open_.append({"property": m.group(1), "key": m.group(2), "what": m.group(3)})
    return open_, fixed

# ---------------------------------------------------------------- verdict
def repo_tree_hash():
    try:
        p = subprocess.run("git -C %s rev-parse HEAD; git -C %s diff HEAD | sha256sum" % (REPO, REPO), shell=True, stdout=subprocess.PIPE, text=True)
        return " ".join(p.stdout.split())
    except Exception:
        return "unknown"

def finish(pid, level, theorems, proof, corr, t0, build_res, extra_trusted=(), assumptions=()):
    """corr: dict(evaluations, distinct_nontrivial, rule, samples, distribution, failures[], notes)
    failures: list of dict(kind='predicate'|'disagreement'|'tie', key, summary, replay{})"""
    tr = tier()
    sd = seed()
    os.makedirs(os.path.join(VERIF, "replays"), exist_ok=True)
    os.makedirs(os.path.join(VERIF, "evidence"), exist_ok=True)
    import glob
    for old in glob.glob(os.path.join(VERIF, "replays", "%s-%d-*.json" % (pid, sd))):
        os.remove(old)
    open_k, _fixed = known_findings()
    failures = list(corr.get("failures", []))
    broken = []
    if not build_res["ok"]:
        broken.append("build: extraction/driver did not build")
    for rel, g in build_res.get("gen", {}).items():
        if not g["ok"] and rel in corr.get("gen_needed", []):
            broken.append("translator for %s failed closed: %s" % (rel, g["msg"]))
    if not proof["ok"]:
        names = [d["theorem"] for d in proof["details"] if not d["assumptions"].startswith("Closed")]
        broken.append("proof obligations of Props/%s.v no longer check (%s)%s%s" % (
            pid, ", ".join(names) if names else "compilation failed",
            "; forbidden: " + "; ".join(proof["forbidden"]) if proof.get("forbidden") else "",
            "; missing theorems: " + ",".join(proof["missing"]) if proof.get("missing") else ""))
    lines = []
    nviol = 0
    pred = [f for f in failures if f["kind"] == "predicate"]
    other = [f for f in failures if f["kind"] != "predicate"]
    reported_keys = set()
    def is_known(f):
        return any(k["property"] == pid and k["key"] == f.get("key") for k in open_k)
    n = 0
    for f in pred:
        if is_known(f):
            if f["key"] not in reported_keys:
                lines.append("KNOWN-FINDING: property=%s %s" % (pid, f["summary"]))
                reported_keys.add(f["key"])
            continue
        if f.get("key") in reported_keys:
            continue
        reported_keys.add(f.get("key"))
        n += 1
        if n > 5:
            continue
        path = os.path.join(VERIF, "replays", "%s-%d-%d.json" % (pid, sd, n))
        json.dump({"property": pid, "tier": tr, "seed": sd, "kind": "failing-input", "broken": broken,
                   "summary": f["summary"], **f.get("replay", {})}, open(path, "w"), indent=1, default=str)
        lines.append("VIOLATION property=%s replay=%s" % (pid, path))
        nviol += 1
    if nviol == 0 and (broken or other):
        path = os.path.join(VERIF, "replays", "%s-%d-nofail.json" % (pid, sd))
        json.dump({"property": pid, "tier": tr, "seed": sd, "kind": "no-failing-input-found",
                   "broken": broken + ["correspondence %s: %s" % (f.get("key"), f["summary"]) for f in other[:10]],
                   "disagreeing_cases": [f.get("replay", {}) for f in other[:5]],
                   "proof_log": proof.get("log", "")[-1500:] if not proof["ok"] else "",
                   "searched": "%d generated inputs evaluated with the property predicate on the implementation's output; none failed" % corr.get("evaluations", 0)},
                  open(path, "w"), indent=1, default=str)
        lines.append("VIOLATION property=%s replay=%s no-failing-input-found" % (pid, path))
        nviol += 1
    cov = {
        "obligations": max(1, proof["obligations"]),
        "discharged": proof["discharged"],
        "checker_cmd": proof["checker_cmd"],
        "trusted_base": TRUSTED_BASE_COMMON + list(extra_trusted),
        "theorems": proof["details"],
        "evaluations": int(corr.get("evaluations", 0)),
        "distinct_nontrivial": int(corr.get("distinct_nontrivial", 0)),
        "rule": corr.get("rule", ""),
        "samples": corr.get("samples", [])[:6],
        "input_distribution": corr.get("distribution", {}),
        "disagreements_model_vs_impl": len(other),
        "predicate_failures": len(pred),
        "generated_files": build_res.get("gen", {}),
        "repo_tree": repo_tree_hash(),
        "notes": corr.get("notes", ""),
        "broken": broken,
        "exhaustive": bool(corr.get("exhaustive", False)),
    }
    ev = {"property_id": pid, "tier": tr, "seed": sd, "level": level, "coverage": cov,
          "assumptions": list(assumptions), "wall_s": round(time.time() - t0, 2), "violations": nviol}
    json.dump(ev, open(os.path.join(VERIF, "evidence", pid + ".json"), "w"), indent=1, default=str)
    # scratch directories of workers that are gone (older than half an hour; concurrent checks keep theirs)
    try:
        wbase = os.path.join(VERIF, ".work")
        for n in os.listdir(wbase):
            q = os.path.join(wbase, n)
            if n.startswith("w") and os.path.isdir(q) and time.time() - os.path.getmtime(q) > 1800:
                shutil.rmtree(q, ignore_errors=True)
    except OSError:
        pass
    # the implementation writes coloured error messages to stderr whose reset code comes after the newline; when the two
    # streams are merged that code would sit in front of the next line: end it on a line of its own
    sys.stdout.flush(); sys.stderr.write("\n"); sys.stderr.flush()
    for l in lines:
        print(l)
    sys.stdout.flush()
    print("%s: tier=%s seed=%d proofs %d/%d, %d evaluations (%d distinct non-trivial), %d model/impl disagreements, %d predicate failures, %.1fs"
          % (pid, tr, sd, proof["discharged"], proof["obligations"], cov["evaluations"], cov["distinct_nontrivial"], len(other), len(pred), time.time() - t0))
    return 1 if nviol else 0
