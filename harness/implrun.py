"""Helpers that run /repo's implementation inside a worker process (see framework.run_impl)."""
import contextlib, io, os, shutil, tempfile, warnings
warnings.simplefilter("ignore")

_WORK = None
def workdir():
    global _WORK
    if _WORK is None or not os.path.isdir(_WORK):
        base = os.path.join(os.path.dirname(os.path.dirname(os.path.abspath(__file__))), ".work")
        os.makedirs(base, exist_ok=True)
        _WORK = tempfile.mkdtemp(prefix="w%d-" % os.getpid(), dir=base)
    return _WORK

def fresh_dir():
    d = tempfile.mkdtemp(prefix="c-", dir=workdir())
    return d

def anon_counter():
    from peppercompiler import DNA_classes
    return DNA_classes.AnonymousSequence.num

def compile_files(files, base, args=(), synth=True, fixed=None, includes=None, cwd_rel=None, keep=False, outname=None, objects=False):
    """Write files into a fresh directory, compile `base` there.  Returns dict(outcome, text|error, ctr0, dir)"""
    from peppercompiler import compiler as C
    d = fresh_dir()
    for n, t in files.items():
        p = os.path.join(d, n)
        os.makedirs(os.path.dirname(p), exist_ok=True)
        with open(p, "w") as f:
            f.write(t)
    cwd = os.getcwd()
    os.chdir(os.path.join(d, cwd_rel) if cwd_rel else d)
    out = io.StringIO(); err = io.StringIO()
    ctr0 = anon_counter()
    outfile = outname or ("out.pil" if synth else "out.des")
    res = {"ctr0": ctr0, "dir": d}
    try:
        with contextlib.redirect_stdout(out), contextlib.redirect_stderr(err):
            C.compiler(base, list(args), outfile, "out.save", fixed, synth, includes)
        res.update(outcome="ok", text=open(outfile).read(), warnings=err.getvalue()[-400:])
        if objects:
            res["objects"] = dump_component(load_saved("out.save"))
    except SystemExit:
        res.update(outcome="rejected", error=("exit: " + err.getvalue())[-300:])
    except Exception as e:
        res.update(outcome="rejected", error=("%s: %s" % (type(e).__name__, e))[-300:])
    finally:
        os.chdir(cwd)
        res["ctr1"] = anon_counter()
        if not keep:
            shutil.rmtree(d, ignore_errors=True)
    return res

def dump_component(comp):
    """canonical dump of a Component object: the item and base-sequence lists behind the emitted lines"""
    from peppercompiler import DNA_classes as D
    def ref(x):
        kind = "b" if isinstance(x, D.Sequence) else "s"
        nm = x.name[:-1] if x.reversed else x.name
        return [kind, nm, bool(x.reversed)]
    def sup(s):
        return {"seqs": [ref(x) for x in s.seqs], "base": [ref(x)[1:] for x in s.base_seqs], "len": s.length}
    return {"sups": [[n, sup(s)] for n, s in comp.sup_seqs.items()],
            "strands": [[n, sup(s)] for n, s in comp.strands.items()],
            "bases": [[n, b.const, b.length] for n, b in comp.base_seqs.items()]}

def load_saved(path):
    import pickle
    with open(path, "rb") as f:
        return pickle.load(f)

GROUP = {"A": "A", "T": "T", "C": "C", "G": "G", "R": "AG", "Y": "CT", "W": "AT", "S": "CG", "M": "AC", "K": "GT",
         "B": "CGT", "V": "ACG", "D": "AGT", "H": "ACT", "N": "ACGT"}
BCOMP = {"A": "T", "T": "A", "C": "G", "G": "C"}

def fill_design(eq, wc, st, rng):
    """a nucleotide string satisfying the arrays (0-based, None at blanks), chosen with rng"""
    S = [" "] * len(eq)
    for i in range(len(eq)):
        if eq[i] is None:
            continue
        if eq[i] != i:
            S[i] = S[eq[i]]
        elif wc[i] is not None and wc[i] < i:
            S[i] = BCOMP[S[wc[i]]]
        else:
            S[i] = rng.choice(GROUP[st[i]])
    return "".join(S)

def check_arrays(eq, wc, st, S):
    """does S satisfy the arrays?"""
    for i in range(len(eq)):
        if eq[i] is None:
            if S[i] != " ": return "blank expected at %d" % i
            continue
        if S[i] not in GROUP[st[i]]: return "base %s at %d not in %s" % (S[i], i, st[i])
        if S[i] != S[eq[i]]: return "eq violated at %d" % i
        if wc[i] is not None and S[i] != BCOMP[S[wc[i]]]: return "wc violated at %d" % i
    return None

def designer_arrays(pilpath, struct_orient=False):
    import contextlib, io
    from peppercompiler.design.constraint_load import Convert
    err = io.StringIO()
    try:
        with contextlib.redirect_stdout(err), contextlib.redirect_stderr(err):
            conv = Convert(pilpath, struct_orient)
            eq, wc, st = conv.get_constraints()
        return {"outcome": "ok", "eq": eq, "wc": wc, "st": st}, conv
    except SystemExit:
        return {"outcome": "rejected", "error": "exit " + err.getvalue()[-200:]}, None
    except Exception as e:
        return {"outcome": "rejected", "error": "%s: %s" % (type(e).__name__, e)}, None

def finish_pipeline(d, conv, nts, strands_file=True):
    """process_results -> .mfe -> finish against d/out.save; returns dict(outcome, seqs text, strands text)"""
    import contextlib, io
    from peppercompiler import finish as F
    err = io.StringIO()
    mfe = os.path.join(d, "out.mfe"); seqs = os.path.join(d, "out.seqs"); strands = os.path.join(d, "out.strands")
    try:
        with contextlib.redirect_stdout(err), contextlib.redirect_stderr(err):
            conv.process_results(nts)
            conv.output(mfe, findmfe=False)
            F.finish(os.path.join(d, "out.save"), mfe, seqs, strands if strands_file else None, False, False, 24, 100000, 25.0, 1.0, False, 10.0)
        return {"outcome": "ok", "mfe": open(mfe).read(), "seqs": open(seqs).read(), "strands": open(strands).read() if strands_file else None}
    except SystemExit:
        return {"outcome": "failed", "error": "exit " + err.getvalue()[-300:]}
    except Exception as e:
        return {"outcome": "failed", "error": "%s: %s" % (type(e).__name__, e)}

def pipeline(files, base, args=(), includes=None, seed=0, struct_orient=False, fixed=None):
    """compile -> designer arrays -> fill -> process_results -> .mfe -> finish, all in one kept directory.
    Returns dict with dir, ctr0, pil, arrays, nts, mfe, seqs, strands (or outcome != ok and stage)."""
    import random
    r = compile_files(files, base, args=args, includes=includes, keep=True, fixed=fixed)
    d = r["dir"]
    out = {"dir": d, "ctr0": r["ctr0"], "stage": "compile", "outcome": r["outcome"], "error": r.get("error")}
    if r["outcome"] != "ok":
        return out
    out["pil"] = r["text"]
    a, conv = designer_arrays(os.path.join(d, "out.pil"), struct_orient)
    out["arrays"] = a
    if a["outcome"] != "ok":
        out.update(stage="arrays", outcome="rejected", error=a.get("error")); return out
    nts = fill_design(a["eq"], a["wc"], a["st"], random.Random(seed))
    out["nts"] = nts
    f = finish_pipeline(d, conv, nts)
    out.update(stage="finish", outcome=f["outcome"], error=f.get("error"))
    if f["outcome"] == "ok":
        out.update(mfe=f["mfe"], seqs=f["seqs"], strands=f["strands"])
    return out

STANDIN_DESIGNER = r"""
import sys, random
GROUP = {"A": "A", "T": "T", "C": "C", "G": "G", "R": "AG", "Y": "CT", "W": "AT", "S": "CG", "M": "AC", "K": "GT",
         "B": "CGT", "V": "ACG", "D": "AGT", "H": "ACT", "N": "ACGT"}
COMP = {"A": "T", "T": "A", "C": "G", "G": "C"}
args = dict(a.split("=", 1) for a in sys.argv[1:] if "=" in a)
st = open(args["template"]).read()
wc = [int(x) for x in open(args["wc"]).read().split()]
eq = [int(x) for x in open(args["eq"]).read().split()]
assert len(st) == len(wc) == len(eq), (len(st), len(wc), len(eq))
rng = random.Random(int(args.get("seed", "0")))
nts = []
for i, letter in enumerate(st):            # the files are 1-based; 0 / -1 mean none
    if letter == " ": nts.append(" ")
    elif eq[i] - 1 != i: nts.append(nts[eq[i] - 1])
    elif wc[i] > 0 and wc[i] - 1 < i: nts.append(COMP[nts[wc[i] - 1]])
    else: nts.append(rng.choice(GROUP[letter]))
for i, letter in enumerate(st):            # the answer satisfies the three files
    if letter != " ":
        assert nts[i] in GROUP[letter] and nts[i] == nts[eq[i] - 1] and (wc[i] < 0 or nts[i] == COMP[nts[wc[i] - 1]]), i
print("Automatic: counted %d unique base equivalence classes." % len(set(eq)))
for k in range(int(args.get("trace", "0"))):   # the search trace spuriousSSM prints before its answer
    print("%8d steps, %8d seconds : score = %18.10f" % (k * 1000, k, 1000.0 / (k + 1)))
print("%8d steps, %8d seconds : score = %18.10f FINAL" % (0, 0, 0.0))
print("".join(nts))
"""

def pipeline_design(files, base, args=(), includes=None, seed=0, struct_orient=False, trace=0):
    """compile -> spurious_design.design() with a stand-in designer that answers any assignment satisfying the files it
    is given, printed the way spuriousSSM prints its result -> finish.  The arrays travel through the .st/.wc/.eq files
    and the answer through the .sp file, as in pepper-design-spurious."""
    import contextlib, io, sys
    r = compile_files(files, base, args=args, includes=includes, keep=True)
    d = r["dir"]
    out = {"ctr0": r["ctr0"], "stage": "compile", "outcome": r["outcome"], "error": r.get("error")}
    try:
        if r["outcome"] != "ok":
            return out
        from peppercompiler.design import spurious_design as SD
        designer = os.path.join(d, "standin_designer.py")
        with open(designer, "w") as f: f.write(STANDIN_DESIGNER)
        err = io.StringIO()
        mfe = os.path.join(d, "out.mfe")
        try:
            with contextlib.redirect_stdout(err), contextlib.redirect_stderr(err):
                SD.design(os.path.join(d, "out"), os.path.join(d, "out.pil"), mfe, cleanup=False, struct_orient=struct_orient, findmfe=False,
                          spuriousbinary="%s %s seed=%d trace=%d" % (sys.executable, designer, seed, trace))
        except SystemExit:
            out.update(stage="design", outcome="failed", error="exit " + err.getvalue()[-300:]); return out
        except Exception as e:
            out.update(stage="design", outcome="failed", error="%s: %s" % (type(e).__name__, str(e)[:300])); return out
        finally:
            stf = os.path.join(d, "out.st")
            if os.path.exists(stf): out["positions"] = len(open(stf).read())
        o, seqs, strands, e = run_finish(d, open(mfe).read(), "d")
        out.update(stage="finish", outcome="ok" if o == "ok" else "failed", error=e, seqs=seqs, strands=strands)
        return out
    finally:
        shutil.rmtree(d, ignore_errors=True)

def run_finish(d, mfe_text, tag="x"):
    """finish against d/out.save with the given design text; returns (outcome, seqs, strands, error)"""
    import contextlib, io
    from peppercompiler import finish as F
    mfe = os.path.join(d, "c_%s.mfe" % tag); seqs = os.path.join(d, "c_%s.seqs" % tag); strands = os.path.join(d, "c_%s.strands" % tag)
    with open(mfe, "w") as f: f.write(mfe_text)
    for p in (seqs, strands):
        if os.path.exists(p): os.remove(p)
    err = io.StringIO()
    try:
        with contextlib.redirect_stdout(err), contextlib.redirect_stderr(err):
            F.finish(os.path.join(d, "out.save"), mfe, seqs, strands, False, False, 24, 100000, 25.0, 1.0, False, 10.0)
        return ("ok", open(seqs).read(), open(strands).read(), None)
    except SystemExit:
        return ("error", None, None, "exit " + err.getvalue()[-200:])
    except BaseException as e:
        return ("error", None, None, "%s: %s" % (type(e).__name__, str(e)[:200]))

def read_design_impl(mfe_text, d, tag="x"):
    import contextlib, io
    from peppercompiler import kinetics as K
    p = os.path.join(d, "r_%s.mfe" % tag)
    with open(p, "w") as f: f.write(mfe_text)
    err = io.StringIO()
    try:
        with contextlib.redirect_stdout(err), contextlib.redirect_stderr(err):
            t = K.read_design(p)
        return dict(t)
    except BaseException:
        return None
