"""Helpers that run /repo's implementation inside a worker process (see framework.run_impl)."""
import contextlib, io, os, shutil, tempfile

_WORK = None
def workdir():
    global _WORK
    if _WORK is None or not os.path.isdir(_WORK):
        base = os.path.join(os.path.dirname(os.path.dirname(os.path.abspath(__file__))), ".work")
        os.makedirs(base, exist_ok=True)
        _WORK = tempfile.mkdtemp(prefix="w%d-" % os.getpid(), dir=base)
    return _WORK

def fresh_dir():
    d = tempfile.mkdtemp(prefix="c-", dir=workdir())
    return d

def anon_counter():
    from peppercompiler import DNA_classes
    return DNA_classes.AnonymousSequence.num

def compile_files(files, base, args=(), synth=True, fixed=None, includes=None, cwd_rel=None, keep=False, outname=None, objects=False):
    """Write files into a fresh directory, compile `base` there.  Returns dict(outcome, text|error, ctr0, dir)"""
    from peppercompiler import compiler as C
    d = fresh_dir()
    for n, t in files.items():
        p = os.path.join(d, n)
        os.makedirs(os.path.dirname(p), exist_ok=True)
        with open(p, "w") as f:
            f.write(t)
    cwd = os.getcwd()
    os.chdir(os.path.join(d, cwd_rel) if cwd_rel else d)
    out = io.StringIO(); err = io.StringIO()
    ctr0 = anon_counter()
    outfile = outname or ("out.pil" if synth else "out.des")
    res = {"ctr0": ctr0, "dir": d}
    try:
        with contextlib.redirect_stdout(out), contextlib.redirect_stderr(err):
            C.compiler(base, list(args), outfile, "out.save", fixed, synth, includes)
        res.update(outcome="ok", text=open(outfile).read(), warnings=err.getvalue()[-400:])
        if objects:
            res["objects"] = dump_component(load_saved("out.save"))
    except SystemExit:
        res.update(outcome="rejected", error=("exit: " + err.getvalue())[-300:])
    except Exception as e:
        res.update(outcome="rejected", error=("%s: %s" % (type(e).__name__, e))[-300:])
    finally:
        os.chdir(cwd)
        res["ctr1"] = anon_counter()
        if not keep:
            shutil.rmtree(d, ignore_errors=True)
    return res

def dump_component(comp):
    """canonical dump of a Component object: the item and base-sequence lists behind the emitted lines"""
    from peppercompiler import DNA_classes as D
    def ref(x):
        kind = "b" if isinstance(x, D.Sequence) else "s"
        nm = x.name[:-1] if x.reversed else x.name
        return [kind, nm, bool(x.reversed)]
    def sup(s):
        return {"seqs": [ref(x) for x in s.seqs], "base": [ref(x)[1:] for x in s.base_seqs], "len": s.length}
    return {"sups": [[n, sup(s)] for n, s in comp.sup_seqs.items()],
            "strands": [[n, sup(s)] for n, s in comp.strands.items()],
            "bases": [[n, b.const, b.length] for n, b in comp.base_seqs.items()]}

def load_saved(path):
    import pickle
    with open(path, "rb") as f:
        return pickle.load(f)
