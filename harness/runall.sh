#!/bin/bash
# run every claimed check (quick tier) on the current tree, in parallel batches; print a summary
cd /verif
ids=$(python3 -c "import json; print(' '.join(c['property_id'] for c in json.load(open('MANIFEST.json'))['checks']))")
python3 harness/build.py >/dev/null || { echo BUILD FAILED; exit 1; }
mkdir -p .work/logs
echo $ids | tr ' ' '\n' | xargs -P 4 -I{} sh -c '/venv/bin/python harness/check.py {} --tier ${VERIF_TIER:-quick} > .work/logs/{}.log 2>&1; echo "{} rc=$? $(tail -1 .work/logs/{}.log)"'
