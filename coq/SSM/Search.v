(* Model of spuriousSSM's search (C19): constrain, constrain_single_fast, mutate, the free
   positions, the validity predicate of an output (test_consistency), and the main loop as an
   abstract accept/reject process over an arbitrary score with an oracle for the random choices. *)
From Coq Require Import List String Ascii Arith Bool ZArith.
From PC Require Import Base.Codes SSM.Contract.
Import ListNotations.
Local Open Scope list_scope.

(* arrays as the C program holds them after load_input_files: 1-based entries, 0 / -1 for none *)
Record triple := { t_st : list ascii; t_wc : list Z; t_eq : list Z }.

Definition nthc (l : list ascii) (i : nat) : ascii := nth i l blank.
Definition nthz (l : list Z) (i : nat) (d : Z) : Z := nth i l d.
Fixpoint set_nth {A} (l : list A) (i : nat) (x : A) : list A :=
  match l, i with
  | [], _ => []
  | _ :: r, O => x :: r
  | y :: r, S j => y :: set_nth r j x
  end.

(* C's WC() on a sequence character *)
Definition wc_base (c : ascii) : ascii := wc_code c.

(* for (j...) if (eq[j]==v) S[j]=c *)
Fixpoint assign_class (eq : list Z) (v : Z) (c : ascii) (S : list ascii) : list ascii :=
  match eq, S with
  | e :: er, s :: sr => (if Z.eqb e v then c else s) :: assign_class er v c sr
  | _, _ => S
  end.
Fixpoint mark_class (eq : list Z) (v : Z) (m : list bool) : list bool :=
  match eq, m with
  | e :: er, b :: mr => (if Z.eqb e v then true else b) :: mark_class er v mr
  | _, _ => m
  end.

(* constrain(): for each unmarked i in order, copy S[i] over its class and WC(S[i]) over its partner class *)
Fixpoint constrain_loop (idx : list nat) (t : triple) (S : list ascii) (marked : list bool) : list ascii :=
  match idx with
  | [] => S
  | i :: rest =>
      if nth i marked false then constrain_loop rest t S marked else
      let ei := nthz (t_eq t) i 0%Z in let wi := nthz (t_wc t) i (-1)%Z in
      let S1 := assign_class (t_eq t) ei (nthc S i) S in
      let m1 := mark_class (t_eq t) ei marked in
      let S2 := assign_class (t_eq t) wi (wc_base (nthc S1 i)) S1 in
      let m2 := mark_class (t_eq t) wi m1 in
      constrain_loop rest t S2 m2
  end.
Definition constrain (t : triple) (S : list ascii) : list ascii :=
  constrain_loop (seq 0 (List.length S)) t S (repeat false (List.length S)).

(* constrain_single_fast(S,wc,eq,i): only positions after i *)
Fixpoint assign_after (eq : list Z) (v : Z) (c : ascii) (S : list ascii) (k i : nat) : list ascii :=
  match eq, S with
  | e :: er, s :: sr => (if Nat.ltb i k && Z.eqb e v then c else s) :: assign_after er v c sr (Datatypes.S k) i
  | _, _ => S
  end.
Definition constrain_single_fast (t : triple) (S : list ascii) (i : nat) : list ascii :=
  let S1 := assign_after (t_eq t) (nthz (t_eq t) i 0%Z) (nthc S i) S 0 i in
  assign_after (t_eq t) (nthz (t_wc t) i (-1)%Z) (wc_base (nthc S1 i)) S1 0 i.

(* mutate: position i (a free location), new base b (the oracle's choice among the template's other bases) *)
Definition mutate (t : triple) (S : list ascii) (i : nat) (b : ascii) : list ascii :=
  constrain_single_fast t (set_nth S i b) i.

Definition is_acgt (c : ascii) : bool := match char_base c with Some _ => true | None => false end.
Definition free_location (t : triple) (i : nat) : bool :=
  Z.eqb (nthz (t_eq t) i 0%Z) (Z.of_nat i + 1) &&
  (Z.ltb (Z.of_nat i + 1) (nthz (t_wc t) i (-1)%Z) || Z.eqb (nthz (t_wc t) i (-1)%Z) (-1)) &&
  negb (is_acgt (nthc (t_st t) i)).
Definition freeloc (t : triple) : list nat := filter (free_location t) (seq 0 (List.length (t_st t))).

(* test_consistency on (S, St, wc, eq): what a valid output is *)
Definition compatible (tc sc : ascii) : bool :=
  match group tc, char_base sc with Some g, Some b => bmem b g | _, _ => false end.
Definition valid_at (t : triple) (S : list ascii) (i : nat) : bool :=
  let s := nthc S i in let tc := nthc (t_st t) i in
  let e := nthz (t_eq t) i 0%Z in let w := nthz (t_wc t) i (-1)%Z in
  if Ascii.eqb tc blank then Ascii.eqb s blank
  else compatible tc s &&
       (Z.eqb e 0 || Ascii.eqb s (nthc S (Z.to_nat (e - 1)))) &&
       (Z.eqb w (-1) || Ascii.eqb s (wc_base (nthc S (Z.to_nat (w - 1))))).
Definition valid_output (t : triple) (S : list ascii) : bool :=
  Nat.eqb (List.length S) (List.length (t_st t)) && forallb (valid_at t S) (seq 0 (List.length S)).

(* ---- the search loop, abstractly ---- *)
Section Loop.
Variable state : Type.
Variable score_lt : state -> state -> bool.     (* strictly better *)
Variable score_le : state -> state -> bool.     (* new_score <= old_score *)
Variable propose : nat -> state -> state.       (* the mutation made at step n: oracle-driven *)
Variable bmax : nat.

(* while (bored < bmax) { mutate; if new<=old { if new<old bored=0 else bored++ ; keep } else { undo; bored++ } } *)
Fixpoint run (fuel : nat) (step : nat) (cur : state) (bored : nat) : option (state * nat) :=
  if Nat.leb bmax bored then Some (cur, step) else
  match fuel with
  | O => None
  | S f =>
      let nxt := propose step cur in
      if score_le nxt cur then
        (if score_lt nxt cur then run f (S step) nxt 0 else run f (S step) nxt (S bored))
      else run f (S step) cur (S bored)
  end.
End Loop.
