(* The spuriousSSM input contract (help text + test_consistency + load_input_files) as an
   executable predicate over the contents of the template / wc / eq files, and the
   0-based/None -> 1-based/0/-1/blank conversion of spurious_design.design. *)
From Coq Require Import List String Ascii Arith Bool ZArith Lia.
From PC Require Import Base.Codes.
Import ListNotations.
Local Open Scope Z_scope.

Definition eq_map (x : option nat) : Z := match x with Some i => Z.of_nat i + 1 | None => 0 end.
Definition wc_map (x : option nat) : Z := match x with Some i => Z.of_nat i + 1 | None => -1 end.
Definition st_map (x : option ascii) : ascii := match x with Some c => c | None => " "%char end.

Definition znth {A} (l : list A) (i : Z) (d : A) : A := nth (Z.to_nat i) l d.
Definition blank : ascii := " "%char.
(* C's WC() on template codes *)
Definition wc_code (c : ascii) : ascii := match compl_code c with Some x => x | None => blank end.

Definition pos_ok (eq wc : list Z) (st : list ascii) (n : Z) (i : Z) : bool :=
  let e := znth eq i 0 in let w := znth wc i (-1) in let t := znth st i blank in
  if Ascii.eqb t blank then (e =? 0) && (w =? -1)
  else
    (* 1-based, pointing at the lowest member, idempotent, same code *)
    (1 <=? e) && (e <=? i + 1) && (znth eq (e - 1) 0 =? e) && Ascii.eqb (znth st (e - 1) blank) t &&
    match group t with Some _ => true | None => false end &&
    ((w =? -1) ||
     ((1 <=? w) && (w <=? n) && (znth eq (w - 1) 0 =? w) && (znth wc (w - 1) (-1) =? e) &&
      Ascii.eqb (znth st (w - 1) blank) (wc_code t))).

Definition contract_ok (eq wc : list Z) (st : list ascii) : bool :=
  let n := Z.of_nat (List.length st) in
  (Z.of_nat (List.length eq) =? n) && (Z.of_nat (List.length wc) =? n) &&
  forallb (fun i => pos_ok eq wc st n (Z.of_nat i)) (seq 0 (List.length st)).
