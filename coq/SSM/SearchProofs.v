(* C19 (termination): the search loop of spuriousSSM, as repaired (score-neutral moves count as
   boring, a boredom limit is always in force), stops for EVERY sequence of random choices and
   every score function: lexicographic measure (number of sequences with a strictly better score,
   bmax - bored).  The score is any strict order on a finite universe of sequences. *)
From Coq Require Import List Arith Bool Lia.
From PC Require Import SSM.Search.
Import ListNotations.

Section Termination.
Variable state : Type.
Variable score_lt score_le : state -> state -> bool.
Variable propose : nat -> state -> state.
Variable bmax : nat.
Variable V : list state.                       (* all strings of the design's length over ACGT+blank *)
Hypothesis V_closed : forall n s, In s V -> In (propose n s) V.
Hypothesis lt_irrefl : forall s, score_lt s s = false.
Hypothesis lt_trans : forall a b c, score_lt a b = true -> score_lt b c = true -> score_lt a c = true.
Hypothesis lt_le_trans : forall v a b, score_lt v a = true -> score_le a b = true -> score_lt v b = true.

Definition rank (s : state) : nat := length (filter (fun v => score_lt v s) V).

Lemma filter_len_mono {A} (P Q : A -> bool) l : (forall x, In x l -> P x = true -> Q x = true) ->
  length (filter P l) <= length (filter Q l).
Proof. induction l as [|x l IH]; intros H; simpl; [lia|].
  assert (IH' := IH (fun y Hy => H y (or_intror Hy))).
  destruct (P x) eqn:Px.
  - rewrite (H x (or_introl eq_refl) Px). simpl. lia.
  - destruct (Q x); simpl; lia. Qed.
Lemma filter_len_strict {A} (P Q : A -> bool) l x : (forall y, In y l -> P y = true -> Q y = true) ->
  In x l -> Q x = true -> P x = false -> length (filter P l) < length (filter Q l).
Proof. induction l as [|y l IH]; intros H Hin Qx Px; [destruct Hin|]. simpl.
  destruct Hin as [<-|Hin].
  - rewrite Px, Qx. simpl. pose proof (filter_len_mono P Q l (fun z Hz => H z (or_intror Hz))). lia.
  - assert (IH' := IH (fun z Hz => H z (or_intror Hz)) Hin Qx Px).
    destruct (P y) eqn:Py.
    + rewrite (H y (or_introl eq_refl) Py). simpl. lia.
    + destruct (Q y); simpl; lia. Qed.

Lemma rank_strict s s' : In s' V -> score_lt s' s = true -> rank s' < rank s.
Proof. intros Hin Hlt. unfold rank. apply (filter_len_strict _ _ V s').
  - intros y _ Hy. apply (lt_trans y s' s Hy Hlt).
  - exact Hin.
  - exact Hlt.
  - apply lt_irrefl. Qed.
Lemma rank_neutral s s' : score_le s' s = true -> rank s' <= rank s.
Proof. intros Hle. unfold rank. apply filter_len_mono. intros y _ Hy. apply (lt_le_trans y s' s Hy Hle). Qed.
Lemma filter_len_le {A} (P : A -> bool) l : length (filter P l) <= length l.
Proof. induction l as [|x l IH]; simpl; [lia|]. destruct (P x); simpl; lia. Qed.
Lemma rank_bound s : rank s <= length V.
Proof. unfold rank. apply filter_len_le. Qed.

Definition measure (cur : state) (bored : nat) : nat := rank cur * bmax + (bmax - bored).

Theorem run_terminates : forall fuel step cur bored, In cur V -> measure cur bored <= fuel ->
  exists final n, run state score_lt score_le propose bmax fuel step cur bored = Some (final, n).
Proof. induction fuel as [|f IH]; intros step cur bored Hin Hm; cbn [run].
  - destruct (Nat.leb bmax bored) eqn:B; [eauto|]. apply Nat.leb_gt in B. unfold measure in Hm. lia.
  - destruct (Nat.leb bmax bored) eqn:B; [eauto|]. apply Nat.leb_gt in B.
    destruct (score_le (propose step cur) cur) eqn:LE.
    + destruct (score_lt (propose step cur) cur) eqn:LT.
      * apply IH; [apply V_closed, Hin|]. unfold measure in *.
        pose proof (rank_strict cur (propose step cur) (V_closed step cur Hin) LT) as R.
        assert (rank (propose step cur) * bmax + bmax <= rank cur * bmax).
        { replace (rank (propose step cur) * bmax + bmax) with ((rank (propose step cur) + 1) * bmax) by lia.
          apply Nat.mul_le_mono_r. lia. }
        lia.
      * apply IH; [apply V_closed, Hin|]. unfold measure in *.
        pose proof (rank_neutral cur (propose step cur) LE) as R.
        assert (rank (propose step cur) * bmax <= rank cur * bmax) by (apply Nat.mul_le_mono_r; exact R). lia.
    + apply IH; [exact Hin|]. unfold measure in *. lia. Qed.

(* explicit bound on the number of iterations, for every oracle: (|V| + 1) * bmax *)
Corollary search_terminates step cur : In cur V ->
  exists final n, run state score_lt score_le propose bmax ((length V + 1) * bmax) step cur 0 = Some (final, n).
Proof. intros Hin. apply run_terminates; [exact Hin|]. unfold measure.
  pose proof (rank_bound cur) as R. assert (rank cur * bmax <= length V * bmax) by (apply Nat.mul_le_mono_r; exact R). lia. Qed.
End Termination.

(* the same loop WITHOUT counting neutral moves (the code before the repair) can run forever:
   with one state and a constant score every move is neutral and bored never grows *)
Fixpoint run_old {state} (score_lt score_le : state -> state -> bool) (propose : nat -> state -> state) (bmax fuel step : nat)
                 (cur : state) (bored : nat) : option (state * nat) :=
  if Nat.leb bmax bored then Some (cur, step) else
  match fuel with
  | O => None
  | S f =>
      let nxt := propose step cur in
      if score_le nxt cur then
        (if score_lt nxt cur then run_old score_lt score_le propose bmax f (S step) nxt 0
         else run_old score_lt score_le propose bmax f (S step) nxt bored)
      else run_old score_lt score_le propose bmax f (S step) cur (S bored)
  end.
Theorem old_loop_diverges : forall fuel, run_old (fun _ _ : unit => false) (fun _ _ => true) (fun _ s => s) 1 fuel 0 tt 0 = None.
Proof. assert (G : forall fuel step, run_old (fun _ _ : unit => false) (fun _ _ => true) (fun _ s => s) 1 fuel step tt 0 = None).
  { induction fuel as [|f IH]; intros step; simpl; [reflexivity | apply IH]. }
  intros fuel. apply G. Qed.
