(* C19: constrain establishes, and mutate preserves, the validity of a sequence with respect to a
   consistent template / wc / eq triple; hence every sequence the search loop visits, and the one
   it prints, obeys the constraints. *)
From Coq Require Import List String Ascii Arith Bool ZArith Lia.
From PC Require Import Base.Codes Base.Tables SSM.Contract SSM.Search.
Import ListNotations.
Local Open Scope list_scope.

(* ---- pointwise view of the two array updates ---- *)
Lemma assign_class_length eq v c : forall sq, List.length (assign_class eq v c sq) = List.length sq.
Proof. induction eq as [|e er IH]; intros [|s sr]; simpl; auto. Qed.
Lemma assign_class_nth eq v c : forall sq j, List.length eq = List.length sq ->
  nthc (assign_class eq v c sq) j = if (j <? List.length sq) && Z.eqb (nthz eq j 0%Z) v then c else nthc sq j.
Proof. unfold nthc, nthz. induction eq as [|e er IH]; intros [|s sr] j L; simpl in L; try discriminate.
  - simpl. destruct j; reflexivity.
  - destruct j as [|j]; simpl; [destruct (Z.eqb e v); reflexivity|]. rewrite IH by lia.
    replace (S j <? S (List.length sr)) with (j <? List.length sr) by (destruct (Nat.ltb_spec j (List.length sr)), (Nat.ltb_spec (S j) (S (List.length sr))); auto; lia).
    reflexivity. Qed.
Lemma mark_class_length eq v : forall m, List.length (mark_class eq v m) = List.length m.
Proof. induction eq as [|e er IH]; intros [|b mr]; simpl; auto. Qed.
Lemma mark_class_nth eq v : forall m j, List.length eq = List.length m ->
  nth j (mark_class eq v m) false = ((j <? List.length m) && Z.eqb (nthz eq j 0%Z) v) || nth j m false.
Proof. unfold nthz. induction eq as [|e er IH]; intros [|b mr] j L; simpl in L; try discriminate.
  - simpl. destruct j; reflexivity.
  - destruct j as [|j]; simpl; [destruct (Z.eqb e v); reflexivity|]. rewrite IH by lia.
    replace (S j <? S (List.length mr)) with (j <? List.length mr) by (destruct (Nat.ltb_spec j (List.length mr)), (Nat.ltb_spec (S j) (S (List.length mr))); auto; lia).
    reflexivity. Qed.

(* ---- a consistent triple, as the contract states it (positions as nat, entries 1-based) ---- *)
Record consistent (t : triple) : Prop := {
  cs_len_wc : List.length (t_wc t) = List.length (t_st t);
  cs_len_eq : List.length (t_eq t) = List.length (t_st t);
  cs_blank : forall i, i < List.length (t_st t) -> nthc (t_st t) i = blank -> nthz (t_eq t) i 0%Z = 0%Z /\ nthz (t_wc t) i (-1)%Z = (-1)%Z;
  cs_eq : forall i, i < List.length (t_st t) -> nthc (t_st t) i <> blank ->
      exists e, nthz (t_eq t) i 0%Z = Z.of_nat (S e) /\ e <= i /\ nthz (t_eq t) e 0%Z = Z.of_nat (S e) /\ nthc (t_st t) e = nthc (t_st t) i /\
                group (nthc (t_st t) i) <> None;
  cs_wc : forall i, i < List.length (t_st t) -> nthc (t_st t) i <> blank -> nthz (t_wc t) i (-1)%Z <> (-1)%Z ->
      exists w, nthz (t_wc t) i (-1)%Z = Z.of_nat (S w) /\ w < List.length (t_st t) /\ nthz (t_eq t) w 0%Z = Z.of_nat (S w) /\
                nthz (t_wc t) w (-1)%Z = nthz (t_eq t) i 0%Z /\ nthc (t_st t) w = wc_code (nthc (t_st t) i) /\
                nthz (t_wc t) i (-1)%Z <> nthz (t_eq t) i 0%Z;
  cs_share : forall i e, i < List.length (t_st t) -> nthz (t_eq t) i 0%Z = Z.of_nat (S e) -> nthz (t_wc t) i (-1)%Z = nthz (t_wc t) e (-1)%Z }.

(* what a valid sequence is, position by position *)
Definition valid_pos (t : triple) (sq : list ascii) (i : nat) : Prop :=
  if Ascii.eqb (nthc (t_st t) i) blank then nthc sq i = blank
  else compatible (nthc (t_st t) i) (nthc sq i) = true /\
       (forall e, nthz (t_eq t) i 0%Z = Z.of_nat (S e) -> nthc sq i = nthc sq e) /\
       (forall w, nthz (t_wc t) i (-1)%Z = Z.of_nat (S w) -> nthc sq i = wc_base (nthc sq w)).

(* ---- characters ---- *)
Lemma compat_acgt tc c : compatible tc c = true -> exists b, char_base c = Some b.
Proof. unfold compatible. destruct (group tc); [|discriminate]. destruct (char_base c) as [b0|]; [eauto | discriminate]. Qed.
Lemma wc_base_acgt c b : char_base c = Some b -> wc_base c = base_char (bcompl b) /\ char_base (wc_base c) = Some (bcompl b).
Proof. assert (H : forall c, match char_base c with Some b => Ascii.eqb (wc_base c) (base_char (bcompl b)) | None => true end = true)
    by (apply ascii_forall; vm_compute; reflexivity).
  intros Hc. specialize (H c). rewrite Hc in H. apply Ascii.eqb_eq in H. split; [exact H|]. rewrite H. destruct b; reflexivity. Qed.
Lemma wc_base_invol c b : char_base c = Some b -> wc_base (wc_base c) = c.
Proof. intros H. destruct (wc_base_acgt c b H) as [E1 E2]. destruct (wc_base_acgt _ _ E2) as [E3 _]. rewrite E3.
  assert (X : forall c, match char_base c with Some b => Ascii.eqb (base_char b) c | None => true end = true)
    by (apply ascii_forall; vm_compute; reflexivity).
  specialize (X c). rewrite H in X. apply Ascii.eqb_eq in X. destruct b; exact X. Qed.
Lemma compat_wc tc c : compatible tc c = true -> compatible (wc_code tc) (wc_base c) = true.
Proof. assert (H : forall a b, (if compatible a b then compatible (wc_code a) (wc_base b) else true) = true)
    by (apply ascii_forall2; vm_compute; reflexivity).
  intros Hc. specialize (H tc c). rewrite Hc in H. exact H. Qed.
Lemma compat_not_blank tc c : compatible tc c = true -> tc <> blank /\ c <> blank.
Proof. assert (H : forall a b, (if compatible a b then negb (Ascii.eqb a blank) && negb (Ascii.eqb b blank) else true) = true)
    by (apply ascii_forall2; vm_compute; reflexivity).
  intros Hc. specialize (H tc c). rewrite Hc in H. apply andb_prop in H. destruct H as [A B].
  apply negb_true_iff in A, B. apply Ascii.eqb_neq in A, B. auto. Qed.
Lemma wc_code_not_blank tc : group tc <> None -> wc_code tc <> blank /\ group (wc_code tc) <> None.
Proof. assert (H : forall a, match group a with Some _ => negb (Ascii.eqb (wc_code a) blank) && match group (wc_code a) with Some _ => true | None => false end | None => true end = true)
    by (apply ascii_forall; vm_compute; reflexivity).
  intros G. specialize (H tc). destruct (group tc); [|contradiction]. apply andb_prop in H. destruct H as [A B].
  apply negb_true_iff, Ascii.eqb_neq in A. split; [exact A|]. destruct (group (wc_code tc)); [discriminate | discriminate]. Qed.

Lemma assign_after_length eq v c i : forall sq k, List.length (assign_after eq v c sq k i) = List.length sq.
Proof. induction eq as [|e er IH]; intros [|s sr] k; simpl; auto. Qed.
Lemma assign_after_nth eq v c i : forall sq k j, List.length eq = List.length sq ->
  nthc (assign_after eq v c sq k i) j =
  if (j <? List.length sq) && (i <? k + j) && Z.eqb (nthz eq j 0%Z) v then c else nthc sq j.
Proof. unfold nthc, nthz. induction eq as [|e er IH]; intros [|s sr] k j L; simpl in L; try discriminate.
  - simpl. destruct j; reflexivity.
  - destruct j as [|j]; cbn [assign_after nth List.length].
    + rewrite Nat.add_0_r. simpl. destruct (Nat.ltb i k), (Z.eqb e v); reflexivity.
    + rewrite IH by lia. replace (S k + j) with (k + S j) by lia.
      replace (S j <? S (List.length sr)) with (j <? List.length sr) by (destruct (Nat.ltb_spec j (List.length sr)), (Nat.ltb_spec (S j) (S (List.length sr))); auto; lia).
      reflexivity. Qed.
Lemma set_nth_length {A} (x : A) : forall l i, List.length (set_nth l i x) = List.length l.
Proof. induction l as [|y l IH]; intros [|i]; simpl; auto. Qed.
Lemma set_nth_nthc l : forall i j c, i < List.length l -> nthc (set_nth l i c) j = if Nat.eqb j i then c else nthc l j.
Proof. unfold nthc. induction l as [|y l IH]; intros [|i] [|j] c L; simpl in *; try lia; auto. apply IH. lia. Qed.

Definition valid_all (t : triple) (sq : list ascii) : Prop :=
  List.length sq = List.length (t_st t) /\ forall j, j < List.length (t_st t) -> valid_pos t sq j.

Section Facts.
Variable t : triple.
Hypothesis C : consistent t.
Let n := List.length (t_st t).

Lemma nonblank_eqb i : nthc (t_st t) i <> blank -> Ascii.eqb (nthc (t_st t) i) blank = false.
Proof. intros H. apply Ascii.eqb_neq, H. Qed.

(* the class facts of a non-blank position *)
Lemma class_facts j : j < n -> nthc (t_st t) j <> blank ->
  exists e, nthz (t_eq t) j 0%Z = Z.of_nat (S e) /\ e <= j /\ nthz (t_eq t) e 0%Z = Z.of_nat (S e) /\
            nthc (t_st t) e = nthc (t_st t) j /\ group (nthc (t_st t) j) <> None /\
            nthz (t_wc t) j (-1)%Z = nthz (t_wc t) e (-1)%Z.
Proof. intros L NB. destruct (cs_eq t C j L NB) as [e [E1 [E2 [E3 [E4 E5]]]]]. exists e. repeat split; auto.
  apply (cs_share t C j e L E1). Qed.

Lemma blank_iff_eq0 j : j < n -> (nthc (t_st t) j = blank <-> nthz (t_eq t) j 0%Z = 0%Z).
Proof. intros L. split; [intros H; apply (cs_blank t C j L H)|].
  intros H. destruct (Ascii.eqb_spec (nthc (t_st t) j) blank) as [E|NE]; [exact E|].
  destruct (cs_eq t C j L NE) as [e [E1 _]]. rewrite E1 in H. lia. Qed.
End Facts.

(* ---- mutate preserves validity ---- *)
Theorem mutate_valid t sq i b : consistent t -> valid_all t sq -> i < List.length (t_st t) ->
  free_location t i = true -> compatible (nthc (t_st t) i) b = true -> valid_all t (mutate t sq i b).
Proof. intros C [LEN V] Li FR CB. set (n := List.length (t_st t)) in *.
  pose proof (cs_len_eq t C) as LE. pose proof (cs_len_wc t C) as LW. fold n in LE, LW.
  unfold free_location in FR. apply andb_prop in FR. destruct FR as [FR _]. apply andb_prop in FR. destruct FR as [FE FW].
  apply Z.eqb_eq in FE.
  assert (NBi : nthc (t_st t) i <> blank) by (apply (compat_not_blank _ _ CB)).
  destruct (compat_acgt _ _ CB) as [bb Hbb].
  (* pointwise description of the result *)
  assert (PT : forall j, j < n -> nthc (mutate t sq i b) j =
     if (i <? j) && Z.eqb (nthz (t_eq t) j 0%Z) (nthz (t_wc t) i (-1)%Z) then wc_base b
     else if (i <? j) && Z.eqb (nthz (t_eq t) j 0%Z) (nthz (t_eq t) i 0%Z) then b
     else if Nat.eqb j i then b else nthc sq j).
  { intros j Lj. unfold mutate, constrain_single_fast.
    assert (L1 : List.length (t_eq t) = List.length (set_nth sq i b)) by (rewrite set_nth_length; lia).
    assert (L2 : List.length (t_eq t) = List.length (assign_after (t_eq t) (nthz (t_eq t) i 0%Z) (nthc (set_nth sq i b) i) (set_nth sq i b) 0 i))
      by (rewrite assign_after_length; exact L1).
    rewrite (assign_after_nth _ _ _ _ _ 0 j L2), assign_after_length, set_nth_length, LEN. cbn [Nat.add].
    assert (Lt : (j <? n) = true) by (apply Nat.ltb_lt; exact Lj). rewrite Lt. cbn [andb].
    rewrite !(assign_after_nth _ _ _ _ _ 0 _ L1), set_nth_length, LEN. cbn [Nat.add].
    rewrite Lt, Nat.ltb_irrefl. cbn [andb].
    assert (Li' : (i <? n) = true) by (apply Nat.ltb_lt; exact Li). rewrite Li'. cbn [andb].
    rewrite !set_nth_nthc by lia. rewrite Nat.eqb_refl. reflexivity. }
  split; [unfold mutate, constrain_single_fast; rewrite !assign_after_length, set_nth_length; exact LEN|].
  intros j Lj. unfold valid_pos. pose proof (V j Lj) as Vj. unfold valid_pos in Vj.
  destruct (Ascii.eqb (nthc (t_st t) j) blank) eqn:BJ.
  - (* blank *) apply Ascii.eqb_eq in BJ. destruct (cs_blank t C j Lj BJ) as [E0 _].
    rewrite (PT j Lj), E0, FE.
    assert (X1 : Z.eqb 0 (Z.of_nat i + 1) = false) by (apply Z.eqb_neq; lia). rewrite X1, andb_false_r.
    assert (X2 : Z.eqb 0 (nthz (t_wc t) i (-1)%Z) = false).
    { apply orb_prop in FW. destruct FW as [FW|FW]; [apply Z.ltb_lt in FW; apply Z.eqb_neq; lia | apply Z.eqb_eq in FW; rewrite FW; reflexivity]. }
    rewrite X2, andb_false_r.
    assert (X3 : Nat.eqb j i = false) by (apply Nat.eqb_neq; intros ->; contradiction). rewrite X3. exact Vj.
  - apply Ascii.eqb_neq in BJ. destruct Vj as [VC [VE VW]].
    destruct (class_facts t C j Lj BJ) as [ej [J1 [J2 [J3 [J4 [J5 J6]]]]]].
    destruct (class_facts t C i Li NBi) as [ei [I1 [I2 [I3 [I4 [I5 I6]]]]]].
    assert (EI : ei = i) by lia. subst ei.
    assert (PTe : forall x, x < n -> nthz (t_eq t) x 0%Z <> nthz (t_wc t) i (-1)%Z -> nthz (t_eq t) x 0%Z <> nthz (t_eq t) i 0%Z ->
                   nthc (mutate t sq i b) x = nthc sq x).
    { intros x Lx A1 A2. rewrite (PT x Lx). apply Z.eqb_neq in A1. rewrite A1, andb_false_r.
      pose proof A2 as A2'. apply Z.eqb_neq in A2. rewrite A2, andb_false_r.
      destruct (Nat.eqb_spec x i) as [->|_]; [contradiction | reflexivity]. }
    assert (PTi : nthc (mutate t sq i b) i = b).
    { rewrite (PT i Li), Nat.ltb_irrefl, Nat.eqb_refl. reflexivity. }
    assert (WI : forall w, nthz (t_wc t) i (-1)%Z = Z.of_nat (S w) -> i < w /\ w < n /\ nthz (t_eq t) w 0%Z = Z.of_nat (S w) /\
                           nthz (t_wc t) w (-1)%Z = nthz (t_eq t) i 0%Z /\ nthc (t_st t) w = wc_code (nthc (t_st t) i) /\
                           nthc (mutate t sq i b) w = wc_base b).
    { intros w Hw. assert (WN : nthz (t_wc t) i (-1)%Z <> (-1)%Z) by lia.
      destruct (cs_wc t C i Li NBi WN) as [w0 [W1 [W2 [W3 [W4 [W5 W6]]]]]].
      assert (w0 = w) by lia. subst w0.
      assert (IW : i < w). { apply orb_prop in FW. destruct FW as [FW|FW]; [apply Z.ltb_lt in FW; lia | apply Z.eqb_eq in FW; lia]. }
      repeat split; auto. rewrite (PT w W2). apply Nat.ltb_lt in IW. rewrite IW, W3, Hw, Z.eqb_refl. reflexivity. }
    rewrite (PT j Lj).
    destruct (Z.eqb_spec (nthz (t_eq t) j 0%Z) (nthz (t_wc t) i (-1)%Z)) as [Q2|N2].
    + (* j lies in the class paired with i's *)
      assert (Hw : nthz (t_wc t) i (-1)%Z = Z.of_nat (S ej)) by lia.
      destruct (WI ej Hw) as [IW [W2 [W3 [W4 [W5 W6]]]]].
      assert (IJ : (i <? j) = true) by (apply Nat.ltb_lt; lia). rewrite IJ. cbn [andb].
      split; [|split].
      * rewrite <- J4, W5. apply compat_wc, CB.
      * intros e He. assert (e = ej) by lia. subst e. rewrite W6. reflexivity.
      * intros w' Hw'. rewrite J6, W4, I1 in Hw'. assert (w' = i) by lia. subst w'. rewrite PTi. reflexivity.
    + rewrite andb_false_r.
      destruct (Z.eqb_spec (nthz (t_eq t) j 0%Z) (nthz (t_eq t) i 0%Z)) as [Q1|N1].
      * (* j lies in i's class *)
        assert (ej = i) by lia. subst ej.
        assert (VAL : (if (i <? j) && true then b else if Nat.eqb j i then b else nthc sq j) = b).
        { destruct (Nat.ltb_spec i j); cbn [andb]; [reflexivity|]. assert (j = i) by lia. subst j. rewrite Nat.eqb_refl. reflexivity. }
        rewrite VAL. split; [|split].
        -- rewrite <- J4. exact CB.
        -- intros e He. assert (e = i) by lia. subst e. rewrite PTi. reflexivity.
        -- intros w' Hw'. rewrite J6 in Hw'. destruct (WI w' Hw') as [_ [_ [_ [_ [_ W6]]]]]. rewrite W6.
           symmetry. apply (wc_base_invol b bb Hbb).
      * (* j is not touched *)
        rewrite andb_false_r. assert (JI : j <> i) by (intros ->; contradiction).
        apply Nat.eqb_neq in JI. rewrite JI. split; [exact VC | split].
        -- intros e He. assert (e = ej) by lia. subst e. rewrite (PTe ej ltac:(lia)); [apply VE, He | rewrite J3, <- J1; exact N2 | rewrite J3, <- J1; exact N1].
        -- intros w' Hw'. assert (WN : nthz (t_wc t) j (-1)%Z <> (-1)%Z) by lia.
           destruct (cs_wc t C j Lj BJ WN) as [w [W1 [W2 [W3 [W4 [W5 W6]]]]]]. assert (w = w') by lia. subst w.
           rewrite (PTe w' W2); [apply VW, Hw'| |].
           ++ intros Q. rewrite W3, <- W1 in Q. assert (WNi : nthz (t_wc t) i (-1)%Z <> (-1)%Z) by lia.
              destruct (cs_wc t C i Li NBi WNi) as [wi [X1 [X2 [X3 [X4 _]]]]]. assert (wi = w') by lia. subst wi.
              apply N1. rewrite <- W4, <- X4. reflexivity.
           ++ intros Q. rewrite W3, I1 in Q. assert (w' = i) by lia. subst w'. apply N2. rewrite <- W4. reflexivity. Qed.

(* ---- constrain establishes validity ---- *)
Definition in_templates (t : triple) (sq : list ascii) : Prop :=
  List.length sq = List.length (t_st t) /\
  forall j, j < List.length (t_st t) ->
    if Ascii.eqb (nthc (t_st t) j) blank then nthc sq j = blank else compatible (nthc (t_st t) j) (nthc sq j) = true.

Record cinv (t : triple) (sq : list ascii) (m : list bool) : Prop := {
  ci_len : List.length m = List.length (t_st t);
  ci_tmpl : in_templates t sq;
  ci_valid : forall j, j < List.length (t_st t) -> nth j m false = true -> valid_pos t sq j;
  ci_class : forall j x, j < List.length (t_st t) -> x < List.length (t_st t) -> nth j m false = true ->
      nthz (t_eq t) x 0%Z = nthz (t_eq t) j 0%Z -> nth x m false = true;
  ci_pair : forall j x, j < List.length (t_st t) -> x < List.length (t_st t) -> nth j m false = true ->
      nthz (t_wc t) j (-1)%Z <> (-1)%Z -> nthz (t_eq t) x 0%Z = nthz (t_wc t) j (-1)%Z -> nth x m false = true }.

Lemma constrain_step t sq m i : consistent t -> cinv t sq m -> i < List.length (t_st t) -> nth i m false = false ->
  let ei := nthz (t_eq t) i 0%Z in let wi := nthz (t_wc t) i (-1)%Z in
  let S1 := assign_class (t_eq t) ei (nthc sq i) sq in
  let m1 := mark_class (t_eq t) ei m in
  let S2 := assign_class (t_eq t) wi (wc_base (nthc S1 i)) S1 in
  let m2 := mark_class (t_eq t) wi m1 in
  cinv t S2 m2 /\ nth i m2 false = true /\ (forall j, nth j m false = true -> nth j m2 false = true).
Proof. intros C [ML [SL TM] VA CL PA] Li Mi. cbv zeta. set (n := List.length (t_st t)) in *.
  pose proof (cs_len_eq t C) as LE. pose proof (cs_len_wc t C) as LW. fold n in LE, LW.
  set (ei := nthz (t_eq t) i 0%Z). set (wi := nthz (t_wc t) i (-1)%Z). set (c := nthc sq i).
  set (S1 := assign_class (t_eq t) ei c sq). set (m1 := mark_class (t_eq t) ei m).
  assert (L1 : List.length S1 = n) by (unfold S1; rewrite assign_class_length; exact SL).
  assert (S1i : nthc S1 i = c).
  { unfold S1. rewrite assign_class_nth by lia. fold ei. rewrite Z.eqb_refl, andb_true_r. destruct (i <? List.length sq); reflexivity. }
  rewrite S1i. set (S2 := assign_class (t_eq t) wi (wc_base c) S1). set (m2 := mark_class (t_eq t) wi m1).
  assert (PS : forall j, j < n -> nthc S2 j = if Z.eqb (nthz (t_eq t) j 0%Z) wi then wc_base c
                                              else if Z.eqb (nthz (t_eq t) j 0%Z) ei then c else nthc sq j).
  { intros j Lj. unfold S2. rewrite assign_class_nth by lia. rewrite L1. assert (X : (j <? n) = true) by (apply Nat.ltb_lt; exact Lj).
    rewrite X. cbn [andb]. unfold S1. rewrite assign_class_nth by lia. rewrite SL, X. reflexivity. }
  assert (PM : forall j, j < n -> nth j m2 false = Z.eqb (nthz (t_eq t) j 0%Z) wi || (Z.eqb (nthz (t_eq t) j 0%Z) ei || nth j m false)).
  { intros j Lj. unfold m2. rewrite mark_class_nth by (unfold m1; rewrite mark_class_length; lia).
    unfold m1 at 1. rewrite mark_class_length, ML. assert (X : (j <? n) = true) by (apply Nat.ltb_lt; exact Lj). rewrite X. cbn [andb].
    unfold m1. rewrite mark_class_nth by lia. rewrite ML, X. reflexivity. }
  assert (MI : nth i m2 false = true) by (rewrite (PM i Li); fold ei; rewrite Z.eqb_refl, orb_true_r; reflexivity).
  assert (MONO : forall j, nth j m false = true -> nth j m2 false = true).
  { intros j Hj. destruct (Nat.lt_ge_cases j n) as [Lj|Gj]; [rewrite (PM j Lj), Hj, !orb_true_r; reflexivity|].
    rewrite nth_overflow in Hj by lia. discriminate. }
  split; [|split; [exact MI | exact MONO]].
  (* the two cases: i is a separator, or i is a nucleotide position *)
  destruct (Ascii.eqb_spec (nthc (t_st t) i) blank) as [Bi|NBi].
  - (* separator: nothing changes except that all separators are now marked *)
    destruct (cs_blank t C i Li Bi) as [E0 W0]. fold ei in E0. fold wi in W0.
    assert (ci : c = blank). { pose proof (TM i Li) as T. rewrite Bi, Ascii.eqb_refl in T. exact T. }
    assert (SAME : forall j, j < n -> nthc S2 j = nthc sq j).
    { intros j Lj. rewrite (PS j Lj), W0, E0.
      assert (X : Z.eqb (nthz (t_eq t) j 0%Z) (-1) = false).
      { apply Z.eqb_neq. destruct (Ascii.eqb_spec (nthc (t_st t) j) blank) as [Bj|NBj];
          [rewrite (proj1 (cs_blank t C j Lj Bj)); lia | destruct (cs_eq t C j Lj NBj) as [e [Q _]]; rewrite Q; lia]. }
      rewrite X. destruct (Z.eqb_spec (nthz (t_eq t) j 0%Z) 0) as [Q|_]; [|reflexivity].
      apply (blank_iff_eq0 t C j Lj) in Q. pose proof (TM j Lj) as T. rewrite Q, Ascii.eqb_refl in T. rewrite T, ci. reflexivity. }
    assert (VP : forall j, j < n -> valid_pos t sq j -> valid_pos t S2 j).
    { intros j Lj Vj. unfold valid_pos in *. destruct (Ascii.eqb (nthc (t_st t) j) blank) eqn:BJ; [rewrite (SAME j Lj); exact Vj|].
      apply Ascii.eqb_neq in BJ. destruct Vj as [V1 [V2 V3]]. rewrite (SAME j Lj). split; [exact V1 | split].
      - intros e He. destruct (cs_eq t C j Lj BJ) as [e0 [Q1 [Q2 _]]]. assert (e = e0) by lia. subst e0. rewrite (SAME e ltac:(lia)). apply V2, He.
      - intros w Hw. assert (WN : nthz (t_wc t) j (-1)%Z <> (-1)%Z) by lia. destruct (cs_wc t C j Lj BJ WN) as [w0 [Q1 [Q2 _]]].
        assert (w = w0) by lia. subst w0. rewrite (SAME w Q2). apply V3, Hw. }
    constructor.
    + unfold m2, m1. rewrite !mark_class_length. exact ML.
    + split; [unfold S2; rewrite assign_class_length; exact L1|]. intros j Lj. rewrite (SAME j Lj). apply TM, Lj.
    + intros j Lj Hj. rewrite (PM j Lj), W0, E0 in Hj.
      destruct (Z.eqb_spec (nthz (t_eq t) j 0%Z) 0) as [Q|_].
      * apply (blank_iff_eq0 t C j Lj) in Q. unfold valid_pos. rewrite Q, Ascii.eqb_refl, (SAME j Lj).
        pose proof (TM j Lj) as T. rewrite Q, Ascii.eqb_refl in T. exact T.
      * assert (X : Z.eqb (nthz (t_eq t) j 0%Z) (-1) = false).
        { apply Z.eqb_neq. destruct (Ascii.eqb_spec (nthc (t_st t) j) blank) as [Bj|NBj];
            [rewrite (proj1 (cs_blank t C j Lj Bj)); lia | destruct (cs_eq t C j Lj NBj) as [e [Q _]]; rewrite Q; lia]. }
        rewrite X in Hj. cbn [orb] in Hj. apply (VP j Lj), (VA j Lj Hj).
    + intros j x Lj Lx Hj Q. rewrite (PM x Lx), Q. rewrite (PM j Lj) in Hj.
      destruct (Z.eqb (nthz (t_eq t) j 0%Z) wi); [reflexivity|]. destruct (Z.eqb (nthz (t_eq t) j 0%Z) ei); [rewrite orb_true_r; reflexivity|].
      cbn [orb] in Hj |- *. apply (CL j x Lj Lx Hj Q).
    + intros j x Lj Lx Hj WN Q. rewrite (PM j Lj), W0, E0 in Hj.
      assert (X : Z.eqb (nthz (t_eq t) j 0%Z) (-1) = false).
      { apply Z.eqb_neq. destruct (Ascii.eqb_spec (nthc (t_st t) j) blank) as [Bj|NBj];
          [rewrite (proj1 (cs_blank t C j Lj Bj)); lia | destruct (cs_eq t C j Lj NBj) as [e [Q' _]]; rewrite Q'; lia]. }
      rewrite X in Hj. cbn [orb] in Hj.
      destruct (Z.eqb_spec (nthz (t_eq t) j 0%Z) 0) as [Q0|_].
      * apply (blank_iff_eq0 t C j Lj) in Q0. destruct (cs_blank t C j Lj Q0) as [_ W]. contradiction.
      * cbn [orb] in Hj. apply MONO, (PA j x Lj Lx Hj WN Q).
  - (* nucleotide position: its class takes c, the paired class its complement *)
    destruct (class_facts t C i Li NBi) as [e [I1 [I2 [I3 [I4 [I5 I6]]]]]]. fold ei in I1. fold wi in I6.
    pose proof (TM i Li) as Tc. rewrite (proj2 (Ascii.eqb_neq _ _) NBi) in Tc. fold c in Tc.
    destruct (compat_acgt _ _ Tc) as [bb Hbb].
    assert (WF : wi <> (-1)%Z -> exists w, wi = Z.of_nat (S w) /\ w < n /\ nthz (t_eq t) w 0%Z = Z.of_nat (S w) /\
                   nthz (t_wc t) w (-1)%Z = ei /\ nthc (t_st t) w = wc_code (nthc (t_st t) i) /\ wi <> ei).
    { intros WN. destruct (cs_wc t C i Li NBi WN) as [w [W1 [W2 [W3 [W4 [W5 W6]]]]]]. exists w. repeat split; assumption. }
    assert (NB_of_eq : forall x, x < n -> nthz (t_eq t) x 0%Z <> 0%Z -> nthc (t_st t) x <> blank).
    { intros x Lx H B. apply H. apply (cs_blank t C x Lx B). }
    assert (UE : forall x, x < n -> nthz (t_eq t) x 0%Z = ei -> nth x m false = false).
    { intros x Lx Q. destruct (nth x m false) eqn:Mx; [|reflexivity]. rewrite (CL x i Lx Li Mx (eq_sym Q)) in Mi. discriminate. }
    assert (UP : forall x, x < n -> wi <> (-1)%Z -> nthz (t_eq t) x 0%Z = wi -> nth x m false = false).
    { intros x Lx WN Q. destruct (nth x m false) eqn:Mx; [|reflexivity]. exfalso.
      destruct (WF WN) as [w [W1 [W2 [W3 [W4 [W5 W6]]]]]].
      assert (NBx : nthc (t_st t) x <> blank) by (apply (NB_of_eq x Lx); lia).
      destruct (class_facts t C x Lx NBx) as [ex [X1 [X2 [X3 [X4 [X5 X6]]]]]]. assert (ex = w) by lia. subst ex.
      assert (WX : nthz (t_wc t) x (-1)%Z = ei) by (rewrite X6; exact W4).
      rewrite (PA x i Lx Li Mx ltac:(rewrite WX, I1; lia) ltac:(rewrite WX; reflexivity)) in Mi. discriminate. }
    assert (S2e : nthc S2 e = c).
    { rewrite (PS e ltac:(lia)), I3, <- I1. destruct (Z.eqb_spec ei wi) as [Q|_]; [|rewrite Z.eqb_refl; reflexivity].
      exfalso. assert (WN : wi <> (-1)%Z) by lia. destruct (WF WN) as [w [_ [_ [_ [_ [_ W6]]]]]]. apply W6. symmetry. exact Q. }
    constructor.
    + unfold m2, m1. rewrite !mark_class_length. exact ML.
    + split; [unfold S2; rewrite assign_class_length; exact L1|]. intros j Lj. rewrite (PS j Lj). pose proof (TM j Lj) as Tj.
      destruct (Ascii.eqb_spec (nthc (t_st t) j) blank) as [Bj|NBj].
      * destruct (cs_blank t C j Lj Bj) as [E0 _]. rewrite E0.
        assert (X1 : Z.eqb 0 wi = false).
        { apply Z.eqb_neq. intros Q. assert (WN : wi <> (-1)%Z) by lia. destruct (WF WN) as [w [W1 _]]. lia. }
        assert (X2 : Z.eqb 0 ei = false) by (apply Z.eqb_neq; lia). rewrite X1, X2. exact Tj.
      * destruct (class_facts t C j Lj NBj) as [ej [J1 [J2 [J3 [J4 [J5 J6]]]]]].
        destruct (Z.eqb_spec (nthz (t_eq t) j 0%Z) wi) as [Q2|N2].
        -- assert (WN : wi <> (-1)%Z) by lia. destruct (WF WN) as [w [W1 [W2 [W3 [W4 [W5 W6]]]]]]. assert (ej = w) by lia. subst ej.
           rewrite <- J4, W5. apply compat_wc, Tc.
        -- destruct (Z.eqb_spec (nthz (t_eq t) j 0%Z) ei) as [Q1|N1]; [|exact Tj].
           assert (ej = e) by lia. subst ej. rewrite <- J4, I4. exact Tc.
    + intros j Lj Hj. rewrite (PM j Lj) in Hj. unfold valid_pos. rewrite (PS j Lj).
      destruct (Ascii.eqb_spec (nthc (t_st t) j) blank) as [Bj|NBj].
      * destruct (cs_blank t C j Lj Bj) as [E0 _]. rewrite E0.
        assert (X1 : Z.eqb 0 wi = false).
        { apply Z.eqb_neq. intros Q. assert (WN : wi <> (-1)%Z) by lia. destruct (WF WN) as [w [W1 _]]. lia. }
        assert (X2 : Z.eqb 0 ei = false) by (apply Z.eqb_neq; lia). rewrite X1, X2.
        pose proof (TM j Lj) as Tj. rewrite Bj, Ascii.eqb_refl in Tj. exact Tj.
      * destruct (class_facts t C j Lj NBj) as [ej [J1 [J2 [J3 [J4 [J5 J6]]]]]].
        destruct (Z.eqb_spec (nthz (t_eq t) j 0%Z) wi) as [Q2|N2].
        -- (* j in the paired class *)
           assert (WN : wi <> (-1)%Z) by lia. destruct (WF WN) as [w [W1 [W2 [W3 [W4 [W5 W6]]]]]]. assert (ej = w) by lia. subst ej.
           split; [rewrite <- J4, W5; apply compat_wc, Tc | split].
           ++ intros e' He'. assert (e' = w) by lia. subst e'. rewrite (PS w W2), W3, <- W1, Z.eqb_refl. reflexivity.
           ++ intros w' Hw'. rewrite J6, W4, I1 in Hw'. assert (w' = e) by lia. subst w'. rewrite S2e. reflexivity.
        -- destruct (Z.eqb_spec (nthz (t_eq t) j 0%Z) ei) as [Q1|N1].
           ++ (* j in i's class *)
              assert (ej = e) by lia. subst ej. split; [rewrite <- J4, I4; exact Tc | split].
              ** intros e' He'. assert (e' = e) by lia. subst e'. rewrite S2e. reflexivity.
              ** intros w' Hw'. rewrite J6, <- I6 in Hw'. assert (WN : wi <> (-1)%Z) by lia.
                 destruct (WF WN) as [w [W1 [W2 [W3 [W4 [W5 W6]]]]]]. assert (w' = w) by lia. subst w'.
                 rewrite (PS w W2), W3, <- W1, Z.eqb_refl. symmetry. apply (wc_base_invol c bb Hbb).
           ++ (* j was marked before *)
              cbn [orb] in Hj. pose proof (VA j Lj Hj) as Vj. unfold valid_pos in Vj.
              rewrite (proj2 (Ascii.eqb_neq _ _) NBj) in Vj. destruct Vj as [V1 [V2 V3]].
              split; [exact V1 | split].
              ** intros e' He'. assert (e' = ej) by lia. subst e'. rewrite (PS ej ltac:(lia)), J3, <- J1.
                 apply Z.eqb_neq in N2, N1. rewrite N2, N1. apply V2, He'.
              ** intros w' Hw'. assert (WNj : nthz (t_wc t) j (-1)%Z <> (-1)%Z) by lia.
                 destruct (cs_wc t C j Lj NBj WNj) as [wj [Y1 [Y2 [Y3 [Y4 [Y5 Y6]]]]]]. assert (w' = wj) by lia. subst w'.
                 assert (Mw : nth wj m false = true) by (apply (PA j wj Lj Y2 Hj WNj); rewrite Y3, Y1; reflexivity).
                 rewrite (PS wj Y2).
                 destruct (Z.eqb_spec (nthz (t_eq t) wj 0%Z) wi) as [R2|_].
                 { assert (WN : wi <> (-1)%Z) by lia. rewrite (UP wj Y2 WN R2) in Mw. discriminate. }
                 destruct (Z.eqb_spec (nthz (t_eq t) wj 0%Z) ei) as [R1|_]; [rewrite (UE wj Y2 R1) in Mw; discriminate|].
                 apply V3, Hw'.
    + intros j x Lj Lx Hj Q. rewrite (PM x Lx), Q. rewrite (PM j Lj) in Hj.
      destruct (Z.eqb (nthz (t_eq t) j 0%Z) wi); [reflexivity|]. destruct (Z.eqb (nthz (t_eq t) j 0%Z) ei); [rewrite orb_true_r; reflexivity|].
      cbn [orb] in Hj |- *. apply (CL j x Lj Lx Hj Q).
    + intros j x Lj Lx Hj WNj Q. rewrite (PM j Lj) in Hj. rewrite (PM x Lx).
      assert (NBj : nthc (t_st t) j <> blank).
      { intros B. destruct (cs_blank t C j Lj B) as [_ W]. contradiction. }
      destruct (class_facts t C j Lj NBj) as [ej [J1 [J2 [J3 [J4 [J5 J6]]]]]].
      destruct (Z.eqb_spec (nthz (t_eq t) j 0%Z) wi) as [Q2|N2].
      * assert (WN : wi <> (-1)%Z) by lia. destruct (WF WN) as [w [W1 [W2 [W3 [W4 [W5 W6]]]]]]. assert (ej = w) by lia. subst ej.
        rewrite Q, J6, W4, Z.eqb_refl, orb_true_r. reflexivity.
      * destruct (Z.eqb_spec (nthz (t_eq t) j 0%Z) ei) as [Q1|N1].
        -- assert (ej = e) by lia. subst ej. rewrite Q, J6, <- I6, Z.eqb_refl. reflexivity.
        -- cbn [orb] in Hj. rewrite (PA j x Lj Lx Hj WNj Q), !orb_true_r. reflexivity. Qed.

Lemma constrain_loop_inv t : consistent t -> forall idx sq m, (forall i, In i idx -> i < List.length (t_st t)) -> cinv t sq m ->
  exists m', cinv t (constrain_loop idx t sq m) m' /\ (forall j, nth j m false = true -> nth j m' false = true) /\
             (forall i, In i idx -> nth i m' false = true).
Proof. intros C. induction idx as [|i idx IH]; intros sq m HI I.
  - exists m. simpl. split; [exact I | split; [auto | intros i []]].
  - cbn [constrain_loop]. assert (HI' : forall x, In x idx -> x < List.length (t_st t)) by (intros x Hx; apply HI; right; exact Hx).
    destruct (nth i m false) eqn:Mi.
    + destruct (IH sq m HI' I) as [m' [A [B D]]]. exists m'. split; [exact A | split; [exact B|]].
      intros x [<-|Hx]; [apply B, Mi | apply D, Hx].
    + destruct (constrain_step t sq m i C I (HI i (or_introl eq_refl)) Mi) as [I2 [M2 MONO]]. cbv zeta in I2, M2, MONO.
      destruct (IH _ _ HI' I2) as [m' [A [B D]]]. exists m'. split; [exact A | split].
      * intros j Hj. apply B, MONO, Hj.
      * intros x [<-|Hx]; [apply B, M2 | apply D, Hx]. Qed.

Lemma nth_repeat_false k j : nth j (repeat false k) false = false.
Proof. revert j. induction k as [|k IH]; intros [|j]; simpl; auto. Qed.

(* whatever sequence within the templates the search starts from, constrain makes it valid *)
Theorem constrain_valid t sq : consistent t -> in_templates t sq -> valid_all t (constrain t sq).
Proof. intros C T. unfold constrain. destruct T as [SL TM].
  assert (I0 : cinv t sq (repeat false (List.length sq))).
  { constructor.
    - rewrite repeat_length. exact SL.
    - split; assumption.
    - intros j _ H. rewrite nth_repeat_false in H. discriminate.
    - intros j x _ _ H. rewrite nth_repeat_false in H. discriminate.
    - intros j x _ _ H. rewrite nth_repeat_false in H. discriminate. }
  destruct (constrain_loop_inv t C (seq 0 (List.length sq)) sq _ ltac:(intros i Hi; apply in_seq in Hi; lia) I0) as [m' [[ML [SL' TM'] VA _ _] [_ ALL]]].
  split; [exact SL'|]. intros j Lj. apply (VA j Lj), ALL, in_seq. lia. Qed.

Lemma valid_in_templates t sq : valid_all t sq -> in_templates t sq.
Proof. intros [L V]. split; [exact L|]. intros j Lj. specialize (V j Lj). unfold valid_pos in V.
  destruct (Ascii.eqb (nthc (t_st t) j) blank); [exact V | apply V]. Qed.

(* ---- every sequence the search visits is valid, hence the one it prints ---- *)
Lemma run_preserves {state} (P : state -> Prop) score_lt score_le propose bmax :
  (forall k s, P s -> P (propose k s)) ->
  forall fuel step cur bored s' k', P cur -> run state score_lt score_le propose bmax fuel step cur bored = Some (s', k') -> P s'.
Proof. intros HP. induction fuel as [|f IH]; intros step cur bored s' k' Pc H; simpl in H.
  - destruct (Nat.leb bmax bored); [inversion H; subst; exact Pc | discriminate].
  - destruct (Nat.leb bmax bored); [inversion H; subst; exact Pc|].
    destruct (score_le (propose step cur) cur).
    + destruct (score_lt (propose step cur) cur); apply (IH _ _ _ _ _ (HP step cur Pc) H).
    + apply (IH _ _ _ _ _ Pc H). Qed.

(* the search of spuriousSSM: start = constrain of a sequence within the templates, each step mutates
   a free location to a base of its template (whatever the random choices pos / base are), the result
   is constrained once more and printed *)
Theorem search_output_valid t sq0 (pos : nat -> list ascii -> nat) (base : nat -> list ascii -> ascii) score_lt score_le bmax fuel s' k' :
  consistent t -> in_templates t sq0 ->
  (forall k s, pos k s < List.length (t_st t) /\ free_location t (pos k s) = true /\ compatible (nthc (t_st t) (pos k s)) (base k s) = true) ->
  run (list ascii) score_lt score_le (fun k s => mutate t s (pos k s) (base k s)) bmax fuel 0 (constrain t sq0) 0 = Some (s', k') ->
  valid_all t s' /\ valid_all t (constrain t s').
Proof. intros C T HO H.
  assert (V : valid_all t s').
  { apply (run_preserves (valid_all t) score_lt score_le (fun k s => mutate t s (pos k s) (base k s)) bmax) with (fuel := fuel) (step := 0) (cur := constrain t sq0) (bored := 0) (k' := k'); [|apply constrain_valid; assumption | exact H].
    intros k s Vs. destruct (HO k s) as [A [B D]]. apply mutate_valid; assumption. }
  split; [exact V | apply constrain_valid; [exact C | apply valid_in_templates, V]]. Qed.

(* ---- the executable predicates used on the real files and the real output ---- *)
Lemma valid_all_output t sq : consistent t -> valid_all t sq -> valid_output t sq = true.
Proof. intros C [L V]. unfold valid_output. rewrite L, Nat.eqb_refl. cbn [andb]. apply forallb_forall. intros i Hi. apply in_seq in Hi.
  assert (Li : i < List.length (t_st t)) by lia. specialize (V i Li). unfold valid_pos in V. unfold valid_at.
  destruct (Ascii.eqb (nthc (t_st t) i) blank) eqn:B; [rewrite V; reflexivity|].
  apply Ascii.eqb_neq in B. destruct V as [V1 [V2 V3]]. rewrite V1. cbn [andb].
  destruct (cs_eq t C i Li B) as [e [E1 _]]. rewrite E1.
  replace (Z.to_nat (Z.of_nat (S e) - 1)) with e by lia. rewrite <- (V2 e E1), Ascii.eqb_refl, orb_true_r. cbn [andb].
  destruct (Z.eqb_spec (nthz (t_wc t) i (-1)%Z) (-1)) as [Q|N]; [reflexivity|].
  destruct (cs_wc t C i Li B N) as [w [W1 _]]. rewrite W1.
  replace (Z.to_nat (Z.of_nat (S w) - 1)) with w by lia. rewrite <- (V3 w W1), Ascii.eqb_refl. reflexivity. Qed.

Definition zi (l : list Z) (i : Z) (d : Z) : Z := nthz l (Z.to_nat i) d.
Definition triple_pos (t : triple) (n : nat) (i : nat) : bool :=
  let tc := nthc (t_st t) i in let e := nthz (t_eq t) i 0%Z in let w := nthz (t_wc t) i (-1)%Z in
  if Ascii.eqb tc blank then Z.eqb e 0 && Z.eqb w (-1)
  else Z.leb 1 e && Z.leb e (Z.of_nat i + 1) && Z.eqb (zi (t_eq t) (e - 1) 0%Z) e &&
       Ascii.eqb (nthc (t_st t) (Z.to_nat (e - 1))) tc && (match group tc with Some _ => true | None => false end) &&
       Z.eqb w (zi (t_wc t) (e - 1) (-1)%Z) &&
       (Z.eqb w (-1) ||
        (Z.leb 1 w && Z.leb w (Z.of_nat n) && Z.eqb (zi (t_eq t) (w - 1) 0%Z) w && Z.eqb (zi (t_wc t) (w - 1) (-1)%Z) e &&
         Ascii.eqb (nthc (t_st t) (Z.to_nat (w - 1))) (wc_code tc) && negb (Z.eqb w e))).
Definition triple_ok (t : triple) : bool :=
  let n := List.length (t_st t) in
  Nat.eqb (List.length (t_wc t)) n && Nat.eqb (List.length (t_eq t)) n && forallb (triple_pos t n) (seq 0 n).

Theorem triple_ok_consistent t : triple_ok t = true -> consistent t.
Proof. unfold triple_ok. intros H. apply andb_prop in H. destruct H as [H H3]. apply andb_prop in H. destruct H as [H1 H2].
  apply Nat.eqb_eq in H1, H2. rewrite forallb_forall in H3.
  assert (P : forall i, i < List.length (t_st t) -> triple_pos t (List.length (t_st t)) i = true) by (intros i Hi; apply H3, in_seq; lia).
  constructor; [exact H1 | exact H2 | | | |].
  - intros i Li B. specialize (P i Li). unfold triple_pos in P. rewrite B, Ascii.eqb_refl in P. apply andb_prop in P. destruct P as [A1 A2].
    apply Z.eqb_eq in A1, A2. auto.
  - intros i Li B. specialize (P i Li). unfold triple_pos in P. rewrite (proj2 (Ascii.eqb_neq _ _) B) in P.
    repeat (apply andb_prop in P; destruct P as [P ?]).
    repeat match goal with H : Z.leb _ _ = true |- _ => apply Z.leb_le in H | H : Z.eqb _ _ = true |- _ => apply Z.eqb_eq in H | H : Ascii.eqb _ _ = true |- _ => apply Ascii.eqb_eq in H end.
    exists (Z.to_nat (nthz (t_eq t) i 0%Z - 1)). unfold zi in *.
    assert (EQ : nthz (t_eq t) i 0%Z = Z.of_nat (S (Z.to_nat (nthz (t_eq t) i 0%Z - 1)))) by lia.
    split; [exact EQ | split; [lia | split; [rewrite <- EQ; assumption | split; [assumption|]]]].
    destruct (group (nthc (t_st t) i)); [discriminate | discriminate].
  - intros i Li B WN. specialize (P i Li). unfold triple_pos in P. rewrite (proj2 (Ascii.eqb_neq _ _) B) in P.
    apply andb_prop in P. destruct P as [_ P]. apply orb_prop in P. destruct P as [P|P]; [apply Z.eqb_eq in P; contradiction|].
    repeat (apply andb_prop in P; destruct P as [P ?]).
    repeat match goal with H : Z.leb _ _ = true |- _ => apply Z.leb_le in H | H : Z.eqb _ _ = true |- _ => apply Z.eqb_eq in H | H : Ascii.eqb _ _ = true |- _ => apply Ascii.eqb_eq in H | H : negb _ = true |- _ => apply negb_true_iff, Z.eqb_neq in H end.
    exists (Z.to_nat (nthz (t_wc t) i (-1)%Z - 1)). unfold zi in *.
    assert (EQ : nthz (t_wc t) i (-1)%Z = Z.of_nat (S (Z.to_nat (nthz (t_wc t) i (-1)%Z - 1)))) by lia.
    split; [exact EQ | split; [lia | split; [rewrite <- EQ; assumption | split; [assumption | split; [assumption | assumption]]]]].
  - intros i e Li HE. specialize (P i Li). unfold triple_pos in P.
    destruct (Ascii.eqb (nthc (t_st t) i) blank) eqn:B.
    + apply andb_prop in P. destruct P as [A1 _]. apply Z.eqb_eq in A1. lia.
    + apply andb_prop in P. destruct P as [P _]. apply andb_prop in P. destruct P as [_ P]. apply Z.eqb_eq in P.
      unfold zi in P. rewrite HE in P. replace (Z.to_nat (Z.of_nat (S e) - 1)) with e in P by lia. exact P. Qed.

(* non-vacuity: a 4+3+4 hairpin with a templated loop is a consistent triple; constrain repairs an
   arbitrary start within the templates *)
Definition demo_triple : triple :=
  {| t_st := ["N"; "S"; "N"; "N"; "W"; "A"; "N"; "N"; "N"; "S"; "N"]%char;
     t_wc := [11; 10; 9; 8; -1; -1; -1; 4; 3; 2; 1]%Z;
     t_eq := [1; 2; 3; 4; 5; 6; 7; 8; 9; 10; 11]%Z |}.
Example demo_triple_ok : triple_ok demo_triple = true /\
  constrain demo_triple ["A"; "C"; "G"; "T"; "A"; "A"; "C"; "C"; "C"; "C"; "C"]%char = ["A"; "C"; "G"; "T"; "A"; "A"; "C"; "A"; "C"; "G"; "T"]%char.
Proof. split; vm_compute; reflexivity. Qed.

(* a valid sequence has the input length, its blanks coincide with the template's, and every base lies
   in its template's set *)
Theorem valid_shape t sq : valid_all t sq -> List.length sq = List.length (t_st t) /\
  forall j, j < List.length (t_st t) ->
    (nthc sq j = blank <-> nthc (t_st t) j = blank) /\
    (nthc (t_st t) j <> blank -> compatible (nthc (t_st t) j) (nthc sq j) = true).
Proof. intros [L V]. split; [exact L|]. intros j Lj. specialize (V j Lj). unfold valid_pos in V.
  destruct (Ascii.eqb_spec (nthc (t_st t) j) blank) as [B|NB].
  - split; [split; auto | intros H; contradiction].
  - destruct V as [V1 _]. split; [|intros _; exact V1]. split; [|intros H; contradiction].
    intros H. exfalso. apply (proj2 (compat_not_blank _ _ V1)). exact H. Qed.
