(* Model of finish.apply_design (C06, C17): assigning designed sequences from the record
   table of the .mfe file (kinetics.read_design: the last record for a name wins) to the saved
   system, with its length / complement / structure-sequence assertions, and of the .seqs
   and strands-to-order contents finish.finish writes. *)
From Coq Require Import List String Ascii Arith Bool.
From PC Require Import Base.Codes Comp.Syntax Comp.Compile Sys.System.
Import ListNotations.
Local Open Scope string_scope.
Local Open Scope list_scope.

Definition table := string -> option (list ascii).
Fixpoint table_of (records : list (string * list ascii)) (k : string) : option (list ascii) :=
  match records with
  | [] => None
  | (n, v) :: r => match table_of r k with Some x => Some x | None => if String.eqb n k then Some v else None end
  end.

Fixpoint chars_eqb (a b : list ascii) : bool :=
  match a, b with
  | [], [] => true
  | x :: a', y :: b' => Ascii.eqb x y && chars_eqb a' b'
  | _, _ => false
  end.

(* finish.py uses DNA_classes.wc on the designed string *)
Definition base_value (t : table) (full : string) (b : bseq) : res (list ascii) :=
  if Nat.eqb (b_len b) 0 then OK [] else
  match t full with
  | None => Err "missing-record"
  | Some v =>
      if negb (Nat.eqb (List.length v) (b_len b)) then Err "length" else
      match wc_codes v with
      | None => Err "alphabet"
      | Some w => match t (full +++ "*") with
                  | Some w' => if chars_eqb w w' then OK v else Err "complement"
                  | None => Err "missing-record"
                  end
      end
  end.

Fixpoint base_values (t : table) (prefix : string) (bs : list (string * bseq)) : res (list (string * list ascii)) :=
  match bs with
  | [] => OK []
  | (n, b) :: r => do v <- base_value t (prefix +++ n) b; do rest <- base_values t prefix r; OK ((n, v) :: rest)
  end.

Definition bref_value (vals : list (string * list ascii)) (x : bref) : list ascii :=
  match afind vals (fst x) with
  | Some v => if snd x then match wc_codes v with Some w => w | None => [] end else v
  | None => []
  end.
Definition brefs_value (vals : list (string * list ascii)) (l : list bref) : list ascii := flat_map (bref_value vals) l.

Fixpoint join_plus_chars (ls : list (list ascii)) : list ascii :=
  match ls with [] => [] | [x] => x | x :: r => x ++ "+"%char :: join_plus_chars r end.

Record finished := { fi_seqs : list (string * list ascii); fi_strands : list (string * bool * list ascii);
                     fi_structs : list (string * list ascii) }.

Definition apply_comp (t : table) (c : comp) : res finished :=
  do vals <- base_values t (c_prefix c) (c_bases c);
  let sups := map (fun '(n, s) => (n, brefs_value vals (s_base s))) (c_sups c) in
  let strands := map (fun '(n, st) => (n, t_dummy st, brefs_value vals (s_base (t_sup st)))) (c_strands c) in
  do structs <- (fix go (us : list (string * struc)) : res (list (string * list ascii)) :=
      match us with
      | [] => OK []
      | (n, u) :: r =>
          let v := join_plus_chars (map (fun sn => match afind (map (fun x => (fst (fst x), snd x)) strands) sn with Some x => x | None => [] end) (u_strands u)) in
          match t (c_prefix c +++ n) with
          | Some v' => if chars_eqb v v' then do rest <- go r; OK ((c_prefix c +++ n, v) :: rest) else Err "inconsistent-structure"
          | None => Err "missing-record"
          end
      end) (c_structs c);
  OK {| fi_seqs := map (fun '(n, v) => (c_prefix c +++ n, v)) (vals ++ sups);
        fi_strands := map (fun '(n, d, v) => (c_prefix c +++ n, d, v)) strands;
        fi_structs := structs |}.

Fixpoint apply_obj (fuel : nat) (t : table) (o : obj) : res finished :=
  match fuel with
  | O => Err "fuel"
  | S f =>
      match o with
      | OComp c => apply_comp t c
      | OSys _ comps _ _ _ _ =>
          (fix go (cs : list (string * obj)) : res finished :=
             match cs with
             | [] => OK {| fi_seqs := []; fi_strands := []; fi_structs := [] |}
             | (_, sub) :: r =>
                 do a <- apply_obj f t sub; do b <- go r;
                 OK {| fi_seqs := fi_seqs a ++ fi_seqs b; fi_strands := fi_strands a ++ fi_strands b;
                       fi_structs := fi_structs a ++ fi_structs b |}
             end) comps
      end
  end.
