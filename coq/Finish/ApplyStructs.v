(* C06, "the .seqs file lists every structure": what finishing returns for the structures of a component - one entry per
   structure, in declaration order, under its full name; its string is the '+'-joined strings of its strands and equals the
   record the design file holds for it. *)
From Coq Require Import List String Ascii Arith Bool.
From PC Require Import Base.Codes Comp.Syntax Comp.Compile Finish.Apply.
Import ListNotations.
Local Open Scope list_scope.

Theorem apply_comp_structs t c f : apply_comp t c = OK f ->
  map fst (fi_structs f) = map (fun nu => c_prefix c +++ fst nu) (c_structs c) /\
  (forall n v, In (n, v) (fi_structs f) -> exists v', t n = Some v' /\ chars_eqb v v' = true) /\
  map fst (fi_strands f) = map (fun nt => (c_prefix c +++ fst nt, t_dummy (snd nt))) (c_strands c).
Proof. unfold apply_comp. destruct (base_values t (c_prefix c) (c_bases c)) as [vals|]; [|discriminate]. cbn [bind].
  set (strands := map (fun '(n, st) => (n, t_dummy st, brefs_value vals (s_base (t_sup st)))) (c_strands c)).
  match goal with |- (do structs <- ?G (c_structs c); _) = _ -> _ => set (go := G) end.
  assert (GO : forall us r, go us = OK r -> map fst r = map (fun nu => c_prefix c +++ fst nu) us /\
                forall n v, In (n, v) r -> exists v', t n = Some v' /\ chars_eqb v v' = true).
  { induction us as [|[n u] us IH]; intros r H; simpl in H; [inversion H; subst; split; [reflexivity | intros ? ? []]|].
    destruct (t (c_prefix c +++ n)) as [v'|] eqn:T; [|discriminate]. 
    match type of H with (if chars_eqb ?v v' then _ else _) = _ => destruct (chars_eqb v v') eqn:E; [|discriminate]; set (vv := v) in * end.
    destruct (go us) as [rest|] eqn:R; [|discriminate]. cbn [bind] in H. inversion H; subst r. destruct (IH rest eq_refl) as [A B].
    split; [simpl; rewrite A; reflexivity|]. intros n0 v0 [Q|Hin]; [inversion Q; subst; eauto | apply (B n0 v0 Hin)]. }
  destruct (go (c_structs c)) as [structs|] eqn:G; [|discriminate]. cbn [bind]. intros H. inversion H; subst f. cbn [fi_structs fi_strands].
  destruct (GO _ _ G) as [A B]. split; [exact A | split; [exact B|]].
  unfold strands. rewrite !map_map. apply map_ext. intros [n st]. reflexivity. Qed.
