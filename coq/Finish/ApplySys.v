(* C17 for whole systems: finishing a (nested) system applies every leaf component; a refused base record of any
   component refuses the whole run, and records no leaf looks at do not matter. *)
From Coq Require Import List String Ascii Arith Bool.
From PC Require Import Base.Sexp Base.Codes Comp.Syntax Comp.Compile Finish.Apply Finish.ApplyProofs Sys.System Sys.DesSys Design.SysFinish.
Import ListNotations.
Local Open Scope list_scope.

Lemma base_values_err t prefix bs n b k : In (n, b) bs -> base_value t (prefix +++ n) b = Err k -> exists k', base_values t prefix bs = Err k'.
Proof. induction bs as [|[m c] bs IH]; intros Hin E; [destruct Hin|]. cbn [base_values]. destruct Hin as [H|H].
  - inversion H; subst. rewrite E. cbn [bind]. eauto.
  - destruct (base_value t (prefix +++ m) c) as [v|k0]; [|cbn [bind]; eauto]. cbn [bind]. destruct (IH H E) as [k' E']. rewrite E'. cbn [bind]. eauto. Qed.

Theorem apply_comp_refuses t c n b k : In (n, b) (c_bases c) -> base_value t (c_prefix c +++ n) b = Err k -> exists k', apply_comp t c = Err k'.
Proof. intros Hin E. unfold apply_comp. destruct (base_values_err t (c_prefix c) (c_bases c) n b k Hin E) as [k' E']. rewrite E'. cbn [bind]. eauto. Qed.

(* finishing a system succeeds only if every leaf component finishes *)
Theorem apply_obj_ok_leaves t : forall f o r, apply_obj f t o = OK r -> forall c, In c (leaves f o) -> exists rc, apply_comp t c = OK rc.
Proof. induction f as [|f IH]; intros o r H c Hc; [destruct Hc|]. destruct o as [c0|p comps sigs lens i oo]; cbn [apply_obj leaves] in *.
  - destruct Hc as [<-|[]]. eauto.
  - revert r H Hc. induction comps as [|[cn sub] comps IHc]; intros r H Hc; [destruct Hc|]. cbn [flat_map snd] in Hc.
    destruct (apply_obj f t sub) as [ra|ka] eqn:Ea; [|discriminate]. cbn [bind] in H.
    match type of H with (do b <- ?g; _) = _ => destruct g as [rb|kb] eqn:Eb; [|discriminate] end.
    apply in_app_or in Hc. destruct Hc as [Hc|Hc]; [apply (IH sub ra Ea c Hc) | apply (IHc rb eq_refl Hc)]. Qed.

(* a changed, mismatching or missing record of any base sequence of any instance refuses the whole run *)
Theorem apply_obj_refuses t f o c n b k : In c (leaves f o) -> In (n, b) (c_bases c) -> base_value t (c_prefix c +++ n) b = Err k ->
  forall r, apply_obj f t o <> OK r.
Proof. intros Hc Hin E r H. destruct (apply_obj_ok_leaves t f o r H c Hc) as [rc Ec]. destruct (apply_comp_refuses t c n b k Hin E) as [k' E']. congruence. Qed.

(* records that no leaf component looks at do not matter *)
Theorem apply_obj_ext t t' : forall f o, (forall c, In c (leaves f o) -> apply_comp t c = apply_comp t' c) -> apply_obj f t o = apply_obj f t' o.
Proof. induction f as [|f IH]; intros o H; [reflexivity|]. destruct o as [c|p comps sigs lens i oo]; cbn [apply_obj leaves] in *.
  - apply H. left. reflexivity.
  - induction comps as [|[cn sub] comps IHc]; [reflexivity|]. cbn [flat_map snd] in H.
    rewrite (IH sub (fun c Hc => H c (in_or_app _ _ _ (or_introl Hc)))), (IHc (fun c Hc => H c (in_or_app _ _ _ (or_intror Hc)))). reflexivity. Qed.
