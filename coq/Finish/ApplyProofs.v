(* C17 / C06 proofs on the finish model (component level). *)
From Coq Require Import List String Ascii Arith Bool Lia.
From PC Require Import Base.Codes Base.TablesGen Base.Tables Comp.Syntax Comp.Compile Comp.EmitProofs Sys.System Finish.Apply.
Import ListNotations.
Local Open Scope list_scope.

Lemma chars_eqb_eq a : forall b, chars_eqb a b = true <-> a = b.
Proof. induction a as [|x a IH]; intros [|y b]; simpl; split; intros H; try discriminate; try reflexivity.
  - apply andb_prop in H. destruct H as [H1 H2]. apply Ascii.eqb_eq in H1. apply IH in H2. subst. reflexivity.
  - inversion H; subst. rewrite Ascii.eqb_refl. simpl. apply IH. reflexivity. Qed.

(* what a successful base pass guarantees: every non-empty base sequence takes the record's
   string, of the right length, over A C G T (and degenerate codes), and the starred record is
   its reverse complement *)
Theorem base_values_spec t prefix : forall bs vals, base_values t prefix bs = OK vals ->
  map fst vals = map fst bs /\
  forall n b, In (n, b) bs -> exists v, In (n, v) vals /\
    (b_len b = 0 -> v = []) /\
    (b_len b <> 0 -> t (prefix +++ n) = Some v /\ List.length v = b_len b /\
       exists w, wc_codes v = Some w /\ t ((prefix +++ n) +++ "*") = Some w).
Proof. induction bs as [|[n0 b0] bs IH]; intros vals H; simpl in H.
  - inversion H; subst. split; [reflexivity | intros n b []].
  - destruct (base_value t (prefix +++ n0) b0) as [v0|] eqn:V; [|discriminate]. simpl in H.
    destruct (base_values t prefix bs) as [rest|] eqn:R; [|discriminate]. simpl in H. inversion H; subst.
    destruct (IH rest eq_refl) as [A B]. split; [simpl; f_equal; exact A|].
    intros n b [Hin|Hin].
    + inversion Hin; subst. exists v0. split; [left; reflexivity|]. unfold base_value in V.
      destruct (Nat.eqb (b_len b) 0) eqn:Z.
      * inversion V; subst. split; [reflexivity|]. intros Hne. apply Nat.eqb_eq in Z. congruence.
      * apply Nat.eqb_neq in Z. split; [intros; congruence|]. intros _.
        destruct (t (prefix +++ n)) as [v|]; [|discriminate].
        destruct (Nat.eqb (List.length v) (b_len b)) eqn:L; simpl in V; [|discriminate].
        destruct (wc_codes v) as [w|] eqn:Wc; [|discriminate].
        destruct (t ((prefix +++ n) +++ "*")) as [w'|] eqn:T2; [|discriminate].
        destruct (chars_eqb w w') eqn:Q; [|discriminate]. inversion V; subst.
        apply chars_eqb_eq in Q. subst. split; [reflexivity|]. split; [apply Nat.eqb_eq, L|].
        exists w'. split; [exact Wc | reflexivity].
    + destruct (B n b Hin) as [v [Hv C]]. exists v. split; [right; exact Hv | exact C]. Qed.

(* the outputs depend only on the records consulted: two tables that agree on every base
   sequence name, its starred name and every structure name give the same result *)
Lemma base_values_ext t t' prefix : forall bs,
  (forall n b, In (n, b) bs -> t (prefix +++ n) = t' (prefix +++ n) /\ t ((prefix +++ n) +++ "*") = t' ((prefix +++ n) +++ "*")) ->
  base_values t prefix bs = base_values t' prefix bs.
Proof. induction bs as [|[n b] bs IH]; intros H; simpl; [reflexivity|].
  destruct (H n b (or_introl eq_refl)) as [A B]. unfold base_value. rewrite A, B.
  rewrite IH; [reflexivity | intros m c Hm; apply (H m c); right; exact Hm]. Qed.

Theorem apply_comp_ext t t' c :
  (forall n b, In (n, b) (c_bases c) -> t (c_prefix c +++ n) = t' (c_prefix c +++ n) /\
                                        t ((c_prefix c +++ n) +++ "*") = t' ((c_prefix c +++ n) +++ "*")) ->
  (forall n u, In (n, u) (c_structs c) -> t (c_prefix c +++ n) = t' (c_prefix c +++ n)) ->
  apply_comp t c = apply_comp t' c.
Proof. intros HB HS. unfold apply_comp. rewrite (base_values_ext t t' (c_prefix c) (c_bases c) HB).
  destruct (base_values t' (c_prefix c) (c_bases c)) as [vals|]; [|reflexivity]. simpl.
  match goal with |- bind (?F1 (c_structs c)) _ = bind (?F2 (c_structs c)) _ => assert (E : F1 (c_structs c) = F2 (c_structs c)) end.
  { revert HS. generalize (c_structs c) as us. induction us as [|[n u] us IH]; intros HS; [reflexivity|].
    rewrite (HS n u (or_introl eq_refl)). destruct (t' (c_prefix c +++ n)); [|reflexivity].
    destruct (chars_eqb _ l); [|reflexivity]. rewrite IH; [reflexivity | intros m v Hm; apply (HS m v); right; exact Hm]. }
  rewrite E. reflexivity. Qed.

(* reverse complement is injective on strings it is defined on (from the C11 algebra) *)
Lemma wc_codes_inj a b w : wc_codes a = Some w -> wc_codes b = Some w -> a = b.
Proof. intros Ha Hb. apply wc_involutive in Ha. apply wc_involutive in Hb. congruence. Qed.

(* a changed base-sequence record is refused: with the starred record unchanged, no other
   string passes the length and complement assertions *)
Theorem changed_base_record_refused t full b v v' w :
  b_len b <> 0 -> t full = Some v' -> t (full +++ "*") = Some w ->
  wc_codes v = Some w -> v' <> v -> exists k, base_value t full b = Err k.
Proof. intros Hl T1 T2 Wv Hne. unfold base_value. apply Nat.eqb_neq in Hl. rewrite Hl, T1.
  destruct (negb (Nat.eqb (List.length v') (b_len b))); [eauto|].
  destruct (wc_codes v') as [w2|] eqn:W2; [|eauto]. rewrite T2.
  destruct (chars_eqb w2 w) eqn:Q; [|eauto]. apply chars_eqb_eq in Q. subst w2.
  exfalso. apply Hne. apply (wc_codes_inj v' v w W2 Wv). Qed.
(* ... and so is a changed starred record *)
Theorem changed_star_record_refused t full b v w w' :
  b_len b <> 0 -> t full = Some v -> List.length v = b_len b -> wc_codes v = Some w ->
  t (full +++ "*") = Some w' -> w' <> w -> exists k, base_value t full b = Err k.
Proof. intros Hl T1 L Wv T2 Hne. unfold base_value. apply Nat.eqb_neq in Hl. rewrite Hl, T1.
  apply Nat.eqb_eq in L. rewrite L. simpl. rewrite Wv, T2.
  destruct (chars_eqb w w') eqn:Q; [|eauto]. apply chars_eqb_eq in Q. congruence. Qed.
(* a missing record is refused *)
Theorem missing_base_record_refused t full b : b_len b <> 0 -> (t full = None \/ t (full +++ "*") = None) -> exists k, base_value t full b = Err k.
Proof. intros Hl H. unfold base_value. apply Nat.eqb_neq in Hl. rewrite Hl. destruct (t full) as [v|]; [|eauto].
  destruct (negb _); [eauto|]. destruct (wc_codes v); [|eauto]. destruct H as [H|H]; [discriminate|]. rewrite H. eauto. Qed.

(* every super-sequence and strand of a finished component is the concatenation of its base
   sequences' values (reverse complemented where the base reference is starred) *)
Theorem apply_comp_concatenations t c f : apply_comp t c = OK f ->
  exists vals, base_values t (c_prefix c) (c_bases c) = OK vals /\
    (forall n s, In (n, s) (c_sups c) -> In (c_prefix c +++ n, brefs_value vals (s_base s)) (fi_seqs f)) /\
    (forall n st, In (n, st) (c_strands c) -> In (c_prefix c +++ n, t_dummy st, brefs_value vals (s_base (t_sup st))) (fi_strands f)) /\
    (forall n v, In (n, v) vals -> In (c_prefix c +++ n, v) (fi_seqs f)).
Proof. unfold apply_comp. destruct (base_values t (c_prefix c) (c_bases c)) as [vals|] eqn:B; [|discriminate]. simpl.
  match goal with |- context [bind ?X _] => destruct X as [structs|]; [|discriminate] end. simpl.
  intros H. inversion H; subst. clear H. exists vals. split; [reflexivity|]. simpl. split; [|split].
  - intros n s Hin. apply in_map_iff. exists (n, brefs_value vals (s_base s)). split; [reflexivity|].
    apply in_or_app. right. apply in_map_iff. exists (n, s). auto.
  - intros n st Hin. apply in_map_iff. exists (n, t_dummy st, brefs_value vals (s_base (t_sup st))). split; [reflexivity|].
    apply in_map_iff. exists (n, st). auto.
  - intros n v Hin. apply in_map_iff. exists (n, v). split; [reflexivity|]. apply in_or_app. left. exact Hin. Qed.

(* ---- a sufficient condition for finishing to succeed (component level) ---- *)
Lemma base_value_ok t full b v w : b_len b <> 0 -> t full = Some v -> List.length v = b_len b ->
  wc_codes v = Some w -> t (full +++ "*") = Some w -> base_value t full b = OK v.
Proof. intros Z T L Wc T2. unfold base_value. apply Nat.eqb_neq in Z. rewrite Z, T.
  assert (E : Nat.eqb (List.length v) (b_len b) = true) by (apply Nat.eqb_eq; exact L). rewrite E. simpl. rewrite Wc, T2.
  assert (Q : chars_eqb w w = true) by (apply chars_eqb_eq; reflexivity). rewrite Q. reflexivity. Qed.

Lemma base_values_complete t prefix : forall bs,
  (forall n b, In (n, b) bs -> b_len b <> 0 -> exists v w, t (prefix +++ n) = Some v /\ List.length v = b_len b /\
       wc_codes v = Some w /\ t ((prefix +++ n) +++ "*") = Some w) ->
  exists vals, base_values t prefix bs = OK vals.
Proof. induction bs as [|[n b] bs IH]; intros H; simpl; [eauto|].
  destruct (IH (fun n' b' Hin => H n' b' (or_intror Hin))) as [rest R]. rewrite R.
  destruct (Nat.eq_dec (b_len b) 0) as [Z|Z].
  - unfold base_value. apply Nat.eqb_eq in Z. rewrite Z. simpl. eauto.
  - destruct (H n b (or_introl eq_refl) Z) as [v [w [A [B [C D]]]]]. rewrite (base_value_ok t _ b v w Z A B C D). simpl. eauto. Qed.

(* if the design file holds, for every non-empty base sequence, a record of the declared length together with its
   reverse complement under the starred name, and for every structure the '+'-join of its strands as finish itself
   assembles them, then finishing succeeds *)
Theorem apply_comp_complete t c :
  (forall n b, In (n, b) (c_bases c) -> b_len b <> 0 -> exists v w, t (c_prefix c +++ n) = Some v /\ List.length v = b_len b /\
       wc_codes v = Some w /\ t ((c_prefix c +++ n) +++ "*") = Some w) ->
  (forall vals, base_values t (c_prefix c) (c_bases c) = OK vals ->
     forall n u, In (n, u) (c_structs c) ->
       t (c_prefix c +++ n) = Some (join_plus_chars (map (fun sn =>
           match afind (map (fun x => (fst (fst x), snd x))
                            (map (fun '(n0, st) => (n0, t_dummy st, brefs_value vals (s_base (t_sup st)))) (c_strands c))) sn with
           | Some x => x | None => [] end) (u_strands u)))) ->
  exists f, apply_comp t c = OK f.
Proof. intros HB HS. unfold apply_comp. destruct (base_values_complete t (c_prefix c) (c_bases c) HB) as [vals V]. rewrite V. cbn [bind].
  specialize (HS vals V).
  match goal with |- context [bind (?G (c_structs c)) _] => assert (X : exists r, G (c_structs c) = OK r) end.
  { revert HS. generalize (c_structs c) as us. induction us as [|[n u] us IH]; intros HS; [eauto|].
    rewrite (HS n u (or_introl eq_refl)).
    match goal with |- context [chars_eqb ?a ?a] => assert (Q : chars_eqb a a = true) by (apply chars_eqb_eq; reflexivity); rewrite Q end.
    destruct (IH (fun n' u' H' => HS n' u' (or_intror H'))) as [r R]. rewrite R. simpl. eauto. }
  destruct X as [r R]. rewrite R. simpl. eauto. Qed.
