(* Character-level model of var_substitute.process_list (C13): comment stripping, line
   termination, `length` definitions, leftmost <expression> replacement, recursive
   first-brace duplication, blank-line dropping.  Python's eval is not modelled: the
   expressions of the integer subset (+ - * // % unary minus, parentheses, names) arrive
   as ASTs keyed by their source text (the harness that generated the text supplies them);
   an expression text without AST is an explicit Unsupported result, never an agreement. *)
From Coq Require Import List String Ascii Arith Bool ZArith.
From PC Require Import Base.Sexp.
Import ListNotations.
Local Open Scope list_scope.

Definition text := list ascii.

Inductive expr := ENum (z : Z) | EVar (n : string) | ENeg (a : expr)
  | EAdd (a b : expr) | ESub (a b : expr) | EMul (a b : expr) | EDiv (a b : expr) | EMod (a b : expr).

Definition env := list (string * Z).
Fixpoint lookup (e : env) (n : string) : option Z :=
  match e with [] => None | (k, v) :: r => if String.eqb k n then Some v else lookup r n end.
(* params[name] = val : later definitions shadow earlier ones and the declared parameters *)
Definition bindv (e : env) (n : string) (v : Z) : env := (n, v) :: e.

Fixpoint eval (e : env) (x : expr) : option Z :=
  match x with
  | ENum z => Some z
  | EVar n => lookup e n
  | ENeg a => option_map Z.opp (eval e a)
  | EAdd a b => match eval e a, eval e b with Some u, Some v => Some (u + v)%Z | _, _ => None end
  | ESub a b => match eval e a, eval e b with Some u, Some v => Some (u - v)%Z | _, _ => None end
  | EMul a b => match eval e a, eval e b with Some u, Some v => Some (u * v)%Z | _, _ => None end
  | EDiv a b => match eval e a, eval e b with
                | Some u, Some v => if Z.eqb v 0 then None else Some (u / v)%Z | _, _ => None end
  | EMod a b => match eval e a, eval e b with
                | Some u, Some v => if Z.eqb v 0 then None else Some (u mod v)%Z | _, _ => None end
  end.

Definition is c (d : ascii) : bool := Ascii.eqb c d.
Definition lbrace : ascii := "{"%char. Definition rbrace : ascii := "}"%char.
Definition langle : ascii := "<"%char. Definition rangle : ascii := ">"%char.
Definition comma : ascii := ","%char. Definition hash : ascii := "#"%char.
Definition nl : ascii := ascii_of_nat 10.
Definition is_space (c : ascii) : bool :=
  let n := nat_of_ascii c in (Nat.eqb n 32) || (Nat.leb 9 n && Nat.leb n 13).
Definition is_word (c : ascii) : bool :=
  let n := nat_of_ascii c in
  (Nat.leb 48 n && Nat.leb n 57) || (Nat.leb 65 n && Nat.leb n 90) || (Nat.leb 97 n && Nat.leb n 122) || Nat.eqb n 95.

(* longest prefix free of both delimiters *)
Fixpoint span_free (a b : ascii) (l : text) : text * text :=
  match l with
  | [] => ([], [])
  | c :: r => if is c a || is c b then ([], l) else let (x, y) := span_free a b r in (c :: x, y)
  end.
(* first  a ... b  group with neither a nor b inside: (before, inside, after) *)
Fixpoint find_group (a b : ascii) (l : text) : option (text * text * text) :=
  match l with
  | [] => None
  | c :: r =>
      if is c a then
        let (body, rest) := span_free a b r in
        match rest with
        | d :: post => if is d b then Some ([], body, post)
                       else option_map (fun '(p, m, q) => (c :: p, m, q)) (find_group a b r)
        | [] => option_map (fun '(p, m, q) => (c :: p, m, q)) (find_group a b r)
        end
      else option_map (fun '(p, m, q) => (c :: p, m, q)) (find_group a b r)
  end.

Fixpoint split_on (d : ascii) (l : text) : list text :=
  match l with
  | [] => [[]]
  | c :: r => if is c d then [] :: split_on d r
              else match split_on d r with x :: xs => (c :: x) :: xs | [] => [[c]] end
  end.

(* duplicate(line): replace the first {a,b,...} by each alternative, recursively *)
Fixpoint dup (fuel : nat) (line : text) : option text :=
  match fuel with
  | O => None
  | S f =>
      match find_group lbrace rbrace line with
      | None => Some line
      | Some (pre, body, post) =>
          fold_right (fun op acc => match dup f (pre ++ op ++ post), acc with
                                    | Some x, Some y => Some (x ++ y) | _, _ => None end)
                     (Some []) (split_on comma body)
      end
  end.
Definition count_char (d : ascii) (l : text) : nat := List.length (filter (fun c => is c d) l).
Definition duplicate (line : text) : option text := dup (S (count_char lbrace line)) line.

(* eval ignores blanks around the expression, so the table is keyed by the trimmed source *)
Fixpoint drop_while_space (l : text) : text := match l with c :: r => if is_space c then drop_while_space r else l | [] => [] end.
Definition trim (l : text) : text := rev (drop_while_space (rev (drop_while_space l))).
Fixpoint lookup_expr_aux (tbl : list (string * expr)) (src : string) : option expr :=
  match tbl with [] => None | (k, v) :: r => if String.eqb k src then Some v else lookup_expr_aux r src end.
Definition lookup_expr (tbl : list (string * expr)) (src : text) : option expr := lookup_expr_aux tbl (unchars (trim src)).

(* re.sub(r"<([^<>]*?)>", eval_brackets, line): left to right, replacement not rescanned *)
Inductive sres := SOk (t : text) | SEvalError | SUnsupported (src : text).
Fixpoint subst_angles (fuel : nat) (tbl : list (string * expr)) (e : env) (line : text) : sres :=
  match fuel with
  | O => SOk line
  | S f =>
      match find_group langle rangle line with
      | None => SOk line
      | Some (pre, body, post) =>
          match lookup_expr tbl body with
          | None => SUnsupported body
          | Some x =>
              match eval e x with
              | None => SEvalError
              | Some v => match subst_angles f tbl e post with
                          | SOk rest => SOk (pre ++ chars (str_of_Z v) ++ rest)
                          | other => other end
              end
          end
      end
  end.

Fixpoint strip_comment (l : text) : text :=
  match l with
  | [] => []
  | c :: r => if is c hash then (fix rest (m : text) : text :=
                                    match m with [] => [] | d :: q => if is d nl then m else rest q end) r
              else c :: strip_comment r
  end.
Fixpoint drop_spaces (l : text) : text := match l with c :: r => if is_space c then drop_spaces r else l | [] => [] end.
Fixpoint take_word (l : text) : text * text :=
  match l with c :: r => if is_word c then let (w, q) := take_word r in (c :: w, q) else ([], l) | [] => ([], []) end.
Fixpoint starts_with (p l : text) : option text :=
  match p, l with [] , _ => Some l | a :: p', b :: l' => if is a b then starts_with p' l' else None | _, [] => None end.
Definition ends_with_nl (l : text) : bool := match rev l with c :: _ => is c nl | [] => false end.
Fixpoint drop_last_nl (l : text) : text :=
  match l with [] => [] | [c] => if is c nl then [] else [c] | c :: r => c :: drop_last_nl r end.

Fixpoint drop_spaces_nonl (l : text) : text :=
  match l with c :: r => if is_space c && negb (is c nl) then drop_spaces_nonl r else l | [] => [] end.

(* the `length` line regex: optional blanks, "length", blanks, a word, optional blanks, "=", optional blanks, the rest of the line -> (name, expression text) *)
Definition match_length (line : text) : option (string * text) :=
  match starts_with (chars "length") (drop_spaces line) with
  | Some r1 =>
      match r1 with
      | c :: _ => if is_space c then
                    let r2 := drop_spaces r1 in
                    let (w, r3) := take_word r2 in
                    match w with
                    | [] => None
                    | _ => match drop_spaces r3 with
                           | d :: r4 => if is d "="%char
                                        then Some (unchars w, fst (span_free nl nl (drop_spaces_nonl r4)))
                                        else None
                           | [] => None end
                    end
                  else None
      | [] => None
      end
  | None => None
  end.

Definition all_space (l : text) : bool := forallb is_space l.

Inductive pres := POk (out : text) | PEvalError | PUnsupported (src : text) | PFuel.

(* process_list *)
Fixpoint process (tbl : list (string * expr)) (e : env) (lines : list text) (out : text) : pres :=
  match lines with
  | [] => POk out
  | line0 :: rest =>
      let line1 := strip_comment line0 in
      let line := if ends_with_nl line1 then line1 else line1 ++ [nl] in
      match match_length line with
      | Some (name, src) =>
          match lookup_expr tbl src with
          | None => PUnsupported src
          | Some x => match eval e x with
                      | Some v => process tbl (bindv e name v) rest out
                      | None => PEvalError end
          end
      | None =>
          match subst_angles (S (count_char langle line)) tbl e line with
          | SOk l2 =>
              match duplicate l2 with
              | Some ls => process tbl e rest (if all_space ls then out else out ++ ls)
              | None => PFuel
              end
          | SEvalError => PEvalError
          | SUnsupported s => PUnsupported s
          end
      end
  end.
