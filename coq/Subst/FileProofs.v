(* C13 for whole files: process_list line by line.  Comments are removed, a `length` line binds its name for the lines
   below, a line without parameters is copied verbatim, and a general line is emitted as the hand expansion of its
   substituted text (angles_spec and duplicate_is_hand_expansion composed inside the loop); output already produced
   is never touched again. *)
From Coq Require Import List String Ascii Arith Bool ZArith Lia.
From PC Require Import Base.Sexp Subst.VarSubst Subst.SubstProofs.
Import ListNotations.
Local Open Scope list_scope.

Definition lacks (d : ascii) (t : text) : Prop := forall c, In c t -> is c d = false.
Lemma lacks_app d a b : lacks d a -> lacks d b -> lacks d (a ++ b).
Proof. intros A B c H. apply in_app_or in H. destruct H; auto. Qed.

(* ---- comments ---- *)
Lemma strip_comment_nohash t : lacks hash t -> strip_comment t = t.
Proof. induction t as [|c t IH]; intros H; [reflexivity|]. simpl. rewrite (H c (or_introl eq_refl)). f_equal. apply IH. intros x Hx. apply H. right. exact Hx. Qed.
(* from the first '#' up to (not including) the end of the line *)
Theorem strip_comment_spec pre cmt rest : lacks hash pre -> lacks nl cmt ->
  strip_comment (pre ++ hash :: cmt ++ nl :: rest) = pre ++ nl :: rest /\ strip_comment (pre ++ hash :: cmt) = pre.
Proof. intros Hp Hc. induction pre as [|c pre IH]; simpl.
  - clear Hp. split.
    + induction cmt as [|d cmt IHc]; simpl; [reflexivity|].
      rewrite (Hc d (or_introl eq_refl)). apply IHc. intros x Hx. apply Hc. right. exact Hx.
    + induction cmt as [|d cmt IHc]; simpl; [reflexivity|]. rewrite (Hc d (or_introl eq_refl)). apply IHc. intros x Hx. apply Hc. right. exact Hx.
  - rewrite (Hp c (or_introl eq_refl)). destruct IH as [A B]; [intros x Hx; apply Hp; right; exact Hx|]. rewrite A, B. auto. Qed.

Lemma ends_with_nl_snoc t : ends_with_nl (t ++ [nl]) = true.
Proof. unfold ends_with_nl. rewrite rev_app_distr. reflexivity. Qed.

(* ---- output is only ever appended to ---- *)
Theorem process_appends tbl : forall lines e out r, process tbl e lines out = POk r ->
  exists t, r = out ++ t /\ forall out', process tbl e lines out' = POk (out' ++ t).
Proof. induction lines as [|line0 rest IH]; intros e out r H.
  - simpl in H. inversion H; subst. exists []. split; [symmetry; apply app_nil_r | intros out'; simpl; rewrite app_nil_r; reflexivity].
  - cbn [process] in *. cbv zeta in *.
    set (line := if ends_with_nl (strip_comment line0) then strip_comment line0 else strip_comment line0 ++ [nl]) in *.
    destruct (match_length line) as [[name src]|].
    + destruct (lookup_expr tbl src) as [x|]; [|discriminate]. destruct (eval e x) as [v|]; [|discriminate]. apply (IH _ _ _ H).
    + destruct (subst_angles _ tbl e line) as [l2| |]; try discriminate. destruct (duplicate l2) as [ls|]; [|discriminate].
      destruct (all_space ls); [apply (IH _ _ _ H)|]. destruct (IH _ _ _ H) as [t [E F]]. exists (ls ++ t). rewrite app_assoc. split; [exact E|].
      intros out'. rewrite app_assoc. apply F. Qed.

(* ---- one general line: comment stripped, <expressions> replaced by their values under the current bindings, then the
        brace groups expanded, leftmost slowest ---- *)
Lemma count_arender pre segs : afree pre -> Forall (fun s => afree (fst s) /\ afree (snd s)) segs -> count_char langle (arender pre segs) = List.length segs.
Proof. assert (Z : forall u, afree u -> List.length (filter (fun c => is c langle) u) = 0).
  { induction u as [|c u IHu]; intros Fu; [reflexivity|]. simpl. destruct (Fu c (or_introl eq_refl)) as [A _]. rewrite A. apply IHu. intros x Hx. apply Fu. right. exact Hx. }
  revert pre. induction segs as [|[src t] segs IH]; intros pre Fp Fs; simpl; [apply Z, Fp|].
  inversion Fs as [|? ? [Fa Ft] Fr]; subst. simpl in Fa, Ft. unfold count_char in *. rewrite filter_app, app_length. simpl.
  rewrite filter_app, app_length. simpl. rewrite (Z pre Fp), (Z src Fa). simpl. rewrite (IH t Ft Fr). reflexivity. Qed.

Theorem process_line_is_hand_expansion tbl e line0 rest out apre asegs bpre bsegs l2 :
  (if ends_with_nl (strip_comment line0) then strip_comment line0 else strip_comment line0 ++ [nl]) = arender apre asegs ->
  match_length (arender apre asegs) = None ->
  afree apre -> Forall (fun s => afree (fst s) /\ afree (snd s)) asegs -> asubst tbl e apre asegs = Some l2 ->
  l2 = render bpre bsegs -> bfree bpre -> Forall seg_ok bsegs ->
  process tbl e (line0 :: rest) out =
  process tbl e rest (if all_space (List.concat (expand bpre bsegs)) then out else out ++ List.concat (expand bpre bsegs)).
Proof. intros EL ML Fa Fs AS EB Fb Fbs. cbn [process]. cbv zeta. rewrite EL, ML.
  rewrite (count_arender apre asegs Fa Fs). rewrite (angles_spec tbl e asegs apre _ l2 Fa Fs (Nat.lt_succ_diag_r _) AS). subst l2.
  rewrite (duplicate_is_hand_expansion bpre bsegs Fb Fbs). reflexivity. Qed.

(* a line with no comment, no parameter and no group is copied verbatim ("all other text untouched") *)
Theorem process_plain_line tbl e body rest out : lacks hash body -> afree body -> bfree body ->
  match_length (body ++ [nl]) = None -> all_space (body ++ [nl]) = false ->
  process tbl e ((body ++ [nl]) :: rest) out = process tbl e rest (out ++ body ++ [nl]).
Proof. intros Hh Ha Hb ML NS.
  assert (NL1 : afree [nl]) by (intros c [<-|[]]; split; reflexivity). assert (NL2 : bfree [nl]) by (intros c [<-|[]]; split; reflexivity).
  assert (Ha' : afree (body ++ [nl])) by (intros c H; apply in_app_or in H; destruct H; auto).
  assert (Hb' : bfree (body ++ [nl])) by (intros c H; apply in_app_or in H; destruct H; auto).
  assert (SC : (if ends_with_nl (strip_comment (body ++ [nl])) then strip_comment (body ++ [nl]) else strip_comment (body ++ [nl]) ++ [nl]) = body ++ [nl]).
  { rewrite strip_comment_nohash; [rewrite ends_with_nl_snoc; reflexivity|]. apply lacks_app; [exact Hh | intros c [<-|[]]; reflexivity]. }
  pose proof (process_line_is_hand_expansion tbl e (body ++ [nl]) rest out (body ++ [nl]) [] (body ++ [nl]) [] (body ++ [nl]) SC ML Ha' (Forall_nil _) eq_refl eq_refl Hb' (Forall_nil _)) as P.
  etransitivity; [exact P|]. simpl. rewrite app_nil_r, NS. reflexivity. Qed.

(* a `length` line writes nothing and binds its name for the lines below *)
Theorem process_length_line tbl e line0 rest out name src x v :
  match_length (if ends_with_nl (strip_comment line0) then strip_comment line0 else strip_comment line0 ++ [nl]) = Some (name, src) ->
  lookup_expr tbl src = Some x -> eval e x = Some v ->
  process tbl e (line0 :: rest) out = process tbl (bindv e name v) rest out.
Proof. intros ML LK EV. cbn [process]. cbv zeta. rewrite ML, LK, EV. reflexivity. Qed.

(* the shape match_length accepts: blanks, "length", blanks, a word, blanks, "=", blanks, the expression up to the newline *)
Definition blanks (t : text) : Prop := forall c, In c t -> is_space c = true /\ is c nl = false.
Lemma drop_spaces_blanks ws r : blanks ws -> (match r with c :: _ => is_space c = false | [] => True end) -> drop_spaces (ws ++ r) = r.
Proof. induction ws as [|c ws IH]; intros B R; simpl.
  - destruct r as [|d r]; [reflexivity|]. simpl. rewrite R. reflexivity.
  - rewrite (proj1 (B c (or_introl eq_refl))). apply IH; [intros x Hx; apply B; right; exact Hx | exact R]. Qed.
Lemma drop_spaces_nonl_blanks ws r : blanks ws -> (match r with c :: _ => is_space c && negb (is c nl) = false | [] => True end) -> drop_spaces_nonl (ws ++ r) = r.
Proof. induction ws as [|c ws IH]; intros B R; simpl.
  - destruct r as [|d r]; [reflexivity|]. simpl. rewrite R. reflexivity.
  - destruct (B c (or_introl eq_refl)) as [B1 B2]. rewrite B1, B2. simpl. apply IH; [intros x Hx; apply B; right; exact Hx | exact R]. Qed.
Lemma starts_with_app p r : starts_with p (p ++ r) = Some r.
Proof. induction p as [|a p IH]; simpl; [destruct r; reflexivity|]. unfold is. rewrite Ascii.eqb_refl. exact IH. Qed.
Lemma take_word_app w r : (forall c, In c w -> is_word c = true) -> (match r with c :: _ => is_word c = false | [] => True end) -> take_word (w ++ r) = (w, r).
Proof. induction w as [|c w IH]; intros W R; simpl.
  - destruct r as [|d r]; [reflexivity|]. simpl. rewrite R. reflexivity.
  - rewrite (W c (or_introl eq_refl)). rewrite IH; [reflexivity | intros x Hx; apply W; right; exact Hx | exact R]. Qed.

Theorem match_length_spec ws0 ws1 w ws2 ws3 src :
  blanks ws0 -> blanks ws1 -> ws1 <> [] -> (forall c, In c w -> is_word c = true) -> w <> [] -> blanks ws2 -> blanks ws3 ->
  lacks nl src -> (match src with c :: _ => is_space c = false | [] => True end) ->
  match_length (ws0 ++ chars "length" ++ ws1 ++ w ++ ws2 ++ "="%char :: ws3 ++ src ++ [nl]) = Some (unchars w, src).
Proof. intros B0 B1 N1 W NW B2 B3 LS S0. unfold match_length.
  rewrite (drop_spaces_blanks ws0); [|exact B0|reflexivity]. rewrite starts_with_app.
  destruct ws1 as [|c1 ws1]; [contradiction|]. cbn [app]. rewrite (proj1 (B1 c1 (or_introl eq_refl))).
  change (c1 :: ws1 ++ w ++ ws2 ++ "="%char :: ws3 ++ src ++ [nl]) with ((c1 :: ws1) ++ w ++ ws2 ++ "="%char :: ws3 ++ src ++ [nl]).
  destruct w as [|c w]; [contradiction|].
  rewrite (drop_spaces_blanks (c1 :: ws1) _ B1); [|cbn [app]; pose proof (W c (or_introl eq_refl)) as X; unfold is_word, is_space in *; destruct c as [[] [] [] [] [] [] [] []]; simpl in *; congruence].
  assert (EQ : is_word "="%char = false) by reflexivity.
  rewrite (take_word_app (c :: w) (ws2 ++ "="%char :: ws3 ++ src ++ [nl]) W).
  2:{ destruct ws2 as [|d ws2]; [exact EQ|]. cbn [app]. pose proof (proj1 (B2 d (or_introl eq_refl))) as X. unfold is_word, is_space in *. destruct d as [[] [] [] [] [] [] [] []]; simpl in *; congruence. }
  rewrite (drop_spaces_blanks ws2); [|exact B2|reflexivity]. change (is "="%char "="%char) with true. cbv iota.
  rewrite (drop_spaces_nonl_blanks ws3 (src ++ [nl]) B3).
  2:{ destruct src as [|d src]; cbn [app]; [reflexivity | rewrite S0; reflexivity]. }
  rewrite (span_free_all nl nl src [nl]); [reflexivity | intros c0 Hc; split; apply (LS c0 Hc) | reflexivity]. Qed.

Example length_line_example : match_length (chars "  length  n_1 =  2*k + 1" ++ [nl]) = Some ("n_1"%string, chars "2*k + 1").
Proof. reflexivity. Qed.
