(* C13 proofs: brace duplication equals the declarative hand expansion (cartesian product of
   the alternatives, leftmost group varying slowest, everything else untouched), and
   <expression> replacement equals segment-wise substitution of the values. *)
From Coq Require Import List String Ascii Arith Bool ZArith Lia.
From PC Require Import Base.Sexp Subst.VarSubst.
Import ListNotations.
Local Open Scope list_scope.

Definition free (a b : ascii) (t : text) : Prop := forall c, In c t -> is c a = false /\ is c b = false.

Lemma span_free_all a b t rest : free a b t ->
  (match rest with [] => True | d :: _ => is d a || is d b = true end) ->
  span_free a b (t ++ rest) = (t, rest).
Proof. induction t as [|c t IH]; intros F R; simpl.
  - destruct rest as [|d r]; [reflexivity|]. simpl. rewrite R. reflexivity.
  - destruct (F c (or_introl eq_refl)) as [A B]. rewrite A, B. simpl.
    rewrite IH; [reflexivity | intros x Hx; apply F; right; exact Hx | exact R]. Qed.

(* the first group of  pre a body b post  (pre, body free of delimiters) is exactly that one *)
Lemma find_group_first a b pre body post : free a b pre -> free a b body -> is a b = false ->
  find_group a b (pre ++ a :: body ++ b :: post) = Some (pre, body, post).
Proof. intros Fp Fb Hab. induction pre as [|c pre IH]; simpl.
  - unfold is at 1. rewrite Ascii.eqb_refl.
    rewrite (span_free_all a b body (b :: post) Fb); [|simpl; unfold is at 2; rewrite Ascii.eqb_refl; apply orb_true_r].
    unfold is at 1. rewrite Ascii.eqb_refl. reflexivity.
  - destruct (Fp c (or_introl eq_refl)) as [A B]. rewrite A.
    rewrite IH; [reflexivity | intros x Hx; apply Fp; right; exact Hx]. Qed.

Lemma find_group_none a b t : free a b t -> find_group a b t = None.
Proof. induction t as [|c t IH]; intros F; simpl; [reflexivity|].
  destruct (F c (or_introl eq_refl)) as [A _]. rewrite A, IH; [reflexivity | intros x Hx; apply F; right; exact Hx]. Qed.

Fixpoint join (d : ascii) (l : list text) : text :=
  match l with [] => [] | [x] => x | x :: r => x ++ d :: join d r end.
Definition nocomma (t : text) : Prop := forall c, In c t -> is c comma = false.

Lemma split_on_nocomma t : nocomma t -> split_on comma t = [t].
Proof. induction t as [|c t IH]; intros N; simpl; [reflexivity|].
  rewrite (N c (or_introl eq_refl)), IH; [reflexivity | intros x Hx; apply N; right; exact Hx]. Qed.
Lemma split_on_app t rest : nocomma t -> split_on comma (t ++ comma :: rest) = t :: split_on comma rest.
Proof. induction t as [|c t IH]; intros N; simpl.
  - reflexivity.
  - rewrite (N c (or_introl eq_refl)), IH; [reflexivity | intros x Hx; apply N; right; exact Hx]. Qed.
Lemma split_join alts : alts <> [] -> Forall nocomma alts -> split_on comma (join comma alts) = alts.
Proof. induction alts as [|a alts IH]; intros NE F; [congruence|].
  inversion F as [|? ? Ha Hr]; subst. destruct alts as [|a2 alts]; simpl.
  - apply split_on_nocomma, Ha.
  - rewrite split_on_app; [|exact Ha]. f_equal. apply IH; [discriminate | exact Hr]. Qed.

(* a line = leading text, then groups each followed by plain text *)
Definition seg := (list text * text)%type.     (* (alternatives, text after the group) *)
Fixpoint render (pre : text) (segs : list seg) : text :=
  match segs with
  | [] => pre
  | (alts, t) :: r => pre ++ lbrace :: join comma alts ++ rbrace :: render t r
  end.
(* the hand expansion: one line per choice, leftmost group slowest *)
Fixpoint expand (pre : text) (segs : list seg) : list text :=
  match segs with
  | [] => [pre]
  | (alts, t) :: r => flat_map (fun a => expand (pre ++ a ++ t) r) alts
  end.

Definition bfree := free lbrace rbrace.
Definition seg_ok (s : seg) : Prop := fst s <> [] /\ Forall (fun a => bfree a /\ nocomma a) (fst s) /\ bfree (snd s).

Lemma bfree_app a b : bfree a -> bfree b -> bfree (a ++ b).
Proof. intros A B c Hc. apply in_app_or in Hc. destruct Hc; auto. Qed.
Lemma bfree_join alts : Forall (fun a => bfree a /\ nocomma a) alts -> bfree (join comma alts).
Proof. induction alts as [|a alts IH]; intros F; [intros c []|]. inversion F as [|? ? [Ha _] Hr]; subst.
  destruct alts as [|a2 alts]; [exact Ha|]. simpl. apply bfree_app; [exact Ha|].
  intros c [<-|Hc]; [split; reflexivity | apply (IH Hr), Hc]. Qed.

Lemma fold_concat (f : text -> option text) (g : text -> text) alts :
  (forall a, In a alts -> f a = Some (g a)) ->
  fold_right (fun op acc => match f op, acc with Some x, Some y => Some (x ++ y) | _, _ => None end) (Some []) alts
  = Some (flat_map g alts).
Proof. induction alts as [|a alts IH]; intros H; simpl; [reflexivity|].
  rewrite (H a (or_introl eq_refl)), IH; [reflexivity | intros b Hb; apply H; right; exact Hb]. Qed.

Lemma concat_flat_map {A B} (f : A -> list (list B)) l :
  List.concat (flat_map f l) = flat_map (fun a => List.concat (f a)) l.
Proof. induction l as [|a l IH]; simpl; [reflexivity|]. rewrite concat_app, IH. reflexivity. Qed.

(* Brace duplication = hand expansion, for every line: any number of groups, any number of
   alternatives (also empty ones), any surrounding text *)
Theorem dup_product : forall segs pre fuel, bfree pre -> Forall seg_ok segs -> List.length segs < fuel ->
  dup fuel (render pre segs) = Some (List.concat (expand pre segs)).
Proof. induction segs as [|[alts t] segs IH]; intros pre fuel Fp Fs Hf.
  - destruct fuel; [simpl in Hf; lia|]. simpl. rewrite find_group_none; [|exact Fp]. rewrite app_nil_r. reflexivity.
  - destruct fuel as [|f]; [simpl in Hf; lia|]. inversion Fs as [|? ? [NE [Fa Ft]] Fr]; subst. simpl in NE, Fa, Ft.
    cbn [render dup].
    rewrite (find_group_first lbrace rbrace pre (join comma alts) (render t segs) Fp (bfree_join alts Fa) eq_refl).
    rewrite split_join; [|exact NE | eapply Forall_impl; [|exact Fa]; intros a [_ H]; exact H].
    rewrite (fold_concat _ (fun a => List.concat (expand (pre ++ a ++ t) segs))).
    + change (expand pre ((alts, t) :: segs)) with (flat_map (fun a => expand (pre ++ a ++ t) segs) alts).
      symmetry. apply (f_equal Some). apply concat_flat_map.
    + intros a Ha. rewrite Forall_forall in Fa. destruct (Fa a Ha) as [Ba _].
      assert (E : pre ++ a ++ render t segs = render (pre ++ a ++ t) segs).
      { destruct segs as [|[al2 t2] segs]; simpl; [reflexivity|]. rewrite <- !app_assoc. reflexivity. }
      rewrite E. apply IH; [apply bfree_app; [exact Fp | apply bfree_app; [exact Ba | exact Ft]] | exact Fr | simpl in Hf; lia]. Qed.

Lemma count_render pre segs : bfree pre -> Forall seg_ok segs -> count_char lbrace (render pre segs) = List.length segs.
Proof. revert pre. induction segs as [|[alts t] segs IH]; intros pre Fp Fs; simpl.
  - unfold count_char. induction pre as [|c pre IHp]; [reflexivity|]. simpl.
    destruct (Fp c (or_introl eq_refl)) as [A _]. rewrite A. apply IHp. intros x Hx. apply Fp. right. exact Hx.
  - inversion Fs as [|? ? [NE [Fa Ft]] Fr]; subst. simpl in Fa, Ft.
    unfold count_char in *. rewrite filter_app, app_length. simpl.
    rewrite filter_app, app_length. simpl.
    assert (Z : forall u, bfree u -> List.length (filter (fun c => is c lbrace) u) = 0).
    { induction u as [|c u IHu]; intros Fu; [reflexivity|]. simpl. destruct (Fu c (or_introl eq_refl)) as [A _]. rewrite A.
      apply IHu. intros x Hx. apply Fu. right. exact Hx. }
    rewrite (Z pre Fp), (Z _ (bfree_join alts Fa)). simpl. rewrite (IH t Ft Fr). reflexivity. Qed.

(* with the fuel the model actually uses *)
Theorem duplicate_is_hand_expansion pre segs : bfree pre -> Forall seg_ok segs ->
  duplicate (render pre segs) = Some (List.concat (expand pre segs)).
Proof. intros Fp Fs. unfold duplicate. rewrite (count_render pre segs Fp Fs). apply dup_product; auto. Qed.

(* ---- <expression> replacement ---- *)
Definition afree := free langle rangle.
Definition aseg := (text * text)%type.   (* (expression source, text after it) *)
Fixpoint arender (pre : text) (segs : list aseg) : text :=
  match segs with [] => pre | (src, t) :: r => pre ++ langle :: src ++ rangle :: arender t r end.
Fixpoint asubst (tbl : list (string * expr)) (e : env) (pre : text) (segs : list aseg) : option text :=
  match segs with
  | [] => Some pre
  | (src, t) :: r =>
      match lookup_expr tbl src with
      | Some x => match eval e x, asubst tbl e t r with
                  | Some v, Some rest => Some (pre ++ chars (str_of_Z v) ++ rest)
                  | _, _ => None end
      | None => None
      end
  end.

(* every <expression> is replaced by the decimal text of its value, left to right, nothing else changes *)
Theorem angles_spec tbl e : forall segs pre fuel out, afree pre ->
  Forall (fun s => afree (fst s) /\ afree (snd s)) segs -> List.length segs < fuel ->
  asubst tbl e pre segs = Some out -> subst_angles fuel tbl e (arender pre segs) = SOk out.
Proof. induction segs as [|[src t] segs IH]; intros pre fuel out Fp Fs Hf H.
  - destruct fuel; [simpl in Hf; lia|]. simpl in *. inversion H; subst. rewrite find_group_none; [reflexivity | exact Fp].
  - destruct fuel as [|f]; [simpl in Hf; lia|]. inversion Fs as [|? ? [Fa Ft] Fr]; subst. simpl in Fa, Ft.
    cbn [arender subst_angles]. rewrite (find_group_first langle rangle pre src (arender t segs) Fp Fa eq_refl).
    cbn [asubst] in H. destruct (lookup_expr tbl src) as [x|]; [|discriminate].
    destruct (eval e x) as [v|]; [|discriminate]. destruct (asubst tbl e t segs) as [rest|] eqn:R; [|discriminate].
    inversion H; subst. rewrite (IH t f rest Ft Fr); [reflexivity | simpl in Hf; lia | exact R]. Qed.

(* non-vacuity: two groups, leftmost slowest *)
Example dup_example : duplicate (chars "s{1,2}{a,b}x") = Some (chars "s1axs1bxs2axs2bx").
Proof. reflexivity. Qed.
