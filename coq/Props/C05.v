(* C05 Constraint files honour the documented spuriousSSM input contract.
   Proved (at the level of the seeded link graph, for every exact closure table / every document
   whose seeded graph passes graph_ok): every equality representative is defined for a nucleotide
   position, is idempotent, is at most the position itself; every complement representative is
   itself a representative and its own complement representative is the position's equality
   representative (wc of wc = eq); positions forced equal carry identical template codes and
   positions forced complementary carry complementary codes (C05_template_codes_agree).
   The blank separators, the 1-based file encoding and the acceptance by the bundled binary are
   decided per case: the Coq-extracted predicate contract_ok is evaluated on the real files, and a
   sanitised spuriousSSM built from the working tree must accept them. *)
From Coq Require Import List String Ascii Arith.
From PC Require Import Base.Codes Comp.Syntax Comp.Compile Design.Propagate Design.PropagateProofs Design.Designer Design.DesignerProofs Design.TemplateProofs.
Import ListNotations.

Definition exact_table (g : cgraph) (m : tbl) : Prop :=
  forall x, In x (g_keys g) -> exists E W, get m x = Some (E, W) /\
    (forall z, In z E <-> gconn g x false z) /\ (forall z, In z W <-> gconn g x true z).

Theorem C05_eq_defined : forall g npos m, exact_table g m -> forall i, In i (g_keys g) -> i < npos -> exists r, eq_rep npos m i = Some r.
Proof. exact eq_rep_defined. Qed.
Print Assumptions C05_eq_defined.
Theorem C05_eq_idempotent : forall g npos m, exact_table g m -> forall i r, In i (g_keys g) -> In r (g_keys g) -> i < npos ->
  eq_rep npos m i = Some r -> eq_rep npos m r = Some r.
Proof. exact eq_rep_idempotent. Qed.
Print Assumptions C05_eq_idempotent.
Theorem C05_eq_lowest : forall g npos m, exact_table g m -> forall i r, In i (g_keys g) -> i < npos -> eq_rep npos m i = Some r -> r <= i.
Proof. exact eq_rep_le. Qed.
Print Assumptions C05_eq_lowest.
Theorem C05_wc_of_wc_is_eq : forall g npos m, exact_table g m -> forall i w, In i (g_keys g) -> In w (g_keys g) ->
  wc_rep npos m i = Some w -> wc_rep npos m w = eq_rep npos m i.
Proof. exact wc_of_wc_is_eq. Qed.
Print Assumptions C05_wc_of_wc_is_eq.
Theorem C05_wc_points_at_rep : forall g npos m, exact_table g m -> forall i w, In i (g_keys g) -> In w (g_keys g) ->
  wc_rep npos m i = Some w -> eq_rep npos m w = Some w.
Proof. exact wc_rep_is_rep. Qed.
Print Assumptions C05_wc_points_at_rep.

Theorem C05_template_codes_agree : forall p so lay g, seed p so = OK (lay, g) -> graph_ok g = true ->
  forall e w s, get_constraints p so = DOk e w s -> forall i j ci cj,
  In i (g_keys g) -> nth_error s i = Some (Some ci) -> nth_error s j = Some (Some cj) ->
  (gconn g i false j -> ci = cj) /\ (gconn g i true j -> compl_code ci = Some cj).
Proof. exact template_codes_agree. Qed.
Print Assumptions C05_template_codes_agree.
