(* C05 Constraint files honour the documented spuriousSSM input contract.
   Proved (at the level of the seeded link graph, for every exact closure table / every document
   whose seeded graph passes graph_ok): every equality representative is defined for a nucleotide
   position, is idempotent, is at most the position itself; every complement representative is
   itself a representative and its own complement representative is the position's equality
   representative (wc of wc = eq); positions forced equal carry identical template codes and
   positions forced complementary carry complementary codes (C05_template_codes_agree).
   The whole per-position contract of the files is proved as well (C05_files_contract): for every
   specification whose constraint generation returns arrays, in either layout, the 1-based / 0 / -1 /
   blank encoding of the three arrays satisfies contract_ok - the model of spuriousSSM's
   test_consistency and load_input_files: equal lengths, blanks with 0 and -1 exactly at the
   uninitialised positions (the closure table is defined on keys only: propagate_dom), eq 1-based,
   at most the position, idempotent and carrying the same code, wc within range, pointing at a
   representative whose own wc is the position's eq and whose code is the complement.  In both
   layouts this holds of every loaded document (C05_loaded_files_contract, C05_struct_loaded_files_contract).
   Decided per case: that contract_ok is the binary's own check (the extracted predicate is evaluated on
   the real files and a sanitised spuriousSSM built from the working tree must accept them), and the
   number of blanks between strands and complexes. *)
From Coq Require Import List String Ascii Arith.
From PC Require Import Base.Codes Comp.Syntax Comp.Compile Design.Propagate Design.PropagateProofs Design.Designer Design.DesignerProofs Design.TemplateProofs
  Design.ContractProofs Design.Loaded Design.LoadedStruct SSM.Contract.
Import ListNotations.

Definition exact_table (g : cgraph) (m : tbl) : Prop :=
  forall x, In x (g_keys g) -> exists E W, get m x = Some (E, W) /\
    (forall z, In z E <-> gconn g x false z) /\ (forall z, In z W <-> gconn g x true z).

Theorem C05_eq_defined : forall g npos m, exact_table g m -> forall i, In i (g_keys g) -> i < npos -> exists r, eq_rep npos m i = Some r.
Proof. exact eq_rep_defined. Qed.
Print Assumptions C05_eq_defined.
Theorem C05_eq_idempotent : forall g npos m, exact_table g m -> forall i r, In i (g_keys g) -> In r (g_keys g) -> i < npos ->
  eq_rep npos m i = Some r -> eq_rep npos m r = Some r.
Proof. exact eq_rep_idempotent. Qed.
Print Assumptions C05_eq_idempotent.
Theorem C05_eq_lowest : forall g npos m, exact_table g m -> forall i r, In i (g_keys g) -> i < npos -> eq_rep npos m i = Some r -> r <= i.
Proof. exact eq_rep_le. Qed.
Print Assumptions C05_eq_lowest.
Theorem C05_wc_of_wc_is_eq : forall g npos m, exact_table g m -> forall i w, In i (g_keys g) -> In w (g_keys g) ->
  wc_rep npos m i = Some w -> wc_rep npos m w = eq_rep npos m i.
Proof. exact wc_of_wc_is_eq. Qed.
Print Assumptions C05_wc_of_wc_is_eq.
Theorem C05_wc_points_at_rep : forall g npos m, exact_table g m -> forall i w, In i (g_keys g) -> In w (g_keys g) ->
  wc_rep npos m i = Some w -> eq_rep npos m w = Some w.
Proof. exact wc_rep_is_rep. Qed.
Print Assumptions C05_wc_points_at_rep.

Theorem C05_template_codes_agree : forall p so lay g, seed p so = OK (lay, g) -> graph_ok g = true ->
  forall e w s, get_constraints p so = DOk e w s -> forall i j ci cj,
  In i (g_keys g) -> nth_error s i = Some (Some ci) -> nth_error s j = Some (Some cj) ->
  (gconn g i false j -> ci = cj) /\ (gconn g i true j -> compl_code ci = Some cj).
Proof. exact template_codes_agree. Qed.
Print Assumptions C05_template_codes_agree.

(* the files written by spurious_design.design satisfy the input contract, position by position *)
Theorem C05_files_contract : forall p so lay g, seed p so = OK (lay, g) -> graph_ok g = true ->
  forall e w s, get_constraints p so = DOk e w s -> contract_ok (map eq_map e) (map wc_map w) (map st_map s) = true.
Proof. exact files_contract. Qed.
Print Assumptions C05_files_contract.

Theorem C05_loaded_files_contract : forall ls p lay g e w s, load_spec ls pspec0 = OK p -> seed p false = OK (lay, g) ->
  get_constraints p false = DOk e w s -> contract_ok (map eq_map e) (map wc_map w) (map st_map s) = true.
Proof. exact loaded_files_contract. Qed.
Print Assumptions C05_loaded_files_contract.

(* the closure table is defined on keys only *)
Theorem C05_table_on_keys : forall eq wc U,
  (forall y, In y U -> (forall z, In z (eq y) -> In z U) /\ (forall z, In z (wc y) -> In z U)) ->
  (forall y z, In z (eq y) -> In y (eq z)) -> (forall y z, In z (wc y) -> In y (wc z)) ->
  forall m, propagate eq wc U = OOk m -> forall y, get m y <> None -> In y U.
Proof. exact propagate_dom. Qed.
Print Assumptions C05_table_on_keys.

(* structure-oriented layout: the files written for every loaded document satisfy the contract *)
Theorem C05_struct_loaded_files_contract : forall ls p lay g e w s, load_spec ls pspec0 = OK p -> seed p true = OK (lay, g) ->
  get_constraints p true = DOk e w s -> contract_ok (map eq_map e) (map wc_map w) (map st_map s) = true.
Proof. exact sloaded_files_contract. Qed.
Print Assumptions C05_struct_loaded_files_contract.
