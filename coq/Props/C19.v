(* C19 Bundled spuriousSSM returns a sequence obeying its constraints, safely -- PARTIAL.
   Proved: the search loop (as repaired: score-neutral moves count as boring and a boredom limit
   is always in force) terminates for every sequence of random choices and every score function,
   within (|V|+1)*bmax iterations, V the finite universe of sequences; and the loop as it was
   before the repair has a run that never stops.  The validity predicate valid_output
   (test_consistency) is extracted and evaluated on every traced and final sequence of the real
   binary.  NOT proved: that constrain / mutate of the C program preserve validity (modelled in
   Search.v, compared only through the predicate), absence of memory errors / undefined
   behaviour (no C semantics is installed: observed under ASan + UBSan), and that the rejection
   loop inside mutate ends (it draws until the base differs: relies on erand48 not repeating one
   value forever). *)
From Coq Require Import List Arith Bool.
From PC Require Import SSM.Search SSM.SearchProofs.
Import ListNotations.

Theorem C19_search_terminates_partial : forall (state : Type) (score_lt score_le : state -> state -> bool)
  (propose : nat -> state -> state) (bmax : nat) (V : list state),
  (forall n s, In s V -> In (propose n s) V) ->
  (forall s, score_lt s s = false) ->
  (forall a b c, score_lt a b = true -> score_lt b c = true -> score_lt a c = true) ->
  (forall v a b, score_lt v a = true -> score_le a b = true -> score_lt v b = true) ->
  forall step cur, In cur V ->
  exists final n, run state score_lt score_le propose bmax ((length V + 1) * bmax) step cur 0 = Some (final, n).
Proof. exact search_terminates. Qed.
Print Assumptions C19_search_terminates_partial.

Theorem C19_unrepaired_loop_diverges : forall fuel,
  run_old (fun _ _ : unit => false) (fun _ _ => true) (fun _ s => s) 1 fuel 0 tt 0 = None.
Proof. exact old_loop_diverges. Qed.
Print Assumptions C19_unrepaired_loop_diverges.
