(* C19 Bundled spuriousSSM returns a sequence obeying its constraints, safely.
   Proved on the model of the search (Search.v; the model's constrain and mutate are compared
   exactly with the binary on every run: the "constrained S" line for start sequences given by
   file, and every consecutive pair of traced sequences): for every consistent triple (triple_ok, a
   boolean evaluated on every generated triple and proved to imply the Prop-level contract),
   constrain turns ANY start sequence within the templates into a valid one (C19_constrain_valid,
   loop invariant over the marks), a mutation of a free location to a base of its template keeps a
   valid sequence valid (C19_mutate_valid), hence whatever the random choices and the score
   function, every sequence the loop visits and the sequence it finally prints are valid
   (C19_search_output_valid), valid meaning the executable predicate evaluated on the real output
   (C19_valid_is_checked_predicate).  The loop (as repaired: score-neutral moves count as boring and
   a boredom limit is always in force) terminates for every sequence of random choices and every
   score function within (|V|+1)*bmax iterations; before the repair it had a run that never stops.
   NOT provable here: absence of memory errors / undefined behaviour in the C program (no C
   semantics is installed: observed under ASan + UBSan), and that the rejection loop inside
   mutate ends (it draws until the base differs: relies on erand48 not repeating one value). *)
From Coq Require Import List Arith Bool.
From Coq Require Import Ascii.
From PC Require Import Base.Codes SSM.Contract SSM.Search SSM.SearchProofs SSM.ValidProofs.
Import ListNotations.

Theorem C19_search_terminates : forall (state : Type) (score_lt score_le : state -> state -> bool)
  (propose : nat -> state -> state) (bmax : nat) (V : list state),
  (forall n s, In s V -> In (propose n s) V) ->
  (forall s, score_lt s s = false) ->
  (forall a b c, score_lt a b = true -> score_lt b c = true -> score_lt a c = true) ->
  (forall v a b, score_lt v a = true -> score_le a b = true -> score_lt v b = true) ->
  forall step cur, In cur V ->
  exists final n, run state score_lt score_le propose bmax ((length V + 1) * bmax) step cur 0 = Some (final, n).
Proof. exact search_terminates. Qed.
Print Assumptions C19_search_terminates.

Theorem C19_unrepaired_loop_diverges : forall fuel,
  run_old (fun _ _ : unit => false) (fun _ _ => true) (fun _ s => s) 1 fuel 0 tt 0 = None.
Proof. exact old_loop_diverges. Qed.
Print Assumptions C19_unrepaired_loop_diverges.

Theorem C19_constrain_valid : forall t sq, consistent t -> in_templates t sq -> valid_all t (constrain t sq).
Proof. exact constrain_valid. Qed.
Print Assumptions C19_constrain_valid.

Theorem C19_mutate_valid : forall t sq i b, consistent t -> valid_all t sq -> i < List.length (t_st t) ->
  free_location t i = true -> compatible (nthc (t_st t) i) b = true -> valid_all t (mutate t sq i b).
Proof. exact mutate_valid. Qed.
Print Assumptions C19_mutate_valid.

Theorem C19_search_output_valid : forall t sq0 (pos : nat -> list ascii -> nat) (base : nat -> list ascii -> ascii)
  score_lt score_le bmax fuel s' k',
  consistent t -> in_templates t sq0 ->
  (forall k s, pos k s < List.length (t_st t) /\ free_location t (pos k s) = true /\ compatible (nthc (t_st t) (pos k s)) (base k s) = true) ->
  run (list ascii) score_lt score_le (fun k s => mutate t s (pos k s) (base k s)) bmax fuel 0 (constrain t sq0) 0 = Some (s', k') ->
  valid_all t s' /\ valid_all t (constrain t s').
Proof. exact search_output_valid. Qed.
Print Assumptions C19_search_output_valid.

Theorem C19_valid_is_checked_predicate : forall t sq, consistent t -> valid_all t sq -> valid_output t sq = true.
Proof. exact valid_all_output. Qed.
Print Assumptions C19_valid_is_checked_predicate.

Theorem C19_triple_ok_sound : forall t, triple_ok t = true -> consistent t.
Proof. exact triple_ok_consistent. Qed.
Print Assumptions C19_triple_ok_sound.

Theorem C19_valid_shape : forall t sq, valid_all t sq -> List.length sq = List.length (t_st t) /\
  forall j, j < List.length (t_st t) ->
    (nthc sq j = blank <-> nthc (t_st t) j = blank) /\
    (nthc (t_st t) j <> blank -> compatible (nthc (t_st t) j) (nthc sq j) = true).
Proof. exact valid_shape. Qed.
Print Assumptions C19_valid_shape.
