(* C03 NUPACK .des output is constraint-equivalent to the source program -- PARTIAL:
   proved on the .des model: the sequence list assigned to a structure re-reads (names through
   their own `sequence` lines, `*` as reverse complement, zero-length domains skipped) to exactly
   the nucleotides of the structure's strands in order; the auxiliary duplex of length L pairs
   position L-1-i of its first strand with position L+i, i.e. its second strand is forced to be
   the reverse complement of the first (so `Self: WC signal` makes WC the complement, a starred
   binding `dup: signal port` makes the port complementary, an unstarred one `dup: WC port`
   makes it equal).  NOT proved: the global equivalence of the two constraint sets; it is
   decided per case by the partition oracle over all structure positions. *)
From Coq Require Import List String Ascii Arith.
From PC Require Import Comp.Syntax Comp.Compile Comp.Denote Comp.EmitProofs Design.Designer Sys.System Sys.Des Sys.DesProofs.
Import ListNotations.

Theorem C03_assignment_rereads_partial : forall c, WF c -> forall l, (forall x, In x l -> ahas (c_bases c) (fst x) = true) ->
  resolve_items (env_bases c (c_bases c)) (emit_brefs c l) = Some (flatB c l).
Proof. exact assign_rereads. Qed.
Print Assumptions C03_assignment_rereads_partial.

Theorem C03_structure_sequences_are_its_strands : forall c u, flatB c (struct_bases c u) =
  flat_map (fun n => match afind (c_strands c) n with Some t => flatB c (s_base (t_sup t)) | None => [] end) (u_strands u).
Proof. exact struct_bases_concat. Qed.
Print Assumptions C03_structure_sequences_are_its_strands.

Theorem C03_duplex_bonds : forall L, get_bonds (duplex L) = OK (combine (rev (seq 0 L)) (seq L L)).
Proof. exact duplex_bonds. Qed.
Print Assumptions C03_duplex_bonds.
