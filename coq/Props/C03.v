(* C03 NUPACK .des output is constraint-equivalent to the source program -- PARTIAL:
   proved on the .des model: the sequence list assigned to a structure re-reads (names through
   their own `sequence` lines, `*` as reverse complement, zero-length domains skipped) to exactly
   the nucleotides of the structure's strands in order; the auxiliary duplex of length L pairs
   position L-1-i of its first strand with position L+i; for EVERY nucleotide assignment such a
   duplex holds exactly when its second strand is the reverse complement of its first
   (C03_duplex_forces_complement), hence - given the signal's own Self structure - the structure the
   back-end writes for an unstarred binding holds exactly when the port equals the signal and the
   one for a starred binding exactly when the port is the signal's reverse complement, which is
   what the `equal` line of the PIL back-end says (C03_binding_equal / C03_binding_complement);
   C03_signal_lines states which lines are written for a signal and each of its bindings.
   For one component the whole document is covered (C03_component_document_equivalent): a nucleotide
   assignment satisfies every sequence template and every structure of the .des written for a compiled
   component - read with the document's own sequence lines as environment - exactly when it satisfies
   the component's templates and target structures on its strands' nucleotides.
   For a whole nested system (C03_system_document_equivalent): if no sequence and no structure is defined twice
   in the document (the open known finding of this property is exactly a document that defines one auxiliary
   duplex twice) and the loaded system is well formed (components compiled, every bound port of the signal's
   length, nested bindings naming a signal of the sub-system), then an assignment satisfies the document exactly
   when it satisfies every component, every signal's auxiliary sequence is the signal's reverse complement, and
   every port bound to a signal equals the signal - or its reverse complement when the binding is starred - at
   every depth.  Well-formedness is a theorem about whatever load_file accepts (LoadWf: an invariant of run_stmts
   over the bindings), so for every document the .des back-end compiles the only hypothesis left is that no name
   is defined twice (C03_compiled_document_equivalent); both hypotheses also exist as booleans (sys_okb,
   des_doc_okb; sound by C03_hypotheses_sound) that the extracted model evaluates on every system the
   correspondence check loads.  The partition oracle of the correspondence check decides the equivalence on
   the real .des independently per case. *)
From Coq Require Import List String Ascii Arith.
From PC Require Import Comp.Syntax Comp.Compile Comp.Denote Comp.EmitProofs Design.Designer Sys.System Sys.Des Sys.DesProofs Sys.SignalProofs Sys.DesEquiv Sys.DesSys Sys.LoadWf.
Import ListNotations.

Theorem C03_assignment_rereads_partial : forall c, WF c -> forall l, (forall x, In x l -> ahas (c_bases c) (fst x) = true) ->
  resolve_items (env_bases c (c_bases c)) (emit_brefs c l) = Some (flatB c l).
Proof. exact assign_rereads. Qed.
Print Assumptions C03_assignment_rereads_partial.

Theorem C03_structure_sequences_are_its_strands : forall c u, flatB c (struct_bases c u) =
  flat_map (fun n => match afind (c_strands c) n with Some t => flatB c (s_base (t_sup t)) | None => [] end) (u_strands u).
Proof. exact struct_bases_concat. Qed.
Print Assumptions C03_structure_sequences_are_its_strands.

Theorem C03_duplex_bonds : forall L, get_bonds (duplex L) = OK (combine (rev (seq 0 L)) (seq L L)).
Proof. exact duplex_bonds. Qed.
Print Assumptions C03_duplex_bonds.

Theorem C03_duplex_forces_complement : forall v a b L, List.length a = L -> List.length b = L ->
  (sat_bonds v (a ++ b) (combine (rev (seq 0 L)) (seq L L)) <-> seqval v b = rcb (seqval v a)).
Proof. exact duplex_sat. Qed.
Print Assumptions C03_duplex_forces_complement.

Theorem C03_binding_equal : forall v sg wcn port L, List.length sg = L -> List.length wcn = L -> List.length port = L ->
  sat_bonds v (wcn ++ sg) (combine (rev (seq 0 L)) (seq L L)) ->
  (sat_bonds v (wcn ++ port) (combine (rev (seq 0 L)) (seq L L)) <-> seqval v port = seqval v sg).
Proof. exact des_binding_equal. Qed.
Print Assumptions C03_binding_equal.

Theorem C03_binding_complement : forall v sg port L, List.length sg = L -> List.length port = L ->
  (sat_bonds v (sg ++ port) (combine (rev (seq 0 L)) (seq L L)) <-> seqval v (rc port) = seqval v sg).
Proof. exact des_binding_complement. Qed.
Print Assumptions C03_binding_complement.

Theorem C03_signal_lines : forall f prefix comps sigs lens i o sname entries,
  In (sname, entries) sigs ->
  let len := match afind lens sname with Some l => l | None => 0 end in
  let sg := prefix +++ sname in let wcn := sg +++ "-_WC" in
  let out := emit_des_obj (S f) (OSys prefix comps sigs lens i o) in
  In (DStruct (sg +++ "-_Self") (duplex len)) out /\ In (DAssign (sg +++ "-_Self") [(wcn, false); (sg, false)]) out /\
  forall l cname wc, In (l, cname, wc) entries ->
    let dn := sg +++ "-" +++ fst (binding_seqs prefix comps l cname) in
    In (DStruct dn (duplex len)) out /\
    In (DAssign dn (((if wc then sg else wcn), false) :: snd (binding_seqs prefix comps l cname))) out.
Proof. exact des_signal_lines. Qed.
Print Assumptions C03_signal_lines.


(* one component, the whole document: no more and no fewer constraints than the source *)
Theorem C03_component_document_equivalent : forall ctr prefix d body c ctr', compile_comp ctr prefix d body = OK (c, ctr') ->
  forall v, des_sat v (emit_des_comp c) <-> src_sat v c.
Proof. exact compiled_des_equiv. Qed.
Print Assumptions C03_component_document_equivalent.

(* a whole nested system: the document says what the components, the signals and their bindings say *)
Theorem C03_system_document_equivalent : forall f o v, sys_okb f o = true -> des_doc_okb (emit_des_obj f o) = true ->
  (des_sat v (emit_des_obj f o) <-> sys_sat v f o).
Proof. exact des_system_equiv_b. Qed.
Print Assumptions C03_system_document_equivalent.

Theorem C03_hypotheses_sound : forall f o, sys_okb f o = true -> sys_wf f o.
Proof. exact sys_okb_sound. Qed.
Print Assumptions C03_hypotheses_sound.

Theorem C03_system_nonvacuous : sys_okb 12 demo_system = true /\ des_doc_okb (emit_des_obj 12 demo_system) = true /\
  List.length (emit_des_obj 12 demo_system) = 16.
Proof. exact demo_system_hypotheses. Qed.
Print Assumptions C03_system_nonvacuous.

(* whatever the .des back-end compiles, at any depth of nesting: if no name is defined twice, the document says
   exactly what the components, the signals and their bindings say *)
Theorem C03_compiled_document_equivalent : forall fs includes ctr basename args lines ctr',
  compile_des fs includes ctr basename args = OK (lines, ctr') ->
  NoDup (map fst (des_env lines)) -> NoDup (dstruct_names lines) ->
  exists o, load_file fs includes 12 ctr basename args "" "." = OK (o, ctr') /\ forall v, des_sat v lines <-> sys_sat v 12 o.
Proof. exact compiled_des_system_equiv. Qed.
Print Assumptions C03_compiled_document_equivalent.

Theorem C03_loaded_systems_well_formed : forall fs includes fuel ctr b args prefix path o ctr',
  load_file fs includes fuel ctr b args prefix path = OK (o, ctr') -> sys_wf fuel o.
Proof. intros fs includes fuel ctr b args prefix path o ctr' H. exact (proj1 (load_file_sys_wf fs includes fuel ctr b args prefix path o ctr' H)). Qed.
Print Assumptions C03_loaded_systems_well_formed.
