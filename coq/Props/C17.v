(* C17 Finish refuses designs that are inconsistent with the saved system (components and whole systems).
   Proved on the model of apply_design: a successful base pass means every non-empty base
   sequence takes its record's string of the right length whose reverse complement is the starred
   record; the result depends only on the records of base sequences, their starred names and
   structures (so corrupting any other record changes nothing); a changed base record, a changed
   starred record or a missing one is refused.  For a (nested) system finishing applies every leaf
   component: a refused record of any base sequence of any instance refuses the whole run, success means every
   instance succeeded, and records no instance looks at do not matter (C17_system_...).  Field- and byte-level corruptions go through the
   pyparsing record grammar, which is exercised by fault enumeration, not modelled. *)
From Coq Require Import List String Ascii Arith Bool.
From PC Require Import Base.Codes Comp.Syntax Comp.Compile Sys.System Finish.Apply Finish.ApplyProofs Design.SysFinish Finish.ApplySys.
Import ListNotations.

Theorem C17_ok_means_consistent : forall t prefix bs vals, base_values t prefix bs = OK vals ->
  map fst vals = map fst bs /\
  forall n b, In (n, b) bs -> exists v, In (n, v) vals /\
    (b_len b = 0 -> v = []) /\
    (b_len b <> 0 -> t (prefix +++ n) = Some v /\ List.length v = b_len b /\
       exists w, wc_codes v = Some w /\ t ((prefix +++ n) +++ "*") = Some w).
Proof. exact base_values_spec. Qed.
Print Assumptions C17_ok_means_consistent.

Theorem C17_irrelevant_records_do_not_matter : forall t t' c,
  (forall n b, In (n, b) (c_bases c) -> t (c_prefix c +++ n) = t' (c_prefix c +++ n) /\
                                        t ((c_prefix c +++ n) +++ "*") = t' ((c_prefix c +++ n) +++ "*")) ->
  (forall n u, In (n, u) (c_structs c) -> t (c_prefix c +++ n) = t' (c_prefix c +++ n)) ->
  apply_comp t c = apply_comp t' c.
Proof. exact apply_comp_ext. Qed.
Print Assumptions C17_irrelevant_records_do_not_matter.

Theorem C17_changed_base_record_refused : forall t full b v v' w,
  b_len b <> 0 -> t full = Some v' -> t (full +++ "*") = Some w ->
  wc_codes v = Some w -> v' <> v -> exists k, base_value t full b = Err k.
Proof. exact changed_base_record_refused. Qed.
Print Assumptions C17_changed_base_record_refused.

Theorem C17_changed_star_record_refused : forall t full b v w w',
  b_len b <> 0 -> t full = Some v -> List.length v = b_len b -> wc_codes v = Some w ->
  t (full +++ "*") = Some w' -> w' <> w -> exists k, base_value t full b = Err k.
Proof. exact changed_star_record_refused. Qed.
Print Assumptions C17_changed_star_record_refused.

Theorem C17_missing_record_refused : forall t full b, b_len b <> 0 -> (t full = None \/ t (full +++ "*") = None) ->
  exists k, base_value t full b = Err k.
Proof. exact missing_base_record_refused. Qed.
Print Assumptions C17_missing_record_refused.

(* whole systems *)
Theorem C17_system_ok_means_every_instance_ok : forall t f o r, apply_obj f t o = OK r ->
  forall c, In c (leaves f o) -> exists rc, apply_comp t c = OK rc.
Proof. exact apply_obj_ok_leaves. Qed.
Print Assumptions C17_system_ok_means_every_instance_ok.

Theorem C17_system_bad_record_refused : forall t f o c n b k, In c (leaves f o) -> In (n, b) (c_bases c) ->
  base_value t (c_prefix c +++ n) b = Err k -> forall r, apply_obj f t o <> OK r.
Proof. exact apply_obj_refuses. Qed.
Print Assumptions C17_system_bad_record_refused.

Theorem C17_system_irrelevant_records_do_not_matter : forall t t' f o,
  (forall c, In c (leaves f o) -> apply_comp t c = apply_comp t' c) -> apply_obj f t o = apply_obj f t' o.
Proof. exact apply_obj_ext. Qed.
Print Assumptions C17_system_irrelevant_records_do_not_matter.
