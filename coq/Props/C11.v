(* C11 Degenerate-base tables form a consistent, complement-closed algebra.
   Property theorems only; each is closed by [exact] and followed by Print Assumptions.
   TablesGen.v is regenerated from /repo on every run, so these are re-checked against
   what the source says now. *)
From Coq Require Import List String Ascii.
From PC Require Import Base.Codes Base.TablesGen Base.Tables.

(* every code's complement denotes exactly the complements of its bases *)
Theorem C11_compl_sound : forall c g, group c = Some g ->
  exists c', compl_code c = Some c' /\ group c' = Some (bset_compl g).
Proof. exact compl_sound. Qed.
Print Assumptions C11_compl_sound.

(* complementing twice is the identity *)
Theorem C11_compl_involutive : forall c c', compl_code c = Some c' -> compl_code c' = Some c.
Proof. exact compl_involutive. Qed.
Print Assumptions C11_compl_involutive.

(* reverse-complementing any sequence of codes twice returns it (all strings) *)
Theorem C11_wc_involutive : forall l l', wc_codes l = Some l' -> wc_codes l' = Some l.
Proof. exact wc_involutive. Qed.
Print Assumptions C11_wc_involutive.

(* the intersection of two codes sharing a base is a code every tool accepts *)
Theorem C11_inter_closed : forall a b ga gb, group a = Some ga -> group b = Some gb ->
  bempty (binter ga gb) = false ->
  exists c, code_inter a b = IOk c /\ group c = Some (binter ga gb) /\ accepted_everywhere c = true.
Proof. exact inter_closed. Qed.
Print Assumptions C11_inter_closed.

(* the three Python copies, and C's WC / degenerates / randbasec, agree on every character *)
Theorem C11_copies_agree :
  group_copy_ok py_group_dna /\ group_copy_ok py_group_pil /\ group_copy_ok py_group_nupack /\
  compl_copy_ok py_compl_dna /\ compl_copy_ok py_compl_pil /\ compl_copy_ok py_compl_nupack /\
  group_copy_ok c_randbase /\
  (forall c, c_WC c = match compl_code c with Some x => x | None => " "%char end) /\
  (forall t b, in_degenerates t b = model_compatible t b).
Proof. exact copies_agree. Qed.
Print Assumptions C11_copies_agree.

Theorem C11_codes_accepted : forall c, match group c with Some _ => accepted_everywhere c | None => true end = true.
Proof. exact codes_accepted. Qed.
Print Assumptions C11_codes_accepted.
