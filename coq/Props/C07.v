(* C07 Constraint propagation computes exactly the parity closure. *)
From Coq Require Import List.
From PC Require Import Design.Propagate Design.PropagateProofs.
Import ListNotations.

(* For every symmetric link graph whose link targets are keys, the model of
   propagate_constraints terminates without assertion and gives every key exactly the items
   reachable by an even (eq) resp. odd (wc) number of complementary links, itself included. *)
Theorem C07_propagate_exact : forall (eq wc : nat -> list nat) (U : list nat),
  (forall y, In y U -> (forall z, In z (eq y) -> In z U) /\ (forall z, In z (wc y) -> In z U)) ->
  (forall y z, In z (eq y) -> In y (eq z)) -> (forall y z, In z (wc y) -> In y (wc z)) ->
  exists m, propagate eq wc U = OOk m /\
  forall x, In x U -> exists E W, get m x = Some (E, W) /\
    (forall z, In z E <-> conn eq wc x false z) /\ (forall z, In z W <-> conn eq wc x true z).
Proof. exact propagate_exact. Qed.
Print Assumptions C07_propagate_exact.

(* the result does not depend on the order in which keys or links are listed *)
Theorem C07_order_independent : forall eq wc U eq' wc' U',
  wf_graph eq wc U -> wf_graph eq' wc' U' ->
  (forall x, In x U <-> In x U') ->
  (forall y z, In z (eq y) <-> In z (eq' y)) -> (forall y z, In z (wc y) <-> In z (wc' y)) ->
  exists m m', propagate eq wc U = OOk m /\ propagate eq' wc' U' = OOk m' /\
    forall x, In x U -> exists E W E' W', get m x = Some (E, W) /\ get m' x = Some (E', W') /\
      (forall z, In z E <-> In z E') /\ (forall z, In z W <-> In z W').
Proof. exact propagate_order_independent. Qed.
Print Assumptions C07_order_independent.
