(* C12 Fixing sequences only ever narrows constraints, at the right positions.
   Proved: (base case, Sequence.fix_seq / ReverseSequence.fix_seq) per position the new code
   denotes exactly the intersection; wrong length and empty intersection are errors; only the
   addressed sequence changes, its length is kept, a failed fix changes nothing; a starred domain
   is fixed through the reverse complement.  (Composite case) in any well-formed component,
   SuperSequence.fix_seq over a nested item list (super-sequences, strands, complemented views)
   equals fixing the flattened base-sequence references left to right, each with its own slice of
   the string (C12_composite_flat), and every base sequence ends with its old constraint
   intersected, in order, with each slice that lands on one of its occurrences, reverse
   complemented for starred occurrences, everything else untouched (C12_composite_positions).
   At system level the "changes nothing else" clause is proved for the model's fix_signal / fix_at
   (FixFrame): fixing a signal keeps the system's own tables and instance names and can only change the
   instances named in the signal's bindings; a fix through a qualified name changes only the addressed
   instance.  Which string reaches which port through nested systems (the star rule) and the warning
   path are tied to the code by correspondence and checked per case against the per-nucleotide oracle. *)
From Coq Require Import List String Ascii Arith Bool.
From PC Require Import Base.Sexp.
From PC Require Import Base.Codes Comp.Syntax Comp.Compile Comp.EmitProofs Comp.Fix Comp.FixProofs Comp.FixComposite Sys.System Sys.FixFrame Comp.FixShape Sys.DesSys Sys.FixSys Sys.FixSignalSpec Sys.LoadWf Sys.FixLeaf.
Import ListNotations.

Theorem C12_position_is_intersection : forall old fixed k, List.length old = List.length fixed -> inter_consts old fixed = (k, FOk) ->
  List.length k = List.length old /\
  forall i o f, nth_error old i = Some o -> nth_error fixed i = Some f ->
    exists c go gf, nth_error k i = Some c /\ group o = Some go /\ group f = Some gf /\ group c = Some (binter go gf) /\ bempty (binter go gf) = false.
Proof. exact inter_consts_spec. Qed.
Print Assumptions C12_position_is_intersection.

Theorem C12_errors : forall bs n b fixed, afind bs n = Some b ->
  (List.length fixed <> b_len b -> snd (fix_base bs n fixed) = FFail "length") /\
  (forall i o f go gf, List.length fixed = b_len b -> List.length (b_const b) = b_len b ->
     nth_error (b_const b) i = Some o -> nth_error fixed i = Some f ->
     group o = Some go -> group f = Some gf -> bempty (binter go gf) = true ->
     (forall j o' f', j < i -> nth_error (b_const b) j = Some o' -> nth_error fixed j = Some f' ->
        exists c, code_inter o' f' = IOk c) ->
     snd (fix_base bs n fixed) = FFail "conflict").
Proof. exact fix_base_errors. Qed.
Print Assumptions C12_errors.

Theorem C12_changes_nothing_else : forall bs n fixed bs', fix_base bs n fixed = (bs', FOk) ->
  (forall m, m <> n -> afind bs' m = afind bs m) /\
  (forall b, afind bs n = Some b -> exists k, afind bs' n = Some {| b_len := b_len b; b_const := k; b_anon := b_anon b |} /\
       inter_consts (b_const b) fixed = (k, FOk) /\ List.length fixed = b_len b).
Proof. exact fix_base_frame. Qed.
Print Assumptions C12_changes_nothing_else.

Theorem C12_failed_fix_unchanged : forall bs n fixed bs' st, fix_base bs n fixed = (bs', st) -> st <> FOk -> bs' = bs.
Proof. exact fix_base_fail_unchanged. Qed.
Print Assumptions C12_failed_fix_unchanged.

Theorem C12_starred_domain : forall bs n fixed w, wc_codes fixed = Some w -> fix_bref bs (n, true) fixed = fix_base bs n w.
Proof. exact fix_bref_star. Qed.
Print Assumptions C12_starred_domain.

Theorem C12_composite_flat : forall c, WF c -> forall s before bs fixed, sup_ok c before s ->
  (forall m, ahas before m = true -> ahas (c_sups c) m = true) -> lens_agree c bs ->
  fix_sup c bs s fixed = if negb (Nat.eqb (List.length fixed) (s_len s)) then (bs, FFail "length")
                         else fix_brefs bs (s_base s) fixed.
Proof. exact fix_sup_flat. Qed.
Print Assumptions C12_composite_flat.

Theorem C12_composite_positions : forall l bs fixed bs', fix_brefs bs l fixed = (bs', FOk) ->
  forall n, match afind bs n with
            | Some b => exists k, afind bs' n = Some {| b_len := b_len b; b_const := k; b_anon := b_anon b |} /\
                                  fold_inter (b_const b) (slices bs l fixed n) = (k, FOk)
            | None => afind bs' n = None
            end.
Proof. exact fix_brefs_spec. Qed.
Print Assumptions C12_composite_positions.

(* system level: a signal fix / a qualified fix changes nothing but the instances it addresses *)
Theorem C12_signal_fix_changes_nothing_else : forall f o name fixed o' st, fix_signal f o name fixed = (o', st) ->
  frame o o' (fun cn => exists entries l wc, (match o with OSys _ _ sigs _ _ _ => afind sigs name | OComp _ => None end) = Some entries /\ In (l, cn, wc) entries).
Proof. exact fix_signal_frame. Qed.
Print Assumptions C12_signal_fix_changes_nothing_else.

Theorem C12_qualified_fix_changes_nothing_else : forall f p comps sigs lens i oo name k o' st,
  fix_at (S f) (OSys p comps sigs lens i oo) name k = (o', st) ->
  exists comps', o' = OSys p comps' sigs lens i oo /\ map fst comps' = map fst comps /\
    forall cn, (forall rest, first_dash name <> Some (cn, rest)) -> afind comps' cn = afind comps cn.
Proof. exact fix_at_frame. Qed.
Print Assumptions C12_qualified_fix_changes_nothing_else.

(* the star rule through nesting: every starred level reverse-complements the string once; two cancel *)
Theorem C12_nested_binding_star_rule : forall f p comps sigs lens i oo name s cname (wc : bool) sub fixed fx,
  afind sigs name = Some [(LSig s, cname, wc)] -> afind comps cname = Some sub ->
  (if wc then wc_codes fixed else Some fixed) = Some fx ->
  fix_signal (S f) (OSys p comps sigs lens i oo) name fixed =
  (OSys p (upd comps cname (fst (fix_signal f sub s fx))) sigs lens i oo, snd (fix_signal f sub s fx)).
Proof. exact fix_signal_nested_single. Qed.
Print Assumptions C12_nested_binding_star_rule.

Theorem C12_double_star_cancels : forall f p comps sigs lens i oo name s cname p2 comps2 sigs2 lens2 i2 oo2 s2 cname2 sub2 fixed w,
  afind sigs name = Some [(LSig s, cname, true)] -> afind comps cname = Some (OSys p2 comps2 sigs2 lens2 i2 oo2) ->
  afind sigs2 s = Some [(LSig s2, cname2, true)] -> afind comps2 cname2 = Some sub2 ->
  wc_codes fixed = Some w ->
  fix_signal (S (S f)) (OSys p comps sigs lens i oo) name fixed =
  (OSys p (upd comps cname (OSys p2 (upd comps2 cname2 (fst (fix_signal f sub2 s2 fixed))) sigs2 lens2 i2 oo2)) sigs lens i oo, snd (fix_signal f sub2 s2 fixed)).
Proof. exact double_star_cancels. Qed.
Print Assumptions C12_double_star_cancels.

(* "changes nothing else", every kind of entry at once: whatever entry of a fixed file is applied to a component and
   whatever its outcome, the base table keeps its names, lengths and anonymity flags in order, and constraint strings keep
   the lengths of their sequences and stay strings of the 15 codes - only constraint characters can differ *)
Theorem C12_entry_changes_only_constraints : forall c bs kind name fixed,
  let bs' := fst (fix_entry_comp c bs kind name fixed) in
  map (fun nb => (fst nb, b_len (snd nb), b_anon (snd nb))) bs' = map (fun nb => (fst nb, b_len (snd nb), b_anon (snd nb))) bs /\
  ((forall n b, In (n, b) bs -> List.length (b_const b) = b_len b) -> forall n b, In (n, b) bs' -> List.length (b_const b) = b_len b) /\
  ((forall n b, In (n, b) bs -> codes_ok (b_const b) = true) -> forall n b, In (n, b) bs' -> codes_ok (b_const b) = true).
Proof. exact fix_entry_comp_shape. Qed.
Print Assumptions C12_entry_changes_only_constraints.

(* the same for a whole fixed file on a (nested) system: the result is the same tree of instances - same prefixes, instance
   names, signal tables, lengths and ports at every depth - whose components differ from the loaded ones only in
   constraint characters (osame: set_bases with a table of the same shape) *)
Theorem C12_file_changes_only_constraints : forall entries o o', sys_wf 12 o -> fix_all o entries = OK o' -> osame 12 o o'.
Proof. exact fix_all_osame. Qed.
Print Assumptions C12_file_changes_only_constraints.

(* which string reaches which port, any nesting: whenever fixing a signal of a well-formed (nested) system succeeds, the
   result is that of the leaf fixes, one per component port the signal is bound to at any depth, in binding order; the
   string applied at a port is the given one reverse-complemented when the number of starred bindings above the port is
   odd (flipn of the accumulated parity), and the port's own star is the star of the reference handed to the
   component-level fix (C12_starred_domain / C12_composite_positions then say what that does to each position) *)
Theorem C12_signal_fix_is_leaf_fixes : forall f o name fixed o', sys_wf f o -> fix_signal f o name fixed = (o', FOk) ->
  run_leaves o (sig_leaves f o name false) fixed = (o', FOk).
Proof. exact fix_signal_top. Qed.
Print Assumptions C12_signal_fix_is_leaf_fixes.

(* entries addressed by a qualified name instance-...-instance-name: the component-level fix is applied at the instance the
   path leads to, and (C12_qualified_fix_changes_nothing_else) nowhere else *)
Theorem C12_qualified_fix_is_fix_at_instance : forall k path f o n, List.length path < f ->
  Forall (fun cn => ~ In "-"%char (chars cn)) path -> reaches o path ->
  fix_at f o (qualify path n) k = apply_at o path (fun c => k c n).
Proof. exact fix_at_is_apply_at. Qed.
Print Assumptions C12_qualified_fix_is_fix_at_instance.

(* a name that does not exist only produces a warning: whatever the kind of the entry, the object is left as it is and the
   rest of the file is applied as if the entry were not there *)
Theorem C12_unknown_name_only_warns : forall c kind name fixed rest,
  ahas (c_bases c) name = false -> afind (c_sups c) name = None -> afind (c_strands c) name = None -> afind (c_structs c) name = None ->
  fix_all (OComp c) ((kind, name, fixed) :: rest) = fix_all (OComp c) rest.
Proof. exact unknown_name_is_skipped. Qed.
Print Assumptions C12_unknown_name_only_warns.

(* ... and what each leaf fix does: at a port of a well-formed component it is the fix of the port's flattened base-sequence
   references - of the reverse-complemented view when the binding is starred - left to right with their own slices of the
   string (a wrong length is the error), so C12_composite_positions gives the per-position intersections for signals too *)
Theorem C12_leaf_fix_is_flat_fix : forall c x wc s, WF c -> port_ok c x ->
  leaf_fix x wc s c = if negb (Nat.eqb (List.length s) (ref_len c x)) then (c_bases c, FFail "length")
                      else fix_brefs (c_bases c) (ref_base c (restar x wc)) s.
Proof. exact leaf_fix_flat. Qed.
Print Assumptions C12_leaf_fix_is_flat_fix.
