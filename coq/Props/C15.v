(* C15 Over-constrained specifications are reported, not passed on.
   Proved for the designer model, for every document whose seeded link graph passes graph_ok:
   constraint generation reports over-constraint exactly when no nucleotide assignment satisfies
   every template and every equal / complementary link of the seeded graph (C15_over_iff_unsat),
   and otherwise returns arrays (C15_seeded_total); in particular a node forced complementary
   to itself, or a class with no common base, is always reported (C15_failure_reason), and a
   satisfiable graph is never rejected for this reason.
   At the level of the document (both layouts, C15_over_iff_document_unsat): over-constraint is
   reported exactly when no assignment of bases to the nucleotides of the declared sequences
   respects their templates, the equal statements and the base pairs of the target structures
   (doc_sat), under the booleans same_graph / spec_okb / dgraph_ok - which are theorems for every loaded and seeded
   document in both layouts (C15_loaded_..., C15_struct_...).  In the strand layout seed never fails on a loaded
   document; in the structure layout it succeeds exactly when every strand with nucleotides occurs in a structure. *)
From Coq Require Import List String Ascii Arith.
From PC Require Import Base.Codes Comp.Syntax Comp.Compile Design.Propagate Design.PropagateProofs Design.Designer Design.DesignerProofs Design.TemplateProofs
  Design.Contraction Design.DGraph Design.DenoteGraph Design.DenoteTie Design.DenoteSat Design.Loaded Design.SeedTotal Design.LoadProofs Design.StructTotal Design.LoadedStruct.
Import ListNotations.

Theorem C15_odd_cycle_reported : forall g m,
  (forall x, In x (g_keys g) -> exists E W, get m x = Some (E, W) /\
     (forall z, In z E <-> gconn g x false z) /\ (forall z, In z W <-> gconn g x true z)) ->
  forall st st' b, templates m (g_keys g) st [] = (Some st', b) ->
  forall x, In x (g_keys g) -> ~ gconn g x true x.
Proof. exact odd_cycle_reported. Qed.
Print Assumptions C15_odd_cycle_reported.

Theorem C15_closure_exact : forall g, graph_closed g = true ->
  exists m, propagate (adj (g_eq g)) (adj (g_wc g)) (g_keys g) = OOk m /\
  forall x, In x (g_keys g) -> exists E W, get m x = Some (E, W) /\
    (forall z, In z E <-> gconn g x false z) /\ (forall z, In z W <-> gconn g x true z).
Proof. exact closure_exact. Qed.
Print Assumptions C15_closure_exact.

Theorem C15_over_iff_unsat : forall p so lay g, seed p so = OK (lay, g) -> graph_ok g = true ->
  (get_constraints p so = DOver <-> ~ exists a, gsat g a).
Proof. exact over_iff_unsat. Qed.
Print Assumptions C15_over_iff_unsat.

Theorem C15_seeded_total : forall p so lay g, seed p so = OK (lay, g) -> graph_ok g = true ->
  get_constraints p so = DOver \/ exists e w s, get_constraints p so = DOk e w s.
Proof. exact seeded_total. Qed.
Print Assumptions C15_seeded_total.

(* why template propagation fails: a node forced complementary to itself, or an empty class *)
Theorem C15_failure_reason : forall g m, graph_closed g = true ->
  (forall x, In x (g_keys g) -> exists E W, get m x = Some (E, W) /\
     (forall z, In z E <-> gconn g x false z) /\ (forall z, In z W <-> gconn g x true z)) ->
  forall st0, map fst st0 = g_keys g -> (forall x, In x (g_keys g) -> group (st_of st0 x) <> None) ->
  forall bb, templates m (g_keys g) st0 [] = (None, bb) ->
  bb = true /\ exists x, In x (g_keys g) /\ (gconn g x true x \/ forall b, ~ in_class g st0 x b).
Proof. exact templates_reports. Qed.
Print Assumptions C15_failure_reason.

(* the assignment exhibited on success *)
Theorem C15_success_gives_assignment : forall g m, graph_closed g = true ->
  (forall x, In x (g_keys g) -> exists E W, get m x = Some (E, W) /\
     (forall z, In z E <-> gconn g x false z) /\ (forall z, In z W <-> gconn g x true z)) ->
  forall st0, map fst st0 = g_keys g -> (forall x, In x (g_keys g) -> group (st_of st0 x) <> None) ->
  ((exists st' b, templates m (g_keys g) st0 [] = (Some st', b)) <-> exists a, sat g st0 a).
Proof. exact templates_succeed_iff_sat. Qed.
Print Assumptions C15_success_gives_assignment.

(* document-level statement, either layout: satisfiability of the seeded graph is satisfiability of the document *)
Theorem C15_gsat_iff_doc_sat : forall (p : pspec) (lay : layout) (so : bool) (g : cgraph),
  spec_okb p so = true -> dgraph_ok p lay so = true -> same_graph p lay so g = true -> graph_ok g = true ->
  ((exists a, gsat g a) <-> doc_sat p so).
Proof. exact gsat_iff_doc_sat. Qed.
Print Assumptions C15_gsat_iff_doc_sat.

Theorem C15_over_iff_document_unsat : forall (p : pspec) (so : bool) (lay : layout) (g : cgraph),
  seed p so = OK (lay, g) -> graph_ok g = true ->
  spec_okb p so = true -> dgraph_ok p lay so = true -> same_graph p lay so g = true ->
  (get_constraints p so = DOver <-> ~ doc_sat p so).
Proof. exact over_iff_document_unsat. Qed.
Print Assumptions C15_over_iff_document_unsat.

(* strand layout, no per-case hypothesis: every loaded and seeded document *)
Theorem C15_loaded_over_iff_document_unsat : forall (ls : list pline) (p : pspec) (lay : layout) (g : cgraph),
  load_spec ls pspec0 = OK p -> seed p false = OK (lay, g) ->
  (get_constraints p false = DOver <-> ~ doc_sat p false).
Proof. exact loaded_over_iff_document_unsat. Qed.
Print Assumptions C15_loaded_over_iff_document_unsat.

(* whatever the document: an error of the loader / seeder, the report, or arrays - nothing else *)
Theorem C15_design_arrays_cases : forall ls : list pline, (exists k, design_arrays ls false = DErr k) \/
  exists p lay g, load_spec ls pspec0 = OK p /\ seed p false = OK (lay, g) /\
    (design_arrays ls false = DOver \/ exists e w s, design_arrays ls false = DOk e w s).
Proof. exact design_arrays_cases. Qed.
Print Assumptions C15_design_arrays_cases.

(* strand layout: seed never fails on a loaded document, so every loaded document gets the report or arrays,
   and the only errors of constraint generation are the loader's *)
Theorem C15_loaded_design_total : forall ls p, load_spec ls pspec0 = OK p ->
  design_arrays ls false = DOver \/ exists e w s, design_arrays ls false = DOk e w s.
Proof. exact loaded_design_total. Qed.
Print Assumptions C15_loaded_design_total.

Theorem C15_design_arrays_error : forall ls k, design_arrays ls false = DErr k -> load_spec ls pspec0 = Err k.
Proof. exact design_arrays_error. Qed.
Print Assumptions C15_design_arrays_error.

Theorem C15_seed_total : forall ls p, load_spec ls pspec0 = OK p -> exists g, seed p false = OK (build_layout p false, g).
Proof. exact seed_total. Qed.
Print Assumptions C15_seed_total.

(* structure-oriented layout, every loaded and seeded document *)
Theorem C15_struct_loaded_over_iff_document_unsat : forall (ls : list pline) (p : pspec) (lay : layout) (g : cgraph),
  load_spec ls pspec0 = OK p -> seed p true = OK (lay, g) ->
  (get_constraints p true = DOver <-> ~ doc_sat p true).
Proof. exact sloaded_over_iff_document_unsat. Qed.
Print Assumptions C15_struct_loaded_over_iff_document_unsat.

Theorem C15_struct_design_arrays_cases : forall ls : list pline, (exists k, design_arrays ls true = DErr k) \/
  exists p lay g, load_spec ls pspec0 = OK p /\ seed p true = OK (lay, g) /\
    (design_arrays ls true = DOver \/ exists e w s, design_arrays ls true = DOk e w s).
Proof. exact design_arrays_cases_struct. Qed.
Print Assumptions C15_struct_design_arrays_cases.

(* in the structure layout seed succeeds on a loaded document exactly when every strand with nucleotides
   occurs in a structure, and every such document gets the report or arrays *)
Theorem C15_struct_seed_iff_placed : forall ls p, load_spec ls pspec0 = OK p ->
  ((exists g, seed p true = OK (build_layout p true, g)) <->
   (forall n items l d, In (n, (items, l, d)) (p_strands p) -> l <> 0 -> first_inst_in p (p_structs p) n <> None)).
Proof. exact seed_struct_iff_placed. Qed.
Print Assumptions C15_struct_seed_iff_placed.

Theorem C15_struct_loaded_design_total : forall ls p, load_spec ls pspec0 = OK p ->
  (forall n items l d, In (n, (items, l, d)) (p_strands p) -> l <> 0 -> first_inst_in p (p_structs p) n <> None) ->
  design_arrays ls true = DOver \/ exists e w s, design_arrays ls true = DOk e w s.
Proof. exact sloaded_design_total. Qed.
Print Assumptions C15_struct_loaded_design_total.
