(* C15 Over-constrained specifications are reported, not passed on -- PARTIAL:
   proved: whenever template propagation of the model succeeds, no initialised node is forced
   complementary to itself (so a hairpin pairing a domain with itself, or any odd cycle, is
   always reported).  NOT yet proved: the template-conflict half (success implies a
   satisfying assignment exists / failure implies none); it is decided per case by the
   denotation-level satisfiability oracle of the correspondence check. *)
From Coq Require Import List String Ascii Arith.
From PC Require Import Comp.Compile Design.Propagate Design.PropagateProofs Design.Designer Design.DesignerProofs.
Import ListNotations.

Theorem C15_odd_cycle_reported_partial : forall g m,
  (forall x, In x (g_keys g) -> exists E W, get m x = Some (E, W) /\
     (forall z, In z E <-> gconn g x false z) /\ (forall z, In z W <-> gconn g x true z)) ->
  forall st st' b, templates m (g_keys g) st [] = (Some st', b) ->
  forall x, In x (g_keys g) -> ~ gconn g x true x.
Proof. exact odd_cycle_reported. Qed.
Print Assumptions C15_odd_cycle_reported_partial.

Theorem C15_closure_exact : forall g, graph_closed g = true ->
  exists m, propagate (adj (g_eq g)) (adj (g_wc g)) (g_keys g) = OOk m /\
  forall x, In x (g_keys g) -> exists E W, get m x = Some (E, W) /\
    (forall z, In z E <-> gconn g x false z) /\ (forall z, In z W <-> gconn g x true z).
Proof. exact closure_exact. Qed.
Print Assumptions C15_closure_exact.
