(* C02 System composition wires signals with the right orientation at any depth.
   Proved on the system model: import resolution (first matching directory, ambiguity, not
   found), argument binding and arity, orientation of a binding (equal when the stars agree,
   reverse complement when they differ), instance prefixes of every emitted name.  The
   recursion through nested systems is the model's load_file / emit_obj, tied to the code by
   correspondence on generated libraries; the composed denotation is checked per case by the
   specification oracle expected_system_den. *)
From Coq Require Import List String Ascii Arith Bool ZArith.
From PC Require Import Base.Sexp Comp.Syntax Comp.Compile Comp.Denote Comp.EmitProofs Subst.VarSubst Sys.System Sys.SystemProofs.
Import ListNotations.

Theorem C02_import_first_match : forall fs b paths,
  match search_file fs b paths with
  | OK (bp, e, d) =>
      exists pre p post, paths = pre ++ p :: post /\
        (forall q, In q pre -> has_sys fs q b = false /\ has_comp fs q b = false) /\
        xorb (has_sys fs p b) (has_comp fs p b) = true /\
        bp = path_join p b /\ d = dirname bp /\
        (fs_find fs (bp +++ ".sys") = Some e \/ fs_find fs (bp +++ ".comp") = Some e)
  | Err k =>
      (k = "ambiguous"%string /\ exists pre p post, paths = pre ++ p :: post /\
        (forall q, In q pre -> has_sys fs q b = false /\ has_comp fs q b = false) /\
        has_sys fs p b = true /\ has_comp fs p b = true)
      \/ (k = "not-found"%string /\ forall q, In q paths -> has_sys fs q b = false /\ has_comp fs q b = false)
  end.
Proof. exact import_first_match. Qed.
Print Assumptions C02_import_first_match.

Theorem C02_args_bound : forall names args e, zip_env names args = Some e ->
  List.length names = List.length args /\
  forall pre n post, names = pre ++ n :: post -> ~ In n post ->
    exists v, nth_error args (List.length pre) = Some v /\ lookup e n = Some v.
Proof. exact args_bound. Qed.
Print Assumptions C02_args_bound.

Theorem C02_args_arity : forall names args, List.length names <> List.length args -> zip_env names args = None.
Proof. exact args_arity. Qed.
Print Assumptions C02_args_arity.

Theorem C02_signal_parity : forall env name v bind decl rest r, afind env name = Some v -> resolve_items env rest = Some r ->
  resolve_items env ((name, xorb bind decl) :: rest) = Some (rcb bind (rcb decl v) ++ r).
Proof. exact signal_parity. Qed.
Print Assumptions C02_signal_parity.

Theorem C02_instance_names_prefixed : forall c l n, In l (emit_comp c) -> In n (line_names l) -> exists m, n = c_prefix c +++ m.
Proof. exact emit_comp_prefixed. Qed.
Print Assumptions C02_instance_names_prefixed.

Theorem C02_compile_keeps_prefix : forall ctr prefix d body c ctr', compile_comp ctr prefix d body = OK (c, ctr') -> c_prefix c = prefix.
Proof. exact compile_comp_prefix. Qed.
Print Assumptions C02_compile_keeps_prefix.
