(* C02 System composition wires signals with the right orientation at any depth.
   Proved on the system model: import resolution (first matching directory, ambiguity, not
   found), argument binding and arity, orientation of a binding (equal when the stars agree,
   reverse complement when they differ); whatever load_file returns for an instance, at any
   nesting depth, is well prefixed by that instance's path prefix and every signal entry names a
   component instance of its own system (C02_load_well_prefixed); every name the emitted
   specification defines or mentions for an object loaded under prefix p -- sequences, strands,
   structures, kinetics and the signal / equal lines -- starts with p (C02_emitted_names_prefixed);
   names of two different instances of one system never coincide (C02_instances_disjoint), so
   instances share nothing except through the signal lines of their parent.
   The signal clause itself is proved as a statement about the emitted document (C02_signal_lines_resolve,
   C02_equal_line_meaning): in the environment the document's own definition lines build, at every depth of
   nesting, a signal is a sequence of its recorded length and every item of its `equal` line resolves to the
   nucleotides of the sequence the binding names (a sequence of a component instance, or the signal of a
   sub-system), reverse-complemented exactly when the binding's effective star (binding star xor declaration
   star, C02_binding_orientation) is set; hence the line holds for an assignment exactly when every bound port
   reads the signal, or its reverse complement.  The composed denotation is additionally checked per case by
   the specification oracle expected_system_den. *)
From Coq Require Import List String Ascii Arith Bool ZArith.
From PC Require Import Base.Sexp Comp.Syntax Comp.Compile Comp.Denote Comp.EmitProofs Subst.VarSubst Comp.WfPil Sys.SignalProofs Sys.DesSys Sys.LoadWf Sys.SysWfPil Sys.System Sys.SystemProofs Sys.PrefixProofs.
Import ListNotations.

Theorem C02_import_first_match : forall fs b paths,
  match search_file fs b paths with
  | OK (bp, e, d) =>
      exists pre p post, paths = pre ++ p :: post /\
        (forall q, In q pre -> has_sys fs q b = false /\ has_comp fs q b = false) /\
        xorb (has_sys fs p b) (has_comp fs p b) = true /\
        bp = path_join p b /\ d = dirname bp /\
        (fs_find fs (bp +++ ".sys") = Some e \/ fs_find fs (bp +++ ".comp") = Some e)
  | Err k =>
      (k = "ambiguous"%string /\ exists pre p post, paths = pre ++ p :: post /\
        (forall q, In q pre -> has_sys fs q b = false /\ has_comp fs q b = false) /\
        has_sys fs p b = true /\ has_comp fs p b = true)
      \/ (k = "not-found"%string /\ forall q, In q paths -> has_sys fs q b = false /\ has_comp fs q b = false)
  end.
Proof. exact import_first_match. Qed.
Print Assumptions C02_import_first_match.

Theorem C02_args_bound : forall names args e, zip_env names args = Some e ->
  List.length names = List.length args /\
  forall pre n post, names = pre ++ n :: post -> ~ In n post ->
    exists v, nth_error args (List.length pre) = Some v /\ lookup e n = Some v.
Proof. exact args_bound. Qed.
Print Assumptions C02_args_bound.

Theorem C02_args_arity : forall names args, List.length names <> List.length args -> zip_env names args = None.
Proof. exact args_arity. Qed.
Print Assumptions C02_args_arity.

Theorem C02_signal_parity : forall env name v bind decl rest r, afind env name = Some v -> resolve_items env rest = Some r ->
  resolve_items env ((name, xorb bind decl) :: rest) = Some (rcb bind (rcb decl v) ++ r).
Proof. exact signal_parity. Qed.
Print Assumptions C02_signal_parity.

Theorem C02_instance_names_prefixed : forall c l n, In l (emit_comp c) -> In n (line_names l) -> exists m, n = c_prefix c +++ m.
Proof. exact emit_comp_prefixed. Qed.
Print Assumptions C02_instance_names_prefixed.

Theorem C02_compile_keeps_prefix : forall ctr prefix d body c ctr', compile_comp ctr prefix d body = OK (c, ctr') -> c_prefix c = prefix.
Proof. exact compile_comp_prefix. Qed.
Print Assumptions C02_compile_keeps_prefix.

Theorem C02_load_well_prefixed : forall fs includes fuel ctr b args prefix path o ctr',
  load_file fs includes fuel ctr b args prefix path = OK (o, ctr') -> wp prefix o.
Proof. exact load_file_wp. Qed.
Print Assumptions C02_load_well_prefixed.

Theorem C02_emitted_names_prefixed : forall fuel p o, wp p o -> forall l n, In l (emit_obj fuel o) -> In n (all_names l) ->
  exists m, n = p +++ m.
Proof. exact emit_obj_prefixed. Qed.
Print Assumptions C02_emitted_names_prefixed.

Theorem C02_instances_disjoint : forall p cn1 cn2 m1 m2, no_dash cn1 -> no_dash cn2 -> cn1 <> cn2 ->
  (p +++ cn1 +++ "-") +++ m1 <> (p +++ cn2 +++ "-") +++ m2.
Proof. exact instances_disjoint. Qed.
Print Assumptions C02_instances_disjoint.

(* the signal clause, through any depth of nesting, as a statement about the emitted document *)
Theorem C02_signal_lines_resolve : forall fs includes ctr b args o ctr', load_file fs includes 12 ctr b args "" "." = OK (o, ctr') -> names_ok 12 o ->
  exists d, wf_run (emit_obj 12 o) w0 = Some d /\ all_equal_ok 12 o (w_env d).
Proof. exact loaded_system_equal_lines. Qed.
Print Assumptions C02_signal_lines_resolve.

Theorem C02_equal_line_meaning : forall v env q comps lens s entries,
  afind env (q +++ s) = Some (dom_nts (q +++ s) (lens_of lens s)) ->
  (forall l cname wc, In (l, cname, wc) entries ->
     resolve_items env [(loc_name q comps l cname, wc)] = Some (orient wc (port_named q comps l cname)) /\
     List.length (port_named q comps l cname) = lens_of lens s) ->
  (equal_holds v env ((q +++ s, false) :: map (fun '(l, cname, wc) => (loc_name q comps l cname, wc)) entries) <->
   forall l cname wc, In (l, cname, wc) entries ->
     SignalProofs.seqval v (port_named q comps l cname) = if wc then SignalProofs.rcb (SignalProofs.seqval v (dom_nts (q +++ s) (lens_of lens s))) else SignalProofs.seqval v (dom_nts (q +++ s) (lens_of lens s))).
Proof. exact equal_line_meaning. Qed.
Print Assumptions C02_equal_line_meaning.
