(* C06 Any valid design flows through to finished sequences that satisfy the source -- PARTIAL:
   proved on the finish model (component level): whatever finish writes, every non-empty base
   sequence has its record's string of the declared length and its starred form is the reverse
   complement; every super-sequence and strand is the concatenation of its base sequences'
   values (reverse complemented where starred); every structure's string equals its record.
   NOT proved: that for every assignment satisfying the arrays the chain
   process_results -> .mfe -> read_design -> apply_design succeeds; that is exercised end to end
   (in-process and through the three command-line tools) with random assignments and checked
   against the source denotation by the correspondence. *)
From Coq Require Import List String Ascii Arith Bool.
From PC Require Import Base.Codes Comp.Syntax Comp.Compile Sys.System Finish.Apply Finish.ApplyProofs.
Import ListNotations.

Theorem C06_finished_bases_consistent_partial : forall t prefix bs vals, base_values t prefix bs = OK vals ->
  map fst vals = map fst bs /\
  forall n b, In (n, b) bs -> exists v, In (n, v) vals /\
    (b_len b = 0 -> v = []) /\
    (b_len b <> 0 -> t (prefix +++ n) = Some v /\ List.length v = b_len b /\
       exists w, wc_codes v = Some w /\ t ((prefix +++ n) +++ "*") = Some w).
Proof. exact base_values_spec. Qed.
Print Assumptions C06_finished_bases_consistent_partial.

Theorem C06_concatenations : forall t c f, apply_comp t c = OK f ->
  exists vals, base_values t (c_prefix c) (c_bases c) = OK vals /\
    (forall n s, In (n, s) (c_sups c) -> In (c_prefix c +++ n, brefs_value vals (s_base s)) (fi_seqs f)) /\
    (forall n st, In (n, st) (c_strands c) -> In (c_prefix c +++ n, t_dummy st, brefs_value vals (s_base (t_sup st))) (fi_strands f)) /\
    (forall n v, In (n, v) vals -> In (c_prefix c +++ n, v) (fi_seqs f)).
Proof. exact apply_comp_concatenations. Qed.
Print Assumptions C06_concatenations.

(* a sufficient condition for finishing to succeed: consistent records for every non-empty base sequence and the
   joined strand strings for every structure *)
Theorem C06_finish_succeeds_on_consistent_records : forall t c,
  (forall n b, In (n, b) (c_bases c) -> b_len b <> 0 -> exists v w, t (c_prefix c +++ n) = Some v /\ List.length v = b_len b /\
       wc_codes v = Some w /\ t ((c_prefix c +++ n) +++ "*") = Some w) ->
  (forall vals, base_values t (c_prefix c) (c_bases c) = OK vals ->
     forall n u, In (n, u) (c_structs c) ->
       t (c_prefix c +++ n) = Some (join_plus_chars (map (fun sn =>
           match afind (map (fun x => (fst (fst x), snd x))
                            (map (fun '(n0, st) => (n0, t_dummy st, brefs_value vals (s_base (t_sup st)))) (c_strands c))) sn with
           | Some x => x | None => [] end) (u_strands u)))) ->
  exists f, apply_comp t c = OK f.
Proof. exact apply_comp_complete. Qed.
Print Assumptions C06_finish_succeeds_on_consistent_records.
