(* C06 Any valid design flows through to finished sequences that satisfy the source -- PARTIAL:
   proved on the finish model (component level): whatever finish writes, every non-empty base
   sequence has its record's string of the declared length and its starred form is the reverse
   complement; every super-sequence and strand is the concatenation of its base sequences'
   values (reverse complemented where starred); every structure's string equals its record.
   Designer side (C06_designed_string_flows, both layouts): for every designed string that satisfies
   the equality / complement arrays, process_results succeeds - no sequence is ever "designed with 2
   different sequences", whatever the nesting of super-sequences and the order of the strands - and
   the records written to the .mfe file are consistent: every sequence and its complement have
   records of the declared length that are reverse complements of one another, every strand is what
   was read at its positions and, nucleotide by nucleotide, the record of the base sequence it
   flattens to (complemented where starred), every structure's record joins its strands.  The model
   design_results is tied to Convert.process_results / Convert.output by the correspondence.
   Composed at component level (C06_compiled_design_finishes, C06_compiled_component_end_to_end, strand
   layout): for every component the compiler accepts, its emitted specification is accepted by the
   designer's loader (ShapeProofs, CrossProofs), the designer's flattening of every strand is the
   component's own flattening into base nucleotides (ComposeProofs, through the C01 re-reading
   theorems), and for every designed string that fits the arrays the records written by the designer
   satisfy the hypotheses of the finish-side theorem - so finishing against the compiled component
   succeeds (EndToEnd), and by C06_concatenations its result has every strand and super-sequence the
   concatenation of its base sequences' values.  Hypothesis: the record names are distinct (no sequence
   name ends in '*'; a structure and a sequence never share a name since the D13 repair).
   The composition holds in the structure layout as well (C06_compiled_design_finishes_struct), and for whole
   nested systems the designer side is proved: what the compiler writes loads and gets arrays or the report
   (C06_compiled_system_designs), and so is the finish side: for every designed string that fits the arrays of a compiled
   system, finishing the whole system object against the records succeeds (C06_compiled_system_end_to_end; the component
   lemmas hold for a component's lines inside any larger document; hypothesis: distinct record names).  NOT modelled: the
   saved state (.save, a pickle) through which the real finisher receives the object; exercised end to end (in-process,
   through the three command-line tools and through design()). *)
From Coq Require Import List String Ascii Arith Bool.
From PC Require Import Base.Codes Comp.Syntax Comp.Compile Comp.Denote Comp.EmitProofs Sys.System Finish.Apply Finish.ApplyProofs Design.ShapeProofs Design.ComposeProofs
  Design.Designer Design.TemplateProofs Design.DGraph Design.DenoteGraph Design.DenoteTie Design.DenoteSat Design.Results Design.ResultsProofs Design.Loaded Design.LoadedStruct Design.CrossProofs Design.EndToEnd Base.Sexp Comp.WfPil Comp.NameProofs Sys.System Sys.DesSys Sys.SysWfPil Sys.SysDesign Design.RecNames Design.EndToEndNames Design.SysFinish Sys.PrefixProofs Sys.SysNames Comp.Fix Comp.FixShape Design.FixedEndToEnd Sys.SysFixed Design.BondProofs Design.EqualProofs Finish.ApplyStructs.
Import ListNotations.

Theorem C06_finished_bases_consistent_partial : forall t prefix bs vals, base_values t prefix bs = OK vals ->
  map fst vals = map fst bs /\
  forall n b, In (n, b) bs -> exists v, In (n, v) vals /\
    (b_len b = 0 -> v = []) /\
    (b_len b <> 0 -> t (prefix +++ n) = Some v /\ List.length v = b_len b /\
       exists w, wc_codes v = Some w /\ t ((prefix +++ n) +++ "*") = Some w).
Proof. exact base_values_spec. Qed.
Print Assumptions C06_finished_bases_consistent_partial.

Theorem C06_concatenations : forall t c f, apply_comp t c = OK f ->
  exists vals, base_values t (c_prefix c) (c_bases c) = OK vals /\
    (forall n s, In (n, s) (c_sups c) -> In (c_prefix c +++ n, brefs_value vals (s_base s)) (fi_seqs f)) /\
    (forall n st, In (n, st) (c_strands c) -> In (c_prefix c +++ n, t_dummy st, brefs_value vals (s_base (t_sup st))) (fi_strands f)) /\
    (forall n v, In (n, v) vals -> In (c_prefix c +++ n, v) (fi_seqs f)).
Proof. exact apply_comp_concatenations. Qed.
Print Assumptions C06_concatenations.

(* a sufficient condition for finishing to succeed: consistent records for every non-empty base sequence and the
   joined strand strings for every structure *)
Theorem C06_finish_succeeds_on_consistent_records : forall t c,
  (forall n b, In (n, b) (c_bases c) -> b_len b <> 0 -> exists v w, t (c_prefix c +++ n) = Some v /\ List.length v = b_len b /\
       wc_codes v = Some w /\ t ((c_prefix c +++ n) +++ "*") = Some w) ->
  (forall vals, base_values t (c_prefix c) (c_bases c) = OK vals ->
     forall n u, In (n, u) (c_structs c) ->
       t (c_prefix c +++ n) = Some (join_plus_chars (map (fun sn =>
           match afind (map (fun x => (fst (fst x), snd x))
                            (map (fun '(n0, st) => (n0, t_dummy st, brefs_value vals (s_base (t_sup st)))) (c_strands c))) sn with
           | Some x => x | None => [] end) (u_strands u)))) ->
  exists f, apply_comp t c = OK f.
Proof. exact apply_comp_complete. Qed.
Print Assumptions C06_finish_succeeds_on_consistent_records.

(* designer side: a designed string that fits the arrays flows into consistent records *)
Theorem C06_designed_string_flows : forall (p : pspec) (lay : layout) (so : bool) (g : cgraph) (nts : list ascii),
  seed p so = OK (lay, g) -> spec_okb p so = true -> dgraph_ok p lay so = true -> same_graph p lay so g = true ->
  graph_ok g = true -> place_okb p lay so = true ->
  forall (e w : list (option nat)) (s : list (option ascii)), get_constraints p so = DOk e w s -> fits nts e w ->
  exists (a : results) (recs : list (string * list ascii)),
    process_results p lay nts = OK a /\ output_records p a = OK recs /\
    (forall k n t, nth_error (p_bases p) k = Some (n, t) ->
       exists v wv, In (n, v) recs /\ In ((n ++ "*")%string, wv) recs /\ wc_codes v = Some wv /\ List.length v = List.length t) /\
    (forall n items l d, In (n, (items, l, d)) (p_strands p) ->
       exists vs, afind (r_strands a) n = Some vs /\ read_positions nts (tstart_of lay n) l = OK vs /\
         forall o c par, o < l -> nth o (flat_map (ref_c p (ctbl p)) items) (DAux 0 0, false) = (c, par) ->
           exists k i bn t v b, c = DAux (2 * k) i /\ nth_error (p_bases p) k = Some (bn, t) /\ In (bn, v) recs /\
                                nth_error v i = Some (base_char b) /\ nth_error vs o = Some (base_char (app_par par b))) /\
    (forall sn names sy len, In (sn, (names, sy, len)) (p_structs p) ->
       In (sn, join_plus (map (fun n => match afind (r_strands a) n with Some v => v | None => [] end) names)) recs).
Proof. exact design_results_ok. Qed.
Print Assumptions C06_designed_string_flows.

(* the hypotheses are met, in both layouts, by a concrete document and designed string *)
Theorem C06_designed_string_nonvacuous : forall so, exists lay g e w s, seed demo_spec so = OK (lay, g) /\ spec_okb demo_spec so = true /\
  dgraph_ok demo_spec lay so = true /\ same_graph demo_spec lay so g = true /\ graph_ok g = true /\ place_okb demo_spec lay so = true /\
  get_constraints demo_spec so = DOk e w s /\ fits (demo_nts so) e w.
Proof. exact demo_results_hypotheses. Qed.
Print Assumptions C06_designed_string_nonvacuous.

(* the executable form of `fits` is sound *)
Theorem C06_fits_check_sound : forall nts e w, fitsb nts e w = true -> fits nts e w.
Proof. exact fitsb_fits. Qed.
Print Assumptions C06_fits_check_sound.

(* strand layout, no per-case hypothesis: every loaded and seeded document, every string that fits its arrays *)
Theorem C06_loaded_designed_string_flows : forall (ls : list pline) (p : pspec) (lay : layout) (g : cgraph) (nts : list ascii),
  load_spec ls pspec0 = OK p -> seed p false = OK (lay, g) ->
  forall (e w : list (option nat)) (s : list (option ascii)), get_constraints p false = DOk e w s -> fits nts e w ->
  exists (a : results) (recs : list (string * list ascii)),
    process_results p lay nts = OK a /\ output_records p a = OK recs /\
    (forall k n t, nth_error (p_bases p) k = Some (n, t) ->
       exists v wv, In (n, v) recs /\ In ((n ++ "*")%string, wv) recs /\ wc_codes v = Some wv /\ List.length v = List.length t) /\
    (forall n items l d, In (n, (items, l, d)) (p_strands p) ->
       exists vs, afind (r_strands a) n = Some vs /\ read_positions nts (tstart_of lay n) l = OK vs /\
         forall o c par, o < l -> nth o (flat_map (ref_c p (ctbl p)) items) (DAux 0 0, false) = (c, par) ->
           exists k i bn t v b, c = DAux (2 * k) i /\ nth_error (p_bases p) k = Some (bn, t) /\ In (bn, v) recs /\
                                nth_error v i = Some (base_char b) /\ nth_error vs o = Some (base_char (app_par par b))) /\
    (forall sn names sy len, In (sn, (names, sy, len)) (p_structs p) ->
       In (sn, join_plus (map (fun n => match afind (r_strands a) n with Some v => v | None => [] end) names)) recs).
Proof. exact loaded_design_results_ok. Qed.
Print Assumptions C06_loaded_designed_string_flows.

(* across the stages: every compiled component whose constraint strings are nucleotide codes is accepted by the
   designer's loader, and constraint generation (strand layout) then reports over-constraint or returns arrays *)
Theorem C06_compiled_component_designs : forall ctr prefix d body c ctr', compile_comp ctr prefix d body = OK (c, ctr') ->
  (forall n b, In (n, b) (c_bases c) -> valid_template (b_const b) = true) ->
  (exists p, load_spec (emit_comp c) pspec0 = OK p) /\
  (design_arrays (emit_comp c) false = DOver \/ exists e w s, design_arrays (emit_comp c) false = DOk e w s).
Proof. exact compiled_component_designs. Qed.
Print Assumptions C06_compiled_component_designs.

(* composed, component level: compile -> emit -> load -> arrays -> any fitting string -> records -> finish succeeds *)
Theorem C06_compiled_design_finishes : forall ctr prefix d body c ctr' p lay g e w s nts,
  compile_comp ctr prefix d body = OK (c, ctr') ->
  load_spec (emit_comp c) pspec0 = OK p -> seed p false = OK (lay, g) -> get_constraints p false = DOk e w s -> fits nts e w ->
  exists a recs, process_results p lay nts = OK a /\ output_records p a = OK recs /\
    (NoDup (map fst recs) -> exists f, apply_comp (table_of recs) c = OK f).
Proof. exact compiled_design_finishes. Qed.
Print Assumptions C06_compiled_design_finishes.

Theorem C06_compiled_component_end_to_end : forall ctr prefix d body c ctr',
  compile_comp ctr prefix d body = OK (c, ctr') ->
  (forall n b, In (n, b) (c_bases c) -> valid_template (b_const b) = true) ->
  exists p lay g, load_spec (emit_comp c) pspec0 = OK p /\ seed p false = OK (lay, g) /\
    (get_constraints p false = DOver \/
     exists e w s, get_constraints p false = DOk e w s /\
       forall nts, fits nts e w ->
         exists a recs, process_results p lay nts = OK a /\ output_records p a = OK recs /\
           (NoDup (map fst recs) -> exists f, apply_comp (table_of recs) c = OK f)).
Proof. exact compiled_component_end_to_end. Qed.
Print Assumptions C06_compiled_component_end_to_end.

(* the designer's flattening of a strand of the loaded specification is the component's own flattening *)
Theorem C06_strand_flattening : forall c, WF c -> forall p, load_spec (emit_comp c) pspec0 = OK p ->
  forall n t, In (n, t) (c_strands c) ->
  exists l, In (c_prefix c +++ n, (classify p (emit_items c (s_seqs (t_sup t))), l, t_dummy t)) (p_strands p) /\
            flat_map (ref_c p (ctbl p)) (classify p (emit_items c (s_seqs (t_sup t)))) = map (cvn p) (flatB c (s_base (t_sup t))).
Proof. exact strand_flattening_alone. Qed.
Print Assumptions C06_strand_flattening.

(* structure-oriented layout, no per-case hypothesis: every loaded and seeded document, every string that fits its arrays *)
Theorem C06_struct_loaded_designed_string_flows : forall (ls : list pline) (p : pspec) (lay : layout) (g : cgraph) (nts : list ascii),
  load_spec ls pspec0 = OK p -> seed p true = OK (lay, g) ->
  forall (e w : list (option nat)) (s : list (option ascii)), get_constraints p true = DOk e w s -> fits nts e w ->
  exists (a : results) (recs : list (string * list ascii)),
    process_results p lay nts = OK a /\ output_records p a = OK recs /\
    (forall k n t, nth_error (p_bases p) k = Some (n, t) ->
       exists v wv, In (n, v) recs /\ In ((n ++ "*")%string, wv) recs /\ wc_codes v = Some wv /\ List.length v = List.length t) /\
    (forall n items l d, In (n, (items, l, d)) (p_strands p) ->
       exists vs, afind (r_strands a) n = Some vs /\ read_positions nts (tstart_of lay n) l = OK vs /\
         forall o c par, o < l -> nth o (flat_map (ref_c p (ctbl p)) items) (DAux 0 0, false) = (c, par) ->
           exists k i bn t v b, c = DAux (2 * k) i /\ nth_error (p_bases p) k = Some (bn, t) /\ In (bn, v) recs /\
                                nth_error v i = Some (base_char b) /\ nth_error vs o = Some (base_char (app_par par b))) /\
    (forall sn names sy len, In (sn, (names, sy, len)) (p_structs p) ->
       In (sn, join_plus (map (fun n => match afind (r_strands a) n with Some v => v | None => [] end) names)) recs).
Proof. exact sloaded_design_results_ok. Qed.
Print Assumptions C06_struct_loaded_designed_string_flows.

(* composed at component level in the structure layout as well *)
Theorem C06_compiled_design_finishes_struct : forall ctr prefix d body c ctr' p lay g e w s nts,
  compile_comp ctr prefix d body = OK (c, ctr') ->
  load_spec (emit_comp c) pspec0 = OK p -> seed p true = OK (lay, g) -> get_constraints p true = DOk e w s -> fits nts e w ->
  exists a recs, process_results p lay nts = OK a /\ output_records p a = OK recs /\
    (NoDup (map fst recs) -> exists f, apply_comp (table_of recs) c = OK f).
Proof. exact compiled_design_finishes_struct. Qed.
Print Assumptions C06_compiled_design_finishes_struct.

Theorem C06_compiled_component_end_to_end_struct : forall ctr prefix d body c ctr',
  compile_comp ctr prefix d body = OK (c, ctr') ->
  (forall n b, In (n, b) (c_bases c) -> valid_template (b_const b) = true) ->
  exists p, load_spec (emit_comp c) pspec0 = OK p /\
    ((forall n items l d, In (n, (items, l, d)) (p_strands p) -> l <> 0 -> first_inst_in p (p_structs p) n <> None) ->
     exists g, seed p true = OK (build_layout p true, g) /\
      (get_constraints p true = DOver \/
       exists e w s, get_constraints p true = DOk e w s /\
         forall nts, fits nts e w ->
           exists a recs, process_results p (build_layout p true) nts = OK a /\ output_records p a = OK recs /\
             (NoDup (map fst recs) -> exists f, apply_comp (table_of recs) c = OK f))).
Proof. exact compiled_component_end_to_end_struct. Qed.
Print Assumptions C06_compiled_component_end_to_end_struct.

(* whole systems, designer side of the hand-over: what the compiler writes for a (nested) system is accepted by the
   designer's loader, and constraint generation returns arrays or reports over-constraint *)
Theorem C06_compiled_system_designs : forall fs includes ctr basename args lines ctr',
  compile_top fs includes ctr basename args [] = OK (lines, ctr') ->
  (forall o, load_file fs includes 12 ctr basename args "" "." = OK (o, ctr') -> names_ok 12 o) ->
  (forall n k len, In (PSeq n k len) lines -> valid_template k = true) ->
  wf_pil lines = true /\ (exists p, load_spec lines pspec0 = OK p) /\
  (design_arrays lines false = DOver \/ exists e w s, design_arrays lines false = DOk e w s).
Proof. exact compiled_system_designs. Qed.
Print Assumptions C06_compiled_system_designs.

(* no hypothesis on the records: when no sequence or structure name of the program (nor the instance prefix) contains a '*' -
   the statement grammar yields [\w-]+ - the record names are distinct, so in either layout finishing succeeds for every
   designed string that fits the arrays *)
Theorem C06_record_names_distinct : forall ctr prefix d body c ctr' p a recs,
  compile_comp ctr prefix d body = OK (c, ctr') -> (forall st, In st body -> stmt_nostar st) -> nostar prefix ->
  load_spec (emit_comp c) pspec0 = OK p -> output_records p a = OK recs -> NoDup (map fst recs).
Proof. exact compiled_records_distinct. Qed.
Print Assumptions C06_record_names_distinct.

Theorem C06_compiled_design_finishes_unconditional : forall ctr prefix d body c ctr' p lay g e w s nts (so : bool),
  compile_comp ctr prefix d body = OK (c, ctr') -> (forall st, In st body -> stmt_nostar st) -> nostar prefix ->
  load_spec (emit_comp c) pspec0 = OK p -> seed p so = OK (lay, g) -> get_constraints p so = DOk e w s -> fits nts e w ->
  exists a recs, process_results p lay nts = OK a /\ output_records p a = OK recs /\ exists f, apply_comp (table_of recs) c = OK f.
Proof. exact compiled_design_finishes_names. Qed.
Print Assumptions C06_compiled_design_finishes_unconditional.

Theorem C06_compiled_component_end_to_end_unconditional : forall ctr prefix d body c ctr',
  compile_comp ctr prefix d body = OK (c, ctr') -> (forall st, In st body -> stmt_nostar st) -> nostar prefix ->
  (forall n b, In (n, b) (c_bases c) -> valid_template (b_const b) = true) ->
  exists p lay g, load_spec (emit_comp c) pspec0 = OK p /\ seed p false = OK (lay, g) /\
    (get_constraints p false = DOver \/
     exists e w s, get_constraints p false = DOk e w s /\
       forall nts, fits nts e w ->
         exists a recs, process_results p lay nts = OK a /\ output_records p a = OK recs /\ exists f, apply_comp (table_of recs) c = OK f).
Proof. exact compiled_component_end_to_end_names. Qed.
Print Assumptions C06_compiled_component_end_to_end_unconditional.

(* whole nested systems, both sides composed: compile -> designer -> any fitting string -> records -> the whole system finishes *)
Theorem C06_system_design_finishes : forall o p lay g e w s nts,
  sys_wf 12 o -> load_spec (emit_obj 12 o) pspec0 = OK p -> seed p false = OK (lay, g) -> get_constraints p false = DOk e w s -> fits nts e w ->
  exists a recs, process_results p lay nts = OK a /\ output_records p a = OK recs /\
    (NoDup (map fst recs) -> exists f, apply_obj 12 (table_of recs) o = OK f).
Proof. exact system_design_finishes. Qed.
Print Assumptions C06_system_design_finishes.

Theorem C06_compiled_system_end_to_end : forall fs includes ctr basename args lines ctr',
  compile_top fs includes ctr basename args [] = OK (lines, ctr') ->
  (forall o, load_file fs includes 12 ctr basename args "" "." = OK (o, ctr') -> names_ok 12 o) ->
  (forall n k len, In (PSeq n k len) lines -> valid_template k = true) ->
  exists o p lay g, load_file fs includes 12 ctr basename args "" "." = OK (o, ctr') /\ load_spec lines pspec0 = OK p /\ seed p false = OK (lay, g) /\
    (get_constraints p false = DOver \/
     exists e w s, get_constraints p false = DOk e w s /\
       forall nts, fits nts e w ->
         exists a recs, process_results p lay nts = OK a /\ output_records p a = OK recs /\
           (NoDup (map fst recs) -> exists f, apply_obj 12 (table_of recs) o = OK f)).
Proof. exact compiled_system_end_to_end. Qed.
Print Assumptions C06_compiled_system_end_to_end.

(* whole nested systems with no hypothesis on the records: names that are identifiers (no '*'; instance and signal names without
   '-'; no structure named like a sequence of its component) - a boolean on the loaded object, evaluated on every generated system *)
Theorem C06_system_record_names_distinct : forall o p a recs, sys_wf 12 o -> wp "" o -> names_ok2 12 o ->
  load_spec (emit_obj 12 o) pspec0 = OK p -> output_records p a = OK recs -> NoDup (map fst recs).
Proof. exact system_record_names_distinct. Qed.
Print Assumptions C06_system_record_names_distinct.

Theorem C06_compiled_system_end_to_end_unconditional : forall fs includes ctr basename args lines ctr',
  compile_top fs includes ctr basename args [] = OK (lines, ctr') ->
  (forall o, load_file fs includes 12 ctr basename args "" "." = OK (o, ctr') -> names_ok2 12 o) ->
  (forall n k len, In (PSeq n k len) lines -> valid_template k = true) ->
  exists o p lay g, load_file fs includes 12 ctr basename args "" "." = OK (o, ctr') /\ load_spec lines pspec0 = OK p /\ seed p false = OK (lay, g) /\
    (get_constraints p false = DOver \/
     exists e w s, get_constraints p false = DOk e w s /\
       forall nts, fits nts e w ->
         exists a recs, process_results p lay nts = OK a /\ output_records p a = OK recs /\ exists f, apply_obj 12 (table_of recs) o = OK f).
Proof. exact compiled_system_end_to_end_names. Qed.
Print Assumptions C06_compiled_system_end_to_end_unconditional.

Theorem C06_names_ok2b_sound : forall f o, names_ok2b f o = true -> names_ok2 f o.
Proof. exact names_ok2b_sound. Qed.
Print Assumptions C06_names_ok2b_sound.

(* the chain with a fixed-sequence file in between: compile -> apply any fixed entries -> emit -> load -> arrays -> any
   fitting string -> records -> finishing the FIXED object succeeds (component level and whole nested systems); the
   alphabet hypothesis is on the compiled program - every character a fix writes is the code of an intersection *)
Theorem C06_fixed_component_end_to_end : forall ctr prefix d body c ctr' es,
  compile_comp ctr prefix d body = OK (c, ctr') ->
  (forall n b, In (n, b) (c_bases c) -> valid_template (b_const b) = true) ->
  (forall st, In st body -> stmt_nostar st) -> nostar prefix ->
  let cf := fix_comp_entries c es in
  exists p lay g, load_spec (emit_comp cf) pspec0 = OK p /\ seed p false = OK (lay, g) /\
    (get_constraints p false = DOver \/
     exists e w s, get_constraints p false = DOk e w s /\
       forall nts, fits nts e w ->
         exists a recs, process_results p lay nts = OK a /\ output_records p a = OK recs /\ exists f, apply_comp (table_of recs) cf = OK f).
Proof. exact fixed_component_end_to_end. Qed.
Print Assumptions C06_fixed_component_end_to_end.

Theorem C06_fixed_system_end_to_end : forall fs includes ctr basename args fixed lines ctr',
  compile_top fs includes ctr basename args fixed = OK (lines, ctr') ->
  (forall o, load_file fs includes 12 ctr basename args "" "." = OK (o, ctr') ->
     names_ok2 12 o /\ forall c, In c (leaves 12 o) -> forall n b, In (n, b) (c_bases c) -> valid_template (b_const b) = true) ->
  exists o o' p lay g, load_file fs includes 12 ctr basename args "" "." = OK (o, ctr') /\ fix_all o fixed = OK o' /\
    load_spec lines pspec0 = OK p /\ seed p false = OK (lay, g) /\
    (get_constraints p false = DOver \/
     exists e w s, get_constraints p false = DOk e w s /\
       forall nts, fits nts e w ->
         exists a recs, process_results p lay nts = OK a /\ output_records p a = OK recs /\ exists f, apply_obj 12 (table_of recs) o' = OK f).
Proof. exact fixed_system_end_to_end_loaded. Qed.
Print Assumptions C06_fixed_system_end_to_end.

(* "every target base pair is Watson-Crick": for every loaded document, either layout, and every designed string that fits
   the arrays, the two ends of every base pair (x, y) of every structure's target - position x of the structure is
   position o1 of its strand n1 (walk_sym: strand breaks not counted), likewise y - carry complementary bases in the
   records of those strands (which the structure's record joins, C06_loaded_designed_string_flows) *)
Theorem C06_target_pairs_watson_crick : forall ls p lay g nts e w s (so : bool) a,
  load_spec ls pspec0 = OK p -> seed p so = OK (lay, g) -> get_constraints p so = DOk e w s -> fits nts e w -> process_results p lay nts = OK a ->
  forall sn names sy len bs x y n1 o1 n2 o2, In (sn, (names, sy, len)) (p_structs p) -> get_bonds sy = OK bs -> In (x, y) bs ->
  walk_sym p names x = Some (n1, o1) -> walk_sym p names y = Some (n2, o2) ->
  exists v1 v2 b, afind (r_strands a) n1 = Some v1 /\ afind (r_strands a) n2 = Some v2 /\
    nth_error v1 o1 = Some (base_char b) /\ nth_error v2 o2 = Some (base_char (bcompl b)).
Proof. exact loaded_bonds_watson_crick. Qed.
Print Assumptions C06_target_pairs_watson_crick.

(* "ports bound to one signal agree": an `equal` statement ties its sides position by position (links equal_links); each
   side resolves to a position of a base sequence and an orientation (kap).  For every loaded document, either layout, every
   fitting string and every such link whose two base-sequence positions occur in strands, the records of the two base
   sequences carry the same base at those positions - the complementary one when exactly one side is a complemented view *)
Theorem C06_equal_ports_agree : forall ls p lay g nts e w s (so : bool) a recs,
  load_spec ls pspec0 = OK p -> seed p so = OK (lay, g) -> get_constraints p so = DOk e w s -> fits nts e w ->
  process_results p lay nts = OK a -> output_records p a = OK recs ->
  forall x y n1 it1 l1 d1 o1 par1 n2 it2 l2 d2 o2 par2, In (x, y) (equal_links p) ->
  In (n1, (it1, l1, d1)) (p_strands p) -> o1 < l1 -> nth o1 (flat_map (ref_c p (ctbl p)) it1) (DAux 0 0, false) = (fst (kap p so x), par1) ->
  In (n2, (it2, l2, d2)) (p_strands p) -> o2 < l2 -> nth o2 (flat_map (ref_c p (ctbl p)) it2) (DAux 0 0, false) = (fst (kap p so y), par2) ->
  exists k1 i1 bn1 t1 v1 k2 i2 bn2 t2 v2 b,
    fst (kap p so x) = DAux (2 * k1) i1 /\ nth_error (p_bases p) k1 = Some (bn1, t1) /\ In (bn1, v1) recs /\
    fst (kap p so y) = DAux (2 * k2) i2 /\ nth_error (p_bases p) k2 = Some (bn2, t2) /\ In (bn2, v2) recs /\
    nth_error v1 i1 = Some (base_char b) /\ nth_error v2 i2 = Some (base_char (app_par (xorb (snd (kap p so x)) (snd (kap p so y))) b)).
Proof. exact loaded_equal_ports_agree. Qed.
Print Assumptions C06_equal_ports_agree.

(* "the .seqs file lists every sequence, strand and structure": besides the sequences and strands of C06_concatenations, what
   finishing returns has one entry per structure, in declaration order, under its full name, whose string equals the record of
   the design file; and one entry per strand with its dummy flag (the strands-to-order file keeps the entries whose flag is off) *)
Theorem C06_finished_lists_structures_and_strands : forall t c f, apply_comp t c = OK f ->
  map fst (fi_structs f) = map (fun nu => c_prefix c +++ fst nu) (c_structs c) /\
  (forall n v, In (n, v) (fi_structs f) -> exists v', t n = Some v' /\ chars_eqb v v' = true) /\
  map fst (fi_strands f) = map (fun nt => (c_prefix c +++ fst nt, t_dummy (snd nt))) (c_strands c).
Proof. exact apply_comp_structs. Qed.
Print Assumptions C06_finished_lists_structures_and_strands.
