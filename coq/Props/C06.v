(* C06 Any valid design flows through to finished sequences that satisfy the source -- PARTIAL:
   proved on the finish model (component level): whatever finish writes, every non-empty base
   sequence has its record's string of the declared length and its starred form is the reverse
   complement; every super-sequence and strand is the concatenation of its base sequences'
   values (reverse complemented where starred); every structure's string equals its record.
   Designer side (C06_designed_string_flows, both layouts): for every designed string that satisfies
   the equality / complement arrays, process_results succeeds - no sequence is ever "designed with 2
   different sequences", whatever the nesting of super-sequences and the order of the strands - and
   the records written to the .mfe file are consistent: every sequence and its complement have
   records of the declared length that are reverse complements of one another, every strand is what
   was read at its positions and, nucleotide by nucleotide, the record of the base sequence it
   flattens to (complemented where starred), every structure's record joins its strands.  The model
   design_results is tied to Convert.process_results / Convert.output by the correspondence.
   NOT proved: the composition of the two sides through the compiler's emission (the records of
   the PIL names are the records finish looks up under the component's prefixed names); that is
   exercised end to end (in-process and through the three command-line tools). *)
From Coq Require Import List String Ascii Arith Bool.
From PC Require Import Base.Codes Comp.Syntax Comp.Compile Sys.System Finish.Apply Finish.ApplyProofs
  Design.Designer Design.TemplateProofs Design.DGraph Design.DenoteGraph Design.DenoteTie Design.DenoteSat Design.Results Design.ResultsProofs Design.Loaded.
Import ListNotations.

Theorem C06_finished_bases_consistent_partial : forall t prefix bs vals, base_values t prefix bs = OK vals ->
  map fst vals = map fst bs /\
  forall n b, In (n, b) bs -> exists v, In (n, v) vals /\
    (b_len b = 0 -> v = []) /\
    (b_len b <> 0 -> t (prefix +++ n) = Some v /\ List.length v = b_len b /\
       exists w, wc_codes v = Some w /\ t ((prefix +++ n) +++ "*") = Some w).
Proof. exact base_values_spec. Qed.
Print Assumptions C06_finished_bases_consistent_partial.

Theorem C06_concatenations : forall t c f, apply_comp t c = OK f ->
  exists vals, base_values t (c_prefix c) (c_bases c) = OK vals /\
    (forall n s, In (n, s) (c_sups c) -> In (c_prefix c +++ n, brefs_value vals (s_base s)) (fi_seqs f)) /\
    (forall n st, In (n, st) (c_strands c) -> In (c_prefix c +++ n, t_dummy st, brefs_value vals (s_base (t_sup st))) (fi_strands f)) /\
    (forall n v, In (n, v) vals -> In (c_prefix c +++ n, v) (fi_seqs f)).
Proof. exact apply_comp_concatenations. Qed.
Print Assumptions C06_concatenations.

(* a sufficient condition for finishing to succeed: consistent records for every non-empty base sequence and the
   joined strand strings for every structure *)
Theorem C06_finish_succeeds_on_consistent_records : forall t c,
  (forall n b, In (n, b) (c_bases c) -> b_len b <> 0 -> exists v w, t (c_prefix c +++ n) = Some v /\ List.length v = b_len b /\
       wc_codes v = Some w /\ t ((c_prefix c +++ n) +++ "*") = Some w) ->
  (forall vals, base_values t (c_prefix c) (c_bases c) = OK vals ->
     forall n u, In (n, u) (c_structs c) ->
       t (c_prefix c +++ n) = Some (join_plus_chars (map (fun sn =>
           match afind (map (fun x => (fst (fst x), snd x))
                            (map (fun '(n0, st) => (n0, t_dummy st, brefs_value vals (s_base (t_sup st)))) (c_strands c))) sn with
           | Some x => x | None => [] end) (u_strands u)))) ->
  exists f, apply_comp t c = OK f.
Proof. exact apply_comp_complete. Qed.
Print Assumptions C06_finish_succeeds_on_consistent_records.

(* designer side: a designed string that fits the arrays flows into consistent records *)
Theorem C06_designed_string_flows : forall (p : pspec) (lay : layout) (so : bool) (g : cgraph) (nts : list ascii),
  seed p so = OK (lay, g) -> spec_okb p so = true -> dgraph_ok p lay so = true -> same_graph p lay so g = true ->
  graph_ok g = true -> place_okb p lay so = true ->
  forall (e w : list (option nat)) (s : list (option ascii)), get_constraints p so = DOk e w s -> fits nts e w ->
  exists (a : results) (recs : list (string * list ascii)),
    process_results p lay nts = OK a /\ output_records p a = OK recs /\
    (forall k n t, nth_error (p_bases p) k = Some (n, t) ->
       exists v wv, In (n, v) recs /\ In ((n ++ "*")%string, wv) recs /\ wc_codes v = Some wv /\ List.length v = List.length t) /\
    (forall n items l d, In (n, (items, l, d)) (p_strands p) ->
       exists vs, afind (r_strands a) n = Some vs /\ read_positions nts (tstart_of lay n) l = OK vs /\
         forall o c par, o < l -> nth o (flat_map (ref_c p (ctbl p)) items) (DAux 0 0, false) = (c, par) ->
           exists k i bn t v b, c = DAux (2 * k) i /\ nth_error (p_bases p) k = Some (bn, t) /\ In (bn, v) recs /\
                                nth_error v i = Some (base_char b) /\ nth_error vs o = Some (base_char (app_par par b))) /\
    (forall sn names sy len, In (sn, (names, sy, len)) (p_structs p) ->
       In (sn, join_plus (map (fun n => match afind (r_strands a) n with Some v => v | None => [] end) names)) recs).
Proof. exact design_results_ok. Qed.
Print Assumptions C06_designed_string_flows.

(* the hypotheses are met, in both layouts, by a concrete document and designed string *)
Theorem C06_designed_string_nonvacuous : forall so, exists lay g e w s, seed demo_spec so = OK (lay, g) /\ spec_okb demo_spec so = true /\
  dgraph_ok demo_spec lay so = true /\ same_graph demo_spec lay so g = true /\ graph_ok g = true /\ place_okb demo_spec lay so = true /\
  get_constraints demo_spec so = DOk e w s /\ fits (demo_nts so) e w.
Proof. exact demo_results_hypotheses. Qed.
Print Assumptions C06_designed_string_nonvacuous.

(* the executable form of `fits` is sound *)
Theorem C06_fits_check_sound : forall nts e w, fitsb nts e w = true -> fits nts e w.
Proof. exact fitsb_fits. Qed.
Print Assumptions C06_fits_check_sound.

(* strand layout, no per-case hypothesis: every loaded and seeded document, every string that fits its arrays *)
Theorem C06_loaded_designed_string_flows : forall (ls : list pline) (p : pspec) (lay : layout) (g : cgraph) (nts : list ascii),
  load_spec ls pspec0 = OK p -> seed p false = OK (lay, g) ->
  forall (e w : list (option nat)) (s : list (option ascii)), get_constraints p false = DOk e w s -> fits nts e w ->
  exists (a : results) (recs : list (string * list ascii)),
    process_results p lay nts = OK a /\ output_records p a = OK recs /\
    (forall k n t, nth_error (p_bases p) k = Some (n, t) ->
       exists v wv, In (n, v) recs /\ In ((n ++ "*")%string, wv) recs /\ wc_codes v = Some wv /\ List.length v = List.length t) /\
    (forall n items l d, In (n, (items, l, d)) (p_strands p) ->
       exists vs, afind (r_strands a) n = Some vs /\ read_positions nts (tstart_of lay n) l = OK vs /\
         forall o c par, o < l -> nth o (flat_map (ref_c p (ctbl p)) items) (DAux 0 0, false) = (c, par) ->
           exists k i bn t v b, c = DAux (2 * k) i /\ nth_error (p_bases p) k = Some (bn, t) /\ In (bn, v) recs /\
                                nth_error v i = Some (base_char b) /\ nth_error vs o = Some (base_char (app_par par b))) /\
    (forall sn names sy len, In (sn, (names, sy, len)) (p_structs p) ->
       In (sn, join_plus (map (fun n => match afind (r_strands a) n with Some v => v | None => [] end) names)) recs).
Proof. exact loaded_design_results_ok. Qed.
Print Assumptions C06_loaded_designed_string_flows.
