(* C09 Accepted programs are well formed; malformed ones never compile silently. *)
From Coq Require Import List String.
From PC Require Import Comp.Syntax Comp.Struct Comp.StructProofs Comp.Compile Comp.Denote Comp.EmitProofs Comp.WfCheck Comp.WfPil Comp.CompileProofs Design.Designer Design.CrossProofs Base.Sexp Sys.System Sys.LoadWf Sys.SysWfPil Sys.SysDesign Comp.Fix Comp.FixShape Design.FixedEndToEnd Sys.SysFixed.
Import ListNotations.

(* whenever output is produced for a well-formed object, the document passes the executable
   well-formedness predicate: unique earlier definitions, resolved length = declared length for
   every sequence / super-sequence / strand, every structure balanced with one segment per strand of
   that strand's length, kinetics over defined structures *)
Theorem C09_emit_wf_pil : forall c, WF c -> WF2 c -> wf_pil (emit_comp c) = true.
Proof. exact emit_wf_pil. Qed.
Print Assumptions C09_emit_wf_pil.

Theorem C09_wf_check_sound : forall c, wf_check c = true -> WF c.
Proof. exact wf_check_sound. Qed.
Print Assumptions C09_wf_check_sound.
Theorem C09_wf_check2_sound : forall c, wf_check2 c = true -> WF2 c.
Proof. exact wf_check2_sound. Qed.
Print Assumptions C09_wf_check2_sound.

(* every structure the model accepts is balanced, whichever notation (incl. domain level) *)
Theorem C09_compiled_struct_balanced : forall n s, compile_snot n = OK s -> balanced s = true.
Proof. exact compile_snot_balanced. Qed.
Print Assumptions C09_compiled_struct_balanced.
Theorem C09_domain_struct_balanced : forall s doms r, domain_expand s doms = OK r -> balanced r = true.
Proof. exact domain_expand_balanced. Qed.
Print Assumptions C09_domain_struct_balanced.

(* end to end: whatever program the compile model accepts, the emitted document is well formed *)
Theorem C09_accepted_wf_pil : forall ctr prefix d body c ctr',
  compile_comp ctr prefix d body = OK (c, ctr') -> wf_pil (emit_comp c) = true.
Proof. exact compile_emit_wf_pil. Qed.
Print Assumptions C09_accepted_wf_pil.

(* the reserved identifiers the compiler rejects are exactly those starting with _Anon *)
Theorem C09_reserved_names : forall n, is_anon n = true <-> exists t, n = String.append "_Anon" t.
Proof. exact is_anon_spec. Qed.
Print Assumptions C09_reserved_names.

(* what the predicate buys downstream: a document that passes it, with nucleotide codes as templates, is
   accepted by the designer's loader (a simulation between the two readers, line by line) *)
Theorem C09_wf_pil_documents_load : forall ls, wf_pil ls = true ->
  (forall n k len, In (PSeq n k len) ls -> valid_template k = true) -> exists p, load_spec ls pspec0 = OK p.
Proof. exact wf_pil_loads. Qed.
Print Assumptions C09_wf_pil_documents_load.

(* whole systems: the specification written for whatever load_file accepts - any depth of nesting - passes the
   predicate (instance and signal names are identifiers without '-', as the .sys grammar yields them: a boolean) *)
Theorem C09_loaded_system_wf_pil : forall fs includes ctr b args o ctr', load_file fs includes 12 ctr b args "" "." = OK (o, ctr') ->
  names_ok 12 o -> wf_pil (emit_obj 12 o) = true.
Proof. exact loaded_system_wf_pil. Qed.
Print Assumptions C09_loaded_system_wf_pil.

Theorem C09_names_okb_sound : forall f o, names_okb f o = true -> names_ok f o.
Proof. exact names_okb_sound. Qed.
Print Assumptions C09_names_okb_sound.

(* "whenever the compiler produces output" includes compiles with a fixed-sequence file: a compiled component with any
   list of fixed entries applied - whatever each one's outcome - still emits a well-formed document *)
Theorem C09_fixed_component_wf_pil : forall ctr prefix d body c ctr' es,
  compile_comp ctr prefix d body = OK (c, ctr') -> wf_pil (emit_comp (fix_comp_entries c es)) = true.
Proof. exact fixed_component_wf_pil. Qed.
Print Assumptions C09_fixed_component_wf_pil.

(* ... and so does a whole (nested) system compiled with any fixed list (sequence, signal, strand and structure entries,
   qualified names, starred bindings): same name hypothesis as without a fixed file *)
Theorem C09_fixed_system_wf_pil : forall fs includes ctr basename args fixed lines ctr',
  compile_top fs includes ctr basename args fixed = OK (lines, ctr') ->
  (forall o, load_file fs includes 12 ctr basename args "" "." = OK (o, ctr') -> names_ok 12 o) -> wf_pil lines = true.
Proof. exact fixed_system_wf_pil. Qed.
Print Assumptions C09_fixed_system_wf_pil.
