(* C16 Saved compiler state reloads to the same system and matches its .pil -- PARTIAL.
   Proved: every line of the emitted .pil carries exactly the name, length, constraint string,
   dummy flag, item list, strand list and target of a compiled object (the object graph that is
   pickled), and (C01) every non-empty object has its line.  NOT provable here: that CPython's
   pickle together with default_ordered_dict / ordered_set reproduces an isomorphic object graph
   in a fresh process -- runtime behaviour.  The correspondence exhibits it: save after k earlier
   compiles, reload in a fresh interpreter, compare canonical graph dumps (identity classes,
   complement links, sharing between system and component tables) with the in-memory graph and
   with the .pil, and finish both ways. *)
From Coq Require Import List String Ascii.
Import ListNotations.
Local Open Scope list_scope.
From PC Require Import Base.Codes Comp.Syntax Comp.Compile Hist.SaveLoad Sys.System Design.SysFinish Sys.SysLines.

Theorem C16_pil_lines_match_objects_partial : forall c l, In l (emit_comp c) ->
  match l with
  | PSeq n k len => exists m b, n = c_prefix c +++ m /\ In (m, b) (c_bases c) /\ len = b_len b /\ k = b_const b /\ b_len b <> 0
  | PSup n items len => exists m s, n = c_prefix c +++ m /\ In (m, s) (c_sups c) /\ len = s_len s /\ items = emit_items c (s_seqs s) /\ s_len s <> 0
  | PStrand d n items len => exists m t, n = c_prefix c +++ m /\ In (m, t) (c_strands c) /\ d = t_dummy t /\ len = s_len (t_sup t) /\ items = emit_items c (s_seqs (t_sup t))
  | PStruct o n ss s => exists m u, n = c_prefix c +++ m /\ In (m, u) (c_structs c) /\ o = u_opt u /\ s = u_struct u /\ ss = map (fun x => c_prefix c +++ x) (u_strands u)
  | PKin lo hi i o => exists k, In k (c_kins c) /\ lo = k_low k /\ hi = k_high k
  | PEqual _ => False
  end.
Proof. exact pil_lines_match_objects. Qed.
Print Assumptions C16_pil_lines_match_objects_partial.

(* for a (nested) system: a line is in the specification exactly when it is a line of one of the component instances of the
   tree (and then it carries that object's name, length, constraint ... by the theorem above) or one of the two lines of a
   signal of a system of the tree: its sequence line of the recorded length and its `equal` line over the bindings *)
Theorem C16_system_lines_match_objects_partial : forall f o l, In l (emit_obj f o) <->
  (exists c, In c (leaves f o) /\ In l (emit_comp c)) \/
  (exists p comps sigs lens sname entries, In (p, comps, sigs, lens) (systems f o) /\ In (sname, entries) sigs /\
     In l [PSeq (p +++ sname) (repeat "N"%char (match afind lens sname with Some n => n | None => 0 end)) (match afind lens sname with Some n => n | None => 0 end);
           PEqual ((p +++ sname, false) :: map (fun '(l0, cname, wc) => (loc_name p comps l0 cname, wc)) entries)]).
Proof. exact system_lines_match_objects. Qed.
Print Assumptions C16_system_lines_match_objects_partial.
