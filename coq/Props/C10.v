(* C10 Wildcards and declared lengths resolve exactly. *)
From Coq Require Import List String Ascii Arith.
From PC Require Import Comp.Syntax Comp.Wild Comp.Compile Comp.WildProofs Comp.OrderProofs.
Import ListNotations.

Theorem C10_wild_exact : forall ps L, count_wild ps = 1 -> sum_nums ps <= L ->
  get_length_const (Some L) ps = WOk L (build_const (L - sum_nums ps) ps) /\
  List.length (build_const (L - sum_nums ps) ps) = L /\
  get_length_const (Some L) (subst_wild (L - sum_nums ps) ps) = WOk L (build_const (L - sum_nums ps) ps).
Proof. exact wild_exact. Qed.
Print Assumptions C10_wild_exact.

Theorem C10_nowild_exact : forall ps, count_wild ps = 0 ->
  get_length_const None ps = WOk (sum_nums ps) (build_const 0 ps) /\
  (forall L, get_length_const (Some L) ps = if Nat.eqb L (sum_nums ps) then WOk L (build_const 0 ps) else WErr "length-mismatch").
Proof. exact nowild_exact. Qed.
Print Assumptions C10_nowild_exact.

(* written order and multiplicity of all parts are kept *)
Theorem C10_order_kept : forall w a b, build_const w (a ++ b) = build_const w a ++ build_const w b.
Proof. exact build_const_app. Qed.
Print Assumptions C10_order_kept.

Theorem C10_wild_rejects : forall ps,
  (2 <= count_wild ps -> forall len, get_length_const len ps = WErr "too-many-wildcards") /\
  (count_wild ps = 1 -> get_length_const None ps = WWild) /\
  (count_wild ps = 1 -> forall L, L < sum_nums ps -> get_length_const (Some L) ps = WErr "too-short") /\
  (count_wild ps = 0 -> forall L, L <> sum_nums ps -> get_length_const (Some L) ps = WErr "length-mismatch").
Proof. exact wild_rejects. Qed.
Print Assumptions C10_wild_rejects.

Theorem C10_composite_wild_position : forall c ctr pre ps post L s anons ctr' q1,
  count_wild ps = 1 ->
  bs_loop c pre {| q_seqs := []; q_base := []; q_len := 0; q_wild := None; q_anons := []; q_ctr := ctr |} = OK q1 ->
  q_wild q1 = None ->
  build_super c ctr (pre ++ CNuc ps :: post) (Some L) = OK (s, anons, ctr') ->
  exists nm X Y, s_seqs s = q_seqs q1 ++ RB nm false :: X /\ s_base s = q_base q1 ++ (nm, false) :: Y /\ s_len s = L.
Proof. exact composite_wild_position. Qed.
Print Assumptions C10_composite_wild_position.

Theorem C10_composite_two_wild_rejected : forall c ctr a ps1 b ps2 d L,
  count_wild ps1 = 1 -> count_wild ps2 = 1 ->
  exists k, build_super c ctr (a ++ CNuc ps1 :: b ++ CNuc ps2 :: d) L = Err k.
Proof. exact composite_two_wild_rejected. Qed.
Print Assumptions C10_composite_two_wild_rejected.

(* composite with a declared length: the '?' region takes exactly what the other items (compiled
   on their own, without a declared length) leave, the total is the declared length, and the
   region's constraint string is the one with that number written explicitly *)
Theorem C10_composite_wild_exact : forall c ctr pre ps post L s anons ctr', count_wild ps = 1 ->
  build_super c ctr (pre ++ CNuc ps :: post) (Some L) = OK (s, anons, ctr') ->
  exists s0 anons0 ctr0 l, build_super c ctr (pre ++ post) None = OK (s0, anons0, ctr0) /\
    s_len s0 + l = L /\ sum_nums ps <= l /\ s_len s = L /\ ctr' = S ctr0 /\
    anons = anons0 ++ [(anon_name ctr0, {| b_len := l; b_const := build_const (l - sum_nums ps) ps; b_anon := true |})].
Proof. exact composite_wild_exact. Qed.
Print Assumptions C10_composite_wild_exact.

(* every item of a composite keeps its written place; plain quoted regions keep their written
   multiplicities (spec_anons) *)
Theorem C10_composite_written_order : forall c ctr items len s anons ctr', build_super c ctr items len = OK (s, anons, ctr') ->
  s_seqs s = spec_seqs (anon_name (ctr + count_plain items)) items ctr /\
  exists tail, anons = spec_anons items ctr ++ tail /\ ctr' = ctr + count_plain items + List.length tail /\
               (tail = [] \/ exists b, tail = [(anon_name (ctr + count_plain items), b)]).
Proof. exact build_super_seqs. Qed.
Print Assumptions C10_composite_written_order.
