(* C20 Runs with distinct output names do not interfere -- PARTIAL.
   Proved: (1) over an abstract file system, processes whose write sets are pairwise disjoint and
   disjoint from the others' read sets produce under EVERY interleaving of their atomic file
   operations the same final files and the same per-process observations as the sequential run;
   (2) over the footprints regenerated from the source on every run: a compile modifies only its
   output and save files, a design run only its output, the four scratch files derived from its
   temp name and unique mkstemp files, a finish only its sequence files; the CLI defaults derive
   these names from BASENAME; (3) different temp names never share a scratch file.
   NOT provable here: real OS scheduling and file-system semantics, interpreter side effects; the
   footprints are compared with strace'd runs and concurrent runs are compared byte for byte with
   sequential ones. *)
From Coq Require Import List String Arith Bool Permutation.
From PC Require Import Conc.FootprintDefs Conc.FootprintGen Conc.FS2 Conc.Footprint Conc.Disjoint.
Import ListNotations.

Theorem C20_interleavings_equivalent_partial : forall (V : Type) s1 s2, Permutation s1 s2 ->
  forall g : gstate V, indep V g -> geq V (run V s1 g) (run V s2 g).
Proof. exact interleavings_equivalent. Qed.
Print Assumptions C20_interleavings_equivalent_partial.

Theorem C20_compile_modifies_only : only_modifies compile_fx [PArg "outputname"; PArg "savename"] = true.
Proof. exact compile_modifies_only. Qed.
Print Assumptions C20_compile_modifies_only.
Theorem C20_design_modifies_only :
  only_modifies design_fx (PArg "outfilename" :: PFresh :: map (PCat scratch_base) scratch_exts) = true.
Proof. exact design_modifies_only. Qed.
Print Assumptions C20_design_modifies_only.
Theorem C20_finish_modifies_only : only_modifies finish_fx [PArg "seqsname"; PArg "strandsname"] = true.
Proof. exact finish_modifies_only. Qed.
Print Assumptions C20_finish_modifies_only.
Theorem C20_scratch_disjoint : forall t1 t2 e1 e2, t1 <> t2 -> In e1 scratch_exts -> In e2 scratch_exts ->
  (t1 ++ e1)%string <> (t2 ++ e2)%string.
Proof. exact scratch_disjoint. Qed.
Print Assumptions C20_scratch_disjoint.

(* the "consequently": the generated footprints evaluated under the arguments of two runs (peval: a parameter's value if it
   was given, the back-end alternative, the name mkstemp returned) name disjoint sets of files to be modified when the output,
   save and temp names are distinct - the independence hypothesis of C20_interleavings_equivalent_partial *)
Theorem C20_compiles_modify_disjoint_files : forall e1 e2 f1 f2 fr1 fr2 o1 s1 o2 s2,
  e1 "outputname"%string = Some o1 -> e1 "savename"%string = Some s1 -> e2 "outputname"%string = Some o2 -> e2 "savename"%string = Some s2 ->
  o1 <> o2 -> o1 <> s2 -> s1 <> o2 -> s1 <> s2 -> forall p, In p (mods e1 f1 fr1 compile_fx) -> In p (mods e2 f2 fr2 compile_fx) -> False.
Proof. exact compiles_disjoint. Qed.
Print Assumptions C20_compiles_modify_disjoint_files.

Theorem C20_designs_modify_disjoint_files : forall e1 e2 f1 f2 fr1 fr2 o1 o2 t1 t2,
  e1 "outfilename"%string = Some o1 -> e2 "outfilename"%string = Some o2 ->
  peval e1 f1 fr1 scratch_base = Some t1 -> peval e2 f2 fr2 scratch_base = Some t2 ->
  o1 <> o2 -> t1 <> t2 -> fr1 <> fr2 -> o1 <> fr2 -> o2 <> fr1 ->
  (forall ext, In ext scratch_exts -> o1 <> (t2 ++ ext)%string /\ o2 <> (t1 ++ ext)%string /\ fr1 <> (t2 ++ ext)%string /\ fr2 <> (t1 ++ ext)%string) ->
  forall p, In p (mods e1 f1 fr1 design_fx) -> In p (mods e2 f2 fr2 design_fx) -> False.
Proof. exact designs_disjoint. Qed.
Print Assumptions C20_designs_modify_disjoint_files.

(* ... and from file sets to the conclusion: processes that write only into pairwise disjoint file sets which no other process
   reads end, under every interleaving of their atomic file operations, in the same files and the same observations *)
Theorem C20_disjoint_file_sets_commute : forall (V : Type) (g : gstate V) (W R : nat -> list string) s1 s2,
  (forall i p, In p (writes V (queue V (snd g i))) -> In p (W i)) ->
  (forall i p, In p (reads V (queue V (snd g i))) -> In p (R i)) ->
  (forall i j, i <> j -> forall p, In p (W i) -> ~ In p (W j) /\ ~ In p (R j)) ->
  Permutation s1 s2 -> geq V (run V s1 g) (run V s2 g).
Proof. exact runs_with_disjoint_sets_commute. Qed.
Print Assumptions C20_disjoint_file_sets_commute.
