(* C20 Runs with distinct output names do not interfere -- PARTIAL.
   Proved: (1) over an abstract file system, processes whose write sets are pairwise disjoint and
   disjoint from the others' read sets produce under EVERY interleaving of their atomic file
   operations the same final files and the same per-process observations as the sequential run;
   (2) over the footprints regenerated from the source on every run: a compile modifies only its
   output and save files, a design run only its output, the four scratch files derived from its
   temp name and unique mkstemp files, a finish only its sequence files; the CLI defaults derive
   these names from BASENAME; (3) different temp names never share a scratch file.
   NOT provable here: real OS scheduling and file-system semantics, interpreter side effects; the
   footprints are compared with strace'd runs and concurrent runs are compared byte for byte with
   sequential ones. *)
From Coq Require Import List String Arith Bool Permutation.
From PC Require Import Conc.FootprintDefs Conc.FootprintGen Conc.FS2 Conc.Footprint.
Import ListNotations.

Theorem C20_interleavings_equivalent_partial : forall (V : Type) s1 s2, Permutation s1 s2 ->
  forall g : gstate V, indep V g -> geq V (run V s1 g) (run V s2 g).
Proof. exact interleavings_equivalent. Qed.
Print Assumptions C20_interleavings_equivalent_partial.

Theorem C20_compile_modifies_only : only_modifies compile_fx [PArg "outputname"; PArg "savename"] = true.
Proof. exact compile_modifies_only. Qed.
Print Assumptions C20_compile_modifies_only.
Theorem C20_design_modifies_only :
  only_modifies design_fx (PArg "outfilename" :: PFresh :: map (PCat scratch_base) scratch_exts) = true.
Proof. exact design_modifies_only. Qed.
Print Assumptions C20_design_modifies_only.
Theorem C20_finish_modifies_only : only_modifies finish_fx [PArg "seqsname"; PArg "strandsname"] = true.
Proof. exact finish_modifies_only. Qed.
Print Assumptions C20_finish_modifies_only.
Theorem C20_scratch_disjoint : forall t1 t2 e1 e2, t1 <> t2 -> In e1 scratch_exts -> In e2 scratch_exts ->
  (t1 ++ e1)%string <> (t2 ++ e2)%string.
Proof. exact scratch_disjoint. Qed.
Print Assumptions C20_scratch_disjoint.
