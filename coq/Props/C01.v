(* C01 Compiled PIL preserves each component's strands, structures and constraints.
   Emission half, for every component object satisfying the invariant WF:
   re-reading the emitted lines through their own definitions (as the PIL reader resolves
   names) gives exactly the nucleotides of the model objects.  C01_compile_wf: every program
   the compile model accepts yields an object satisfying WF (proved by induction over the
   statements; the verified checker wf_check additionally re-establishes it per compiled case),
   so C01_compile_emit states the re-reading theorems for every accepted program. *)
From Coq Require Import List String.
From PC Require Import Comp.Syntax Comp.Compile Comp.Denote Comp.EmitProofs Comp.WfCheck Comp.WfPil Comp.CompileProofs Comp.Struct Comp.Wild Comp.OrderProofs.
Import ListNotations.

Theorem C01_emit_defs : forall c, WF c -> pil_defs (emit_comp c) [] = Some (final_env c).
Proof. exact emit_defs. Qed.
Print Assumptions C01_emit_defs.

Theorem C01_emit_strands : forall c, WF c ->
  pil_strands (emit_comp c) (final_env c) =
  map (fun '(n, t) => (c_prefix c +++ n, t_dummy t, Some (flatB c (s_base (t_sup t))), s_len (t_sup t))) (c_strands c).
Proof. exact emit_strands. Qed.
Print Assumptions C01_emit_strands.

Theorem C01_emit_named_sup : forall c, WF c -> forall n s, In (n, s) (c_sups c) -> s_len s <> 0 ->
  afind (final_env c) (c_prefix c +++ n) = Some (flatB c (s_base s)).
Proof. exact emit_named_sup. Qed.
Print Assumptions C01_emit_named_sup.

Theorem C01_emit_named_base : forall c, WF c -> forall n b, In (n, b) (c_bases c) -> b_len b <> 0 ->
  afind (final_env c) (c_prefix c +++ n) = Some (dom_nts (c_prefix c +++ n) (b_len b)).
Proof. exact emit_named_base. Qed.
Print Assumptions C01_emit_named_base.

(* nothing is added: the defined names are exactly the non-empty sequences and super-sequences *)
Theorem C01_emit_names : forall c k, In k (map fst (final_env c)) ->
  exists n, k = c_prefix c +++ n /\
    ((exists b, In (n, b) (c_bases c) /\ b_len b <> 0) \/ (exists s, In (n, s) (c_sups c) /\ s_len s <> 0)).
Proof. exact emit_names. Qed.
Print Assumptions C01_emit_names.

(* a complemented view flattens to the reverse complement *)
Theorem C01_flat_rc : forall c l, flatB c (rc_brefs l) = rc (flatB c l).
Proof. exact flatB_rc. Qed.
Print Assumptions C01_flat_rc.

Theorem C01_wf_check_sound : forall c, wf_check c = true -> WF c.
Proof. exact wf_check_sound. Qed.
Print Assumptions C01_wf_check_sound.

(* every accepted program yields a well-formed object, and the counter returned is beyond every
   anonymous name in it (identifiers of the reserved form _Anon... are rejected by the compiler) *)
Theorem C01_compile_wf : forall ctr prefix d body c ctr',
  compile_comp ctr prefix d body = OK (c, ctr') -> WF c /\ WF2 c /\ fresh_from c ctr'.
Proof. exact compile_comp_inv. Qed.
Print Assumptions C01_compile_wf.

Theorem C01_compile_emit : forall ctr prefix d body c ctr',
  compile_comp ctr prefix d body = OK (c, ctr') ->
  pil_defs (emit_comp c) [] = Some (final_env c) /\
  pil_strands (emit_comp c) (final_env c) =
    map (fun '(n, t) => (c_prefix c +++ n, t_dummy t, Some (flatB c (s_base (t_sup t))), s_len (t_sup t))) (c_strands c).
Proof. exact compile_emit_defs. Qed.
Print Assumptions C01_compile_emit.

(* ---- source to object: nothing dropped, reordered or re-oriented ----
   spec_seqs / clean_spec are the written item list: references keep their star, domains(X) is
   replaced by X's items (reversed and flipped when starred), each quoted region becomes a fresh
   anonymous sequence at its written position. *)
Theorem C01_strand_written : forall ctr prefix d pre dummy name items len post c ctr',
  compile_comp ctr prefix d (pre ++ SStrand dummy name items len :: post) = OK (c, ctr') ->
  exists c1 ctr1 t, steps (empty_comp prefix, ctr) pre = OK (c1, ctr1) /\
    afind (c_strands c) name = Some t /\ t_dummy t = dummy /\
    s_seqs (t_sup t) = spec_seqs (anon_name (ctr1 + count_plain (clean_spec c1 items))) (clean_spec c1 items) ctr1 /\
    (forall L, len = Some L -> s_len (t_sup t) = L).
Proof. exact compile_strand_written. Qed.
Print Assumptions C01_strand_written.

Theorem C01_sup_written : forall ctr prefix d pre name items len post c ctr', composite_items items = true ->
  compile_comp ctr prefix d (pre ++ SSeq name items len :: post) = OK (c, ctr') ->
  exists c1 ctr1 s, steps (empty_comp prefix, ctr) pre = OK (c1, ctr1) /\
    afind (c_sups c) name = Some s /\
    s_seqs s = spec_seqs (anon_name (ctr1 + count_plain (clean_spec c1 items))) (clean_spec c1 items) ctr1.
Proof. exact compile_sup_written. Qed.
Print Assumptions C01_sup_written.

Theorem C01_seq_written : forall ctr prefix d pre name ps len post c ctr',
  compile_comp ctr prefix d (pre ++ SSeq name [INuc ps] len :: post) = OK (c, ctr') ->
  exists l k, get_length_const len ps = WOk l k /\
    afind (c_bases c) name = Some {| b_len := l; b_const := k; b_anon := false |}.
Proof. exact compile_seq_written. Qed.
Print Assumptions C01_seq_written.

Theorem C01_struct_written : forall ctr prefix d pre opt name names domain sn post c ctr',
  compile_comp ctr prefix d (pre ++ SStruct opt name names domain sn :: post) = OK (c, ctr') ->
  exists c1 ctr1 s0 ts u, steps (empty_comp prefix, ctr) pre = OK (c1, ctr1) /\ compile_snot sn = OK s0 /\
    find_strands c1 names = OK ts /\ afind (c_structs c) name = Some u /\
    u_opt u = opt /\ u_strands u = names /\
    (if domain then domain_expand s0 (map (fun t => map (ref_len c1) (s_seqs (t_sup t))) ts) else OK s0) = OK (u_struct u).
Proof. exact compile_struct_written. Qed.
Print Assumptions C01_struct_written.

Theorem C01_kin_written : forall ctr prefix d pre low high ins0 outs post c ctr',
  compile_comp ctr prefix d (pre ++ SKin low high ins0 outs :: post) = OK (c, ctr') ->
  exists K1 K2, c_kins c = K1 ++ {| k_low := low; k_high := high; k_ins := ins0; k_outs := outs |} :: K2.
Proof. exact compile_kin_written. Qed.
Print Assumptions C01_kin_written.
