(* C18 Compilation is a pure function of its inputs.
   The compile model is a function of (file table, arguments, include list, starting counter) by
   construction, so the only thing an earlier compilation in the same process can change is the
   starting value of the anonymous counter.  Proved: compiling the same component from another
   starting value succeeds as well and yields the same object with _Anon(ctr+k) renamed to
   _Anon(ctr'+k), the same number of anonymous sequences (C18_compile_renumber, a simulation over
   all statements incl. the deferred wildcard and register; it needs the compiler's rejection of
   user names of the reserved form _Anon..., without which the theorem is false: see D12), and the emitted specification of the
   renamed object is the emitted specification with the same renaming applied to every name
   (C18_emit_renumber); anonymous names are an injective function of the counter; all names
   defined in one emitted document are distinct.  NOT provable here: that the implementation has
   no other hidden state (module-level pyparsing configuration, in-place parameter dictionaries,
   set iteration order, current directory); the correspondence over histories, invocation
   directories, PYTHONHASHSEED values and back-ends decides that per case. *)
From Coq Require Import List String.
From PC Require Import Base.Sexp Comp.Syntax Comp.Compile Comp.EmitProofs Comp.WfPil Comp.CompileProofs Hist.Purity Hist.Renumber Sys.System Sys.SysWfPil Sys.SysNames Sys.WfUnique Sys.SysFixed Hist.RenumberEmit Hist.RenumberSys Design.SysFinish.
Import ListNotations.
Local Open Scope string_scope.

Theorem C18_anon_name_injective : forall k k', anon_name k = anon_name k' -> k = k'.
Proof. exact anon_name_injective. Qed.
Print Assumptions C18_anon_name_injective.

Theorem C18_names_unique_in_output : forall c, WF c -> WF2 c -> wf_pil (emit_comp c) = true.
Proof. exact emit_wf_pil. Qed.
Print Assumptions C18_names_unique_in_output.

Theorem C18_compile_renumber : forall ctr ctr' prefix d body c ctr1,
  compile_comp ctr prefix d body = OK (c, ctr1) ->
  compile_comp ctr' prefix d body = OK (r_comp (rho_c ctr ctr1 ctr') c, ctr' + (ctr1 - ctr)).
Proof. exact compile_renumber. Qed.
Print Assumptions C18_compile_renumber.

Theorem C18_emit_renumber : forall (rho : string -> string) (D : string -> Prop), (forall a b, D a -> D b -> rho a = rho b -> a = b) ->
  (forall n, is_anon n = false -> D n /\ rho n = n) ->
  forall c, WF c -> WF2 c -> keysD D (c_bases c) -> user_keys (c_sups c) -> user_keys (c_strands c) -> user_keys (c_structs c) ->
  emit_comp (r_comp rho c) = map (map_line (ren_name (c_prefix c) rho)) (emit_comp c).
Proof. exact emit_renumber. Qed.
Print Assumptions C18_emit_renumber.

(* "within one output all object names are unique", spelled out: a document that passes the well-formedness predicate
   defines every sequence / super-sequence name once, every strand name once and every structure name once *)
Theorem C18_wf_document_names_unique : forall ls, wf_pil ls = true ->
  NoDup (seq_line_names ls) /\ NoDup (strand_line_names ls) /\ NoDup (struct_line_names ls).
Proof. exact wf_pil_names_unique. Qed.
Print Assumptions C18_wf_document_names_unique.

(* ... hence in the output of every compile of a (nested) system, with any fixed-sequence file *)
Theorem C18_system_output_names_unique : forall fs includes ctr basename args fixed lines ctr',
  compile_top fs includes ctr basename args fixed = OK (lines, ctr') ->
  (forall o, load_file fs includes 12 ctr basename args "" "." = OK (o, ctr') -> names_ok 12 o) ->
  NoDup (seq_line_names lines) /\ NoDup (strand_line_names lines) /\ NoDup (struct_line_names lines).
Proof. exact fixed_system_names_unique. Qed.
Print Assumptions C18_system_output_names_unique.

(* "regardless of what was compiled earlier in the same process", whole nested systems: an earlier compilation only moves the
   starting value of the anonymous counter; loading the same files with the same arguments from any other starting value
   succeeds as well, uses up the same number of anonymous names, and yields the same tree of instances (prefixes, instance
   names, signal tables, lengths, ports) in which every component is the old one with _Anon(k) renamed to
   _Anon(ctr' + (k - ctr)) - the same shift everywhere (osim) *)
Theorem C18_system_load_renumber : forall fs includes f ctr b args prefix path o ctr1,
  load_file fs includes f ctr b args prefix path = OK (o, ctr1) ->
  forall ctr', ctr <= ctr1 /\ exists o', load_file fs includes f ctr' b args prefix path = OK (o', ctr' + (ctr1 - ctr)) /\ osim ctr ctr' f o o'.
Proof. exact load_file_renumber. Qed.
Print Assumptions C18_system_load_renumber.

(* ... and so for the compile as a whole: success and the number of anonymous names used do not depend on the history; the
   two specifications are the emissions of two trees related by that renumbering *)
Theorem C18_system_compile_history_independent : forall fs includes ctr b args lines ctr1,
  compile_top fs includes ctr b args [] = OK (lines, ctr1) ->
  forall ctr', exists o o' lines', load_file fs includes 12 ctr b args "" "." = OK (o, ctr1) /\ lines = emit_obj 12 o /\
    compile_top fs includes ctr' b args [] = OK (lines', ctr' + (ctr1 - ctr)) /\ lines' = emit_obj 12 o' /\ osim ctr ctr' 12 o o'.
Proof. exact compile_top_renumber. Qed.
Print Assumptions C18_system_compile_history_independent.

(* compile and emit composed, one component: from any other starting counter the compile succeeds and the specification is
   the old one with the names under the instance prefix renamed through rho_c - _Anon(k) becomes _Anon(ctr' + (k - ctr)),
   nothing else changes (strand names are not checked against the reserved form by the compiler, hence the hypothesis) *)
Theorem C18_compile_emit_renumber : forall ctr ctr' prefix d body c ctr1,
  compile_comp ctr prefix d body = OK (c, ctr1) -> strand_names_user body ->
  compile_comp ctr' prefix d body = OK (r_comp (rho_c ctr ctr1 ctr') c, ctr' + (ctr1 - ctr)) /\
  emit_comp (r_comp (rho_c ctr ctr1 ctr') c) = map (map_line (ren_name prefix (rho_c ctr ctr1 ctr'))) (emit_comp c).
Proof. exact compile_emit_renumber. Qed.
Print Assumptions C18_compile_emit_renumber.

(* nested systems, the two specifications line by line: a line of the second is the corresponding line of the first, or that
   line with the names of one component instance renamed through the same shift (lrel); signal lines are identical *)
Theorem C18_system_specifications_correspond : forall fs includes ctr b args lines ctr1,
  compile_top fs includes ctr b args [] = OK (lines, ctr1) ->
  (forall o, load_file fs includes 12 ctr b args "" "." = OK (o, ctr1) -> forall c, In c (leaves 12 o) -> user_keys (c_strands c)) ->
  forall ctr', exists lines', compile_top fs includes ctr' b args [] = OK (lines', ctr' + (ctr1 - ctr)) /\ Forall2 (lrel ctr ctr') lines lines'.
Proof. exact compile_top_renumber_lines. Qed.
Print Assumptions C18_system_specifications_correspond.
