(* C18 Compilation is a pure function of its inputs -- PARTIAL.
   The compile model is a function of (file table, arguments, include list, starting counter) by
   construction; proved in addition: anonymous names are an injective function of the counter
   (two runs differ by a consistent renumbering fixed by the starting counter) and all names
   defined in one emitted document are distinct (the document passes wf_pil, whose every
   definition step requires a fresh name).  NOT provable here: that the implementation has no
   other hidden state (module-level pyparsing configuration, in-place parameter dictionaries, set
   iteration order, current directory); the correspondence over histories, invocation
   directories, PYTHONHASHSEED values and back-ends decides that per case. *)
From Coq Require Import List String.
From PC Require Import Comp.Syntax Comp.Compile Comp.EmitProofs Comp.WfPil Hist.Purity.

Theorem C18_anon_name_injective_partial : forall k k', anon_name k = anon_name k' -> k = k'.
Proof. exact anon_name_injective. Qed.
Print Assumptions C18_anon_name_injective_partial.

Theorem C18_names_unique_in_output : forall c, WF c -> WF2 c -> wf_pil (emit_comp c) = true.
Proof. exact emit_wf_pil. Qed.
Print Assumptions C18_names_unique_in_output.
