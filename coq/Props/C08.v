(* C08 All secondary-structure notations denote the same nucleotide-level structure. *)
From Coq Require Import List String.
From PC Require Import Comp.Syntax Comp.Struct Comp.StructProofs.
Import ListNotations.

(* every HU description (any nesting, U0/H0, adjacent runs, strand breaks) expands to a balanced string *)
Theorem C08_hu_balanced : forall ts, balanced (expand ts) = true.
Proof. exact expand_balanced. Qed.
Print Assumptions C08_hu_balanced.

(* run-length / plain dot-paren is accepted iff its flattening balances; the result is the flattening *)
Theorem C08_ext_accept : forall l s, ext2dp l = OK s <-> (s = flatten_ext l /\ balanced (flatten_ext l) = true).
Proof. exact ext2dp_spec. Qed.
Print Assumptions C08_ext_accept.
Theorem C08_ext_rejects : forall l, balanced (flatten_ext l) = false -> exists k, ext2dp l = Err k.
Proof. exact ext2dp_rejects. Qed.
Print Assumptions C08_ext_rejects.

(* every spelling of one balanced string compiles to that string *)
Theorem C08_notations_agree : forall t l s, expand t = s -> flatten_ext l = s ->
  compile_snot (NHU t) = OK s /\ (balanced s = true -> compile_snot (NExt l) = OK s).
Proof. exact notations_agree. Qed.
Print Assumptions C08_notations_agree.
Theorem C08_compiled_balanced : forall n s, compile_snot n = OK s -> balanced s = true.
Proof. exact compile_snot_balanced. Qed.
Print Assumptions C08_compiled_balanced.

(* dot-paren -> HU -> dot-paren is the identity (on every parse tree of the dot-paren grammar) *)
Theorem C08_hu_roundtrip : forall t, expand (dp2hu t) = unparse t.
Proof. exact hu_roundtrip. Qed.
Print Assumptions C08_hu_roundtrip.

(* an accepted domain-level structure is balanced; each expanded strand segment has the
   summed length of the strand's domains; Structure's own check pins every segment to its strand *)
Theorem C08_domain_balanced : forall s doms r, domain_expand s doms = OK r -> balanced r = true.
Proof. exact domain_expand_balanced. Qed.
Print Assumptions C08_domain_balanced.
Theorem C08_domain_lengths : forall subs doms segs, expand_strands subs doms = OK segs ->
  map (@List.length sym) segs = map list_sum doms.
Proof. exact expand_strands_lengths. Qed.
Print Assumptions C08_domain_lengths.
Theorem C08_structure_ok : forall s lens, structure_ok s lens = true -> map (@List.length sym) (split_plus s) = lens.
Proof. exact structure_ok_spec. Qed.
Print Assumptions C08_structure_ok.
