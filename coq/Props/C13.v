(* C13 Parameterised templates compile like their hand-expanded form.
   Both loaders consume only the text process_list returns, so it suffices that this text is
   the hand expansion: proved for the brace duplication (all lines, any number of groups and
   alternatives) and for <expression> replacement (segment-wise). *)
From Coq Require Import List String Ascii Arith ZArith.
From PC Require Import Base.Sexp Subst.VarSubst Subst.SubstProofs.
Import ListNotations.

Theorem C13_duplicate_is_hand_expansion : forall pre segs, bfree pre -> Forall seg_ok segs ->
  duplicate (render pre segs) = Some (List.concat (expand pre segs)).
Proof. exact duplicate_is_hand_expansion. Qed.
Print Assumptions C13_duplicate_is_hand_expansion.

Theorem C13_dup_product : forall segs pre fuel, bfree pre -> Forall seg_ok segs -> List.length segs < fuel ->
  dup fuel (render pre segs) = Some (List.concat (expand pre segs)).
Proof. exact dup_product. Qed.
Print Assumptions C13_dup_product.

Theorem C13_angles_spec : forall tbl e segs pre fuel out, afree pre ->
  Forall (fun s => afree (fst s) /\ afree (snd s)) segs -> List.length segs < fuel ->
  asubst tbl e pre segs = Some out -> subst_angles fuel tbl e (arender pre segs) = SOk out.
Proof. exact angles_spec. Qed.
Print Assumptions C13_angles_spec.
