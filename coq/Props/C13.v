(* C13 Parameterised templates compile like their hand-expanded form.
   Both loaders consume only the text process_list returns, so it suffices that this text is
   the hand expansion: proved for the brace duplication (all lines, any number of groups and
   alternatives) and for <expression> replacement (segment-wise); and for the loop over the lines of a file
   (FileProofs): comments are cut from the first '#' to the end of the line, a `length` line of the accepted shape binds its
   name for the lines below and writes nothing, a general line is written as the hand expansion of its substituted text, a
   line without comment, parameter or group is copied verbatim, and text already written is never changed. *)
From Coq Require Import List String Ascii Arith ZArith.
From PC Require Import Base.Sexp Subst.VarSubst Subst.SubstProofs Subst.FileProofs.
Import ListNotations.

Theorem C13_duplicate_is_hand_expansion : forall pre segs, bfree pre -> Forall seg_ok segs ->
  duplicate (render pre segs) = Some (List.concat (expand pre segs)).
Proof. exact duplicate_is_hand_expansion. Qed.
Print Assumptions C13_duplicate_is_hand_expansion.

Theorem C13_dup_product : forall segs pre fuel, bfree pre -> Forall seg_ok segs -> List.length segs < fuel ->
  dup fuel (render pre segs) = Some (List.concat (expand pre segs)).
Proof. exact dup_product. Qed.
Print Assumptions C13_dup_product.

Theorem C13_angles_spec : forall tbl e segs pre fuel out, afree pre ->
  Forall (fun s => afree (fst s) /\ afree (snd s)) segs -> List.length segs < fuel ->
  asubst tbl e pre segs = Some out -> subst_angles fuel tbl e (arender pre segs) = SOk out.
Proof. exact angles_spec. Qed.
Print Assumptions C13_angles_spec.

(* comments removed: from the first '#' up to, not including, the end of the line; a line without '#' is unchanged *)
Theorem C13_comment_removed : forall pre cmt rest, lacks hash pre -> lacks nl cmt ->
  strip_comment (pre ++ hash :: cmt ++ nl :: rest) = pre ++ nl :: rest /\ strip_comment (pre ++ hash :: cmt) = pre.
Proof. exact strip_comment_spec. Qed.
Print Assumptions C13_comment_removed.

(* one line of the file inside process_list: with the comment cut and the newline ensured, if the text reads
   pre <e1> t1 <e2> t2 ... and, with every <ei> replaced by the decimal value of ei under the current bindings, reads
   pre' {a,b,..} u1 {..} u2 ..., then what is appended to the output is the concatenation of the hand expansion, leftmost
   group slowest (nothing when that is blank), and the bindings are unchanged for the lines below *)
Theorem C13_line_is_hand_expansion : forall tbl e line0 rest out apre asegs bpre bsegs l2,
  (if ends_with_nl (strip_comment line0) then strip_comment line0 else strip_comment line0 ++ [nl]) = arender apre asegs ->
  match_length (arender apre asegs) = None ->
  afree apre -> Forall (fun s => afree (fst s) /\ afree (snd s)) asegs -> asubst tbl e apre asegs = Some l2 ->
  l2 = render bpre bsegs -> bfree bpre -> Forall seg_ok bsegs ->
  process tbl e (line0 :: rest) out =
  process tbl e rest (if all_space (List.concat (expand bpre bsegs)) then out else out ++ List.concat (expand bpre bsegs)).
Proof. exact process_line_is_hand_expansion. Qed.
Print Assumptions C13_line_is_hand_expansion.

(* all other text untouched *)
Theorem C13_plain_line_untouched : forall tbl e body rest out, lacks hash body -> afree body -> bfree body ->
  match_length (body ++ [nl]) = None -> all_space (body ++ [nl]) = false ->
  process tbl e ((body ++ [nl]) :: rest) out = process tbl e rest (out ++ body ++ [nl]).
Proof. exact process_plain_line. Qed.
Print Assumptions C13_plain_line_untouched.

(* earlier `length` definitions: the line writes nothing and its name is bound to the value for every line below *)
Theorem C13_length_line_binds : forall tbl e line0 rest out name src x v,
  match_length (if ends_with_nl (strip_comment line0) then strip_comment line0 else strip_comment line0 ++ [nl]) = Some (name, src) ->
  lookup_expr tbl src = Some x -> eval e x = Some v ->
  process tbl e (line0 :: rest) out = process tbl (bindv e name v) rest out.
Proof. exact process_length_line. Qed.
Print Assumptions C13_length_line_binds.

(* ... and which lines those are: blanks, "length", blanks, a word, blanks, "=", blanks, the expression up to the newline *)
Theorem C13_length_line_shape : forall ws0 ws1 w ws2 ws3 src,
  blanks ws0 -> blanks ws1 -> ws1 <> [] -> (forall c, In c w -> is_word c = true) -> w <> [] -> blanks ws2 -> blanks ws3 ->
  lacks nl src -> (match src with c :: _ => is_space c = false | [] => True end) ->
  match_length (ws0 ++ chars "length" ++ ws1 ++ w ++ ws2 ++ "="%char :: ws3 ++ src ++ [nl]) = Some (unchars w, src).
Proof. exact match_length_spec. Qed.
Print Assumptions C13_length_line_shape.

(* text already written is never changed by the lines below: the result is the old output followed by a text that does
   not depend on it *)
Theorem C13_output_only_appended : forall tbl lines e out r, process tbl e lines out = POk r ->
  exists t, r = out ++ t /\ forall out', process tbl e lines out' = POk (out' ++ t).
Proof. exact process_appends. Qed.
Print Assumptions C13_output_only_appended.
