(* C14 Zero-length domains are inert (emission model; the re-reading theorems of C01 then give:
   every strand still denotes flatB of its base list, which ignores zero-length members).
   The last clause of the property - no object the designer front-end or the finisher cannot process -
   follows at component level from the composed C06 development, which never excludes zero-length
   members: whatever the compiler accepts is accepted by the designer's loader, is seeded without
   error, gets the over-constraint report or arrays, and for every designed string that fits the arrays
   the records written let the finisher succeed (C14_designer_accepts, C14_finisher_accepts; the latter
   under the distinct-record-names hypothesis of C06). *)
From Coq Require Import List String Ascii.
From PC Require Import Base.Codes Comp.Syntax Comp.Compile Comp.Denote Comp.EmitProofs Comp.DummyProofs
  Design.Designer Design.Results Design.ResultsProofs Design.CrossProofs Design.EndToEnd Finish.Apply
  Base.Sexp Comp.WfPil Comp.NameProofs Sys.System Sys.SysWfPil Sys.SysNames Sys.SysDesign Design.EndToEndNames Sys.SysFixed.
Import ListNotations.

Theorem C14_flat_ignores_dummy : forall c l1 x l2, base_len (c_bases c) (fst x) = 0 ->
  flatB c (l1 ++ x :: l2) = flatB c (l1 ++ l2).
Proof. exact flatB_dummy. Qed.
Print Assumptions C14_flat_ignores_dummy.

Theorem C14_emitted_items_ignore_dummy : forall c l1 x l2, ref_dummy c x = true ->
  emit_items c (l1 ++ x :: l2) = emit_items c (l1 ++ l2).
Proof. exact emit_items_dummy. Qed.
Print Assumptions C14_emitted_items_ignore_dummy.

Theorem C14_emitted_items_nonempty : forall c l n star, In (n, star) (emit_items c l) ->
  exists x, In x l /\ ref_name c x = (n, star) /\ ref_len c x <> 0.
Proof. exact emit_items_nonempty. Qed.
Print Assumptions C14_emitted_items_nonempty.

Theorem C14_no_empty_lines : forall c l, In l (emit_comp c) ->
  match l with PSeq _ _ len => len <> 0 | PSup _ _ len => len <> 0 | _ => True end.
Proof. exact no_empty_lines. Qed.
Print Assumptions C14_no_empty_lines.

Theorem C14_dummy_denotes_nothing : forall c, WF c -> forall x, ref_ok c (c_sups c) x -> ref_dummy c x = true -> flat_ref c x = [].
Proof. exact dummy_denotes_nothing. Qed.
Print Assumptions C14_dummy_denotes_nothing.

(* the strands of the emitted document re-read to flatB of their base lists (C01), so by the
   first theorem inserting or deleting zero-length members changes no other nucleotide *)
Theorem C14_strands_reread : forall c, WF c ->
  pil_strands (emit_comp c) (final_env c) =
  map (fun '(n, t) => (c_prefix c +++ n, t_dummy t, Some (flatB c (s_base (t_sup t))), s_len (t_sup t))) (c_strands c).
Proof. exact emit_strands. Qed.
Print Assumptions C14_strands_reread.


(* whatever is compiled - zero-length members included - the designer front-end and the finisher process it *)
Theorem C14_designer_accepts : forall ctr prefix d body c ctr', compile_comp ctr prefix d body = OK (c, ctr') ->
  (forall n b, In (n, b) (c_bases c) -> valid_template (b_const b) = true) ->
  (exists p, load_spec (emit_comp c) pspec0 = OK p) /\
  (design_arrays (emit_comp c) false = DOver \/ exists e w s, design_arrays (emit_comp c) false = DOk e w s).
Proof. exact compiled_component_designs. Qed.
Print Assumptions C14_designer_accepts.

Theorem C14_finisher_accepts : forall ctr prefix d body c ctr',
  compile_comp ctr prefix d body = OK (c, ctr') ->
  (forall n b, In (n, b) (c_bases c) -> valid_template (b_const b) = true) ->
  exists p lay g, load_spec (emit_comp c) pspec0 = OK p /\ seed p false = OK (lay, g) /\
    (get_constraints p false = DOver \/
     exists e w s, get_constraints p false = DOk e w s /\
       forall nts, fits nts e w ->
         exists a recs, process_results p lay nts = OK a /\ output_records p a = OK recs /\
           (NoDup (map fst recs) -> exists f, apply_comp (table_of recs) c = OK f)).
Proof. exact compiled_component_end_to_end. Qed.
Print Assumptions C14_finisher_accepts.

(* the same for whole nested systems, designer front-end: what the compiler writes - zero-length members of ports,
   strands and super-sequences included - passes the well-formedness predicate, loads, and gets arrays or the report *)
Theorem C14_system_designer_accepts : forall fs includes ctr basename args lines ctr',
  compile_top fs includes ctr basename args [] = OK (lines, ctr') ->
  (forall o, load_file fs includes 12 ctr basename args "" "." = OK (o, ctr') -> names_ok 12 o) ->
  (forall n k len, In (PSeq n k len) lines -> valid_template k = true) ->
  wf_pil lines = true /\ (exists p, load_spec lines pspec0 = OK p) /\
  (design_arrays lines false = DOver \/ exists e w s, design_arrays lines false = DOk e w s).
Proof. exact compiled_system_designs. Qed.
Print Assumptions C14_system_designer_accepts.

(* the finisher clause without a hypothesis on the records (names without '*', as the grammar yields them) *)
Theorem C14_finisher_accepts_unconditional : forall ctr prefix d body c ctr',
  compile_comp ctr prefix d body = OK (c, ctr') -> (forall st, In st body -> stmt_nostar st) -> nostar prefix ->
  (forall n b, In (n, b) (c_bases c) -> valid_template (b_const b) = true) ->
  exists p lay g, load_spec (emit_comp c) pspec0 = OK p /\ seed p false = OK (lay, g) /\
    (get_constraints p false = DOver \/
     exists e w s, get_constraints p false = DOk e w s /\
       forall nts, fits nts e w ->
         exists a recs, process_results p lay nts = OK a /\ output_records p a = OK recs /\ exists f, apply_comp (table_of recs) c = OK f).
Proof. exact compiled_component_end_to_end_names. Qed.
Print Assumptions C14_finisher_accepts_unconditional.

(* whole nested systems, finisher: for every designed string that fits the arrays of a compiled system - zero-length members
   anywhere - finishing the whole system object against the records the designer writes succeeds (distinct record names) *)
Theorem C14_system_finisher_accepts : forall fs includes ctr basename args lines ctr',
  compile_top fs includes ctr basename args [] = OK (lines, ctr') ->
  (forall o, load_file fs includes 12 ctr basename args "" "." = OK (o, ctr') -> names_ok 12 o) ->
  (forall n k len, In (PSeq n k len) lines -> valid_template k = true) ->
  exists o p lay g, load_file fs includes 12 ctr basename args "" "." = OK (o, ctr') /\ load_spec lines pspec0 = OK p /\ seed p false = OK (lay, g) /\
    (get_constraints p false = DOver \/
     exists e w s, get_constraints p false = DOk e w s /\
       forall nts, fits nts e w ->
         exists a recs, process_results p lay nts = OK a /\ output_records p a = OK recs /\
           (NoDup (map fst recs) -> exists f, apply_obj 12 (table_of recs) o = OK f)).
Proof. exact compiled_system_end_to_end. Qed.
Print Assumptions C14_system_finisher_accepts.

Theorem C14_system_finisher_accepts_unconditional : forall fs includes ctr basename args lines ctr',
  compile_top fs includes ctr basename args [] = OK (lines, ctr') ->
  (forall o, load_file fs includes 12 ctr basename args "" "." = OK (o, ctr') -> names_ok2 12 o) ->
  (forall n k len, In (PSeq n k len) lines -> valid_template k = true) ->
  exists o p lay g, load_file fs includes 12 ctr basename args "" "." = OK (o, ctr') /\ load_spec lines pspec0 = OK p /\ seed p false = OK (lay, g) /\
    (get_constraints p false = DOver \/
     exists e w s, get_constraints p false = DOk e w s /\
       forall nts, fits nts e w ->
         exists a recs, process_results p lay nts = OK a /\ output_records p a = OK recs /\ exists f, apply_obj 12 (table_of recs) o = OK f).
Proof. exact compiled_system_end_to_end_names. Qed.
Print Assumptions C14_system_finisher_accepts_unconditional.

(* with a fixed-sequence file as well: zero-length members or not, the fixed system still loads and gets arrays *)
Theorem C14_fixed_system_designer_accepts : forall fs includes ctr basename args fixed lines ctr',
  compile_top fs includes ctr basename args fixed = OK (lines, ctr') ->
  (forall o, load_file fs includes 12 ctr basename args "" "." = OK (o, ctr') -> names_ok 12 o) ->
  (forall n k len, In (PSeq n k len) lines -> valid_template k = true) ->
  wf_pil lines = true /\ (exists p, load_spec lines pspec0 = OK p) /\
  (design_arrays lines false = DOver \/ exists e w s, design_arrays lines false = DOk e w s).
Proof. exact fixed_system_designs. Qed.
Print Assumptions C14_fixed_system_designer_accepts.
