(* C14 Zero-length domains are inert (emission model; the re-reading theorems of C01 then give:
   every strand still denotes flatB of its base list, which ignores zero-length members). *)
From Coq Require Import List String.
From PC Require Import Comp.Syntax Comp.Compile Comp.Denote Comp.EmitProofs Comp.DummyProofs.
Import ListNotations.

Theorem C14_flat_ignores_dummy : forall c l1 x l2, base_len (c_bases c) (fst x) = 0 ->
  flatB c (l1 ++ x :: l2) = flatB c (l1 ++ l2).
Proof. exact flatB_dummy. Qed.
Print Assumptions C14_flat_ignores_dummy.

Theorem C14_emitted_items_ignore_dummy : forall c l1 x l2, ref_dummy c x = true ->
  emit_items c (l1 ++ x :: l2) = emit_items c (l1 ++ l2).
Proof. exact emit_items_dummy. Qed.
Print Assumptions C14_emitted_items_ignore_dummy.

Theorem C14_emitted_items_nonempty : forall c l n star, In (n, star) (emit_items c l) ->
  exists x, In x l /\ ref_name c x = (n, star) /\ ref_len c x <> 0.
Proof. exact emit_items_nonempty. Qed.
Print Assumptions C14_emitted_items_nonempty.

Theorem C14_no_empty_lines : forall c l, In l (emit_comp c) ->
  match l with PSeq _ _ len => len <> 0 | PSup _ _ len => len <> 0 | _ => True end.
Proof. exact no_empty_lines. Qed.
Print Assumptions C14_no_empty_lines.

Theorem C14_dummy_denotes_nothing : forall c, WF c -> forall x, ref_ok c (c_sups c) x -> ref_dummy c x = true -> flat_ref c x = [].
Proof. exact dummy_denotes_nothing. Qed.
Print Assumptions C14_dummy_denotes_nothing.

(* the strands of the emitted document re-read to flatB of their base lists (C01), so by the
   first theorem inserting or deleting zero-length members changes no other nucleotide *)
Theorem C14_strands_reread : forall c, WF c ->
  pil_strands (emit_comp c) (final_env c) =
  map (fun '(n, t) => (c_prefix c +++ n, t_dummy t, Some (flatB c (s_base (t_sup t))), s_len (t_sup t))) (c_strands c).
Proof. exact emit_strands. Qed.
Print Assumptions C14_strands_reread.
