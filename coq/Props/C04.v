(* C04 Designer constraint arrays are the exact closure of the specification.
   Proved for the designer model, at the level of the link graph Convert.get_constraints seeds
   (strand positions plus the auxiliary (num, x) nodes), for every document whose seeded graph
   passes the boolean check graph_ok (evaluated for every generated case by the extracted model):
   the closure step is exact and never asserts; each representative is the lowest position of its
   class; two positions share an equality representative iff they are forced equal; the complement
   representative is the equality representative of the complementary class (none iff there is
   none); every position's base code denotes exactly the intersection of the templates of its
   equality class with the complements of the templates of its complementary class
   (C04_template_clause); the strand layout obeys its formula.
   The auxiliary nodes are faithful (C04_seeded_graph_denotes, both layouts): two declared nodes -
   in particular two strand positions, or two positions of structures - are connected in the seeded graph, with a parity, exactly
   when their canonical nucleotides (kap: the flattening of strands and super-sequences down to
   offsets of the declared sequences, with orientation) are connected with the corresponding parity
   by the document's equal statements and target base pairs alone.  Its hypotheses same_graph / spec_okb / dgraph_ok are
   booleans the extracted model evaluates for every generated case.
   For the default strand-oriented layout the three booleans are themselves proved of every document
   the loader accepts (theorems C04_loaded_...): load_spec establishes well-formedness (LoadProofs), seed builds
   exactly the declarative graph (SeedProofs, phase by phase), the layout formula makes the node
   encoding strictly increasing and every link join declared nodes (LayoutProofs); so
   C04_loaded_graph_denotes has no hypothesis beyond `the document loads and seeds`.
   The same holds in the structure-oriented layout (theorems C04_struct_...): the layout is characterised in closed form
   (StructLayout), seed builds exactly the declarative graph including the links between the occurrences of a
   strand (StructSeed), and a successful seed shows that every strand with nucleotides occurs in a structure.
   The denotation-level oracle of the correspondence check decides the same statement independently. *)
From Coq Require Import List String Ascii Arith.
From PC Require Import Base.Codes Comp.Syntax Comp.Compile Design.Propagate Design.PropagateProofs Design.Designer Design.DesignerProofs Design.TemplateProofs
  Design.Contraction Design.DGraph Design.DenoteGraph Design.DenoteTie Design.DenoteSat Design.LoadProofs Design.SeedProofs Design.LayoutProofs Design.Loaded Design.BlankProofs Design.StructLayout Design.StructSeed Design.StructTotal Design.LoadedStruct Design.StructBlank.
Import ListNotations.

Theorem C04_closure_exact_partial : forall g, graph_closed g = true ->
  exists m, propagate (adj (g_eq g)) (adj (g_wc g)) (g_keys g) = OOk m /\
  forall x, In x (g_keys g) -> exists E W, get m x = Some (E, W) /\
    (forall z, In z E <-> gconn g x false z) /\ (forall z, In z W <-> gconn g x true z).
Proof. exact closure_exact. Qed.
Print Assumptions C04_closure_exact_partial.

Definition exact_table (g : cgraph) (m : tbl) : Prop :=
  forall x, In x (g_keys g) -> exists E W, get m x = Some (E, W) /\
    (forall z, In z E <-> gconn g x false z) /\ (forall z, In z W <-> gconn g x true z).

Theorem C04_eq_rep_least : forall g npos m, exact_table g m -> forall i r, In i (g_keys g) ->
  (eq_rep npos m i = Some r <-> (gconn g i false r /\ r < npos /\ forall z, gconn g i false z -> z < npos -> r <= z)).
Proof. exact eq_rep_least. Qed.
Print Assumptions C04_eq_rep_least.

Theorem C04_wc_rep_least : forall g npos m, exact_table g m -> forall i r, In i (g_keys g) ->
  (wc_rep npos m i = Some r <-> (gconn g i true r /\ r < npos /\ forall z, gconn g i true z -> z < npos -> r <= z)).
Proof. exact wc_rep_least. Qed.
Print Assumptions C04_wc_rep_least.

Theorem C04_wc_rep_none : forall g npos m, exact_table g m -> forall i, In i (g_keys g) ->
  (wc_rep npos m i = None <-> forall z, gconn g i true z -> npos <= z).
Proof. exact wc_rep_none. Qed.
Print Assumptions C04_wc_rep_none.

Theorem C04_same_rep_iff_connected : forall g npos m, exact_table g m -> forall p q,
  In p (g_keys g) -> In q (g_keys g) -> p < npos -> q < npos ->
  (eq_rep npos m p = eq_rep npos m q <-> gconn g p false q).
Proof. exact same_rep_iff_connected. Qed.
Print Assumptions C04_same_rep_iff_connected.

Theorem C04_wc_rep_is_eq_rep_of_partner : forall g npos m, exact_table g m -> forall p q,
  In p (g_keys g) -> In q (g_keys g) -> gconn g p true q -> wc_rep npos m p = eq_rep npos m q.
Proof. exact wc_rep_is_eq_rep_of_partner. Qed.
Print Assumptions C04_wc_rep_is_eq_rep_of_partner.

(* strand-oriented layout: the k-th strand starts at the sum of (length + 2) of the strands before it *)
Theorem C04_strand_layout : forall ss acc pre n its l d post, ss = pre ++ (n, (its, l, d)) :: post ->
  ~ In n (map fst pre) ->
  afind (strand_starts ss acc) n = Some (acc + fold_left (fun a '(_, (_, l', _)) => a + l' + 2) pre 0).
Proof. exact strand_starts_spec. Qed.
Print Assumptions C04_strand_layout.

(* the template array: every initialised position carries exactly the class intersection, every
   other slot is blank *)
Theorem C04_template_clause : forall p so lay g, seed p so = OK (lay, g) -> graph_ok g = true ->
  forall e w s, get_constraints p so = DOk e w s -> forall i, i < List.length s ->
  (In i (g_keys g) -> exists c S, nth_error s i = Some (Some c) /\ group c = Some S /\ bempty S = false /\
                                  forall b, bmem b S = true <-> gclass g i b) /\
  (~ In i (g_keys g) -> nth_error s i = Some None).
Proof. exact template_clause. Qed.
Print Assumptions C04_template_clause.

(* once the graph is seeded, constraint generation either returns arrays or reports over-constraint *)
Theorem C04_seeded_total : forall p so lay g, seed p so = OK (lay, g) -> graph_ok g = true ->
  get_constraints p so = DOver \/ exists e w s, get_constraints p so = DOk e w s.
Proof. exact seeded_total. Qed.
Print Assumptions C04_seeded_total.

(* the auxiliary nodes are faithful, in either layout (so = structure-oriented): connectivity in the
   seeded graph is connectivity of canonical nucleotides under the document's equal statements and
   base pairs (Rc_links) *)
Theorem C04_seeded_graph_denotes : forall (p : pspec) (lay : layout) (so : bool) (g : cgraph),
  spec_okb p so = true -> dgraph_ok p lay so = true -> same_graph p lay so g = true ->
  forall x q y, In x (nodes p so) -> In y (nodes p so) ->
  (gconn g (enc p lay x) q (enc p lay y) <->
   pconn dnode (Rc_links p so) (fst (kap p so x)) (xorb q (xorb (snd (kap p so x)) (snd (kap p so y)))) (fst (kap p so y))).
Proof. exact seeded_graph_denotes. Qed.
Print Assumptions C04_seeded_graph_denotes.

(* nothing outside the declared nodes is ever connected to a declared node *)
Theorem C04_connected_nodes_declared : forall (p : pspec) (lay : layout) (so : bool) (g : cgraph),
  dgraph_ok p lay so = true -> same_graph p lay so g = true ->
  forall x q n, In x (nodes p so) -> gconn g (enc p lay x) q n -> exists y, In y (nodes p so) /\ n = enc p lay y.
Proof. exact gconn_declared. Qed.
Print Assumptions C04_connected_nodes_declared.

(* graph contraction, for any canonicalisation whose structural links preserve the canonical node *)
Theorem C04_contraction : forall (node : Type) (canon : node -> node * bool) (S R : list (link node)),
  (forall x, pconn node S x (snd (canon x)) (fst (canon x))) ->
  (forall x y q, In (x, y, q) S -> fst (canon x) = fst (canon y) /\ snd (canon x) = xorb (snd (canon y)) q) ->
  forall x p y, pconn node (S ++ R) x p y <->
    pconn node (Rc node canon R) (fst (canon x)) (xorb p (xorb (snd (canon x)) (snd (canon y)))) (fst (canon y)).
Proof. exact contraction. Qed.
Print Assumptions C04_contraction.

(* the hypotheses hold, in both layouts, of a concrete document with a super-sequence, a reversed item,
   an equal statement, a duplex and a structure in which a strand occurs twice *)
Theorem C04_denotation_nonvacuous : forall so, exists lay g, seed demo_spec so = OK (lay, g) /\ graph_ok g = true /\
  spec_okb demo_spec so = true /\ dgraph_ok demo_spec lay so = true /\ same_graph demo_spec lay so g = true /\
  exists e w s, get_constraints demo_spec so = DOk e w s.
Proof. exact demo_hypotheses. Qed.
Print Assumptions C04_denotation_nonvacuous.

(* strand layout, no per-case hypothesis: every loaded and seeded document *)
Theorem C04_loaded_graph_denotes : forall (ls : list pline) (p : pspec) (lay : layout) (g : cgraph),
  load_spec ls pspec0 = OK p -> seed p false = OK (lay, g) ->
  forall x q y, In x (nodes p false) -> In y (nodes p false) ->
  (gconn g (enc p lay x) q (enc p lay y) <->
   pconn dnode (Rc_links p false) (fst (kap p false x)) (xorb q (xorb (snd (kap p false x)) (snd (kap p false y)))) (fst (kap p false y))).
Proof. exact loaded_graph_denotes. Qed.
Print Assumptions C04_loaded_graph_denotes.

Theorem C04_loaded_hypotheses : forall (ls : list pline) (p : pspec) (lay : layout) (g : cgraph),
  load_spec ls pspec0 = OK p -> seed p false = OK (lay, g) ->
  lay = build_layout p false /\ spec_wf p false /\ same_graph p lay false g = true /\ dgraph_ok p lay false = true /\
  place_okb p lay false = true /\ graph_ok g = true.
Proof. intros ls p lay g L S. exact (conj (loaded_layout p lay g S) (conj (loaded_wf ls p L) (conj (loaded_same p lay g S)
  (conj (loaded_dgraph ls p lay g L S) (conj (loaded_place ls p lay g L S) (loaded_graph_ok ls p lay g L S)))))). Qed.
Print Assumptions C04_loaded_hypotheses.

(* the graph seed returns is the declarative graph, phase by phase *)
Theorem C04_seed_is_declarative : forall (p : pspec) (lay : layout) (g : cgraph), seed p false = OK (lay, g) ->
  lay = build_layout p false /\
  g_st g = map (fun nc => (enc p (build_layout p false) (fst nc), snd nc)) (d_nodes p false) /\
  g_eq g = enc_links p (build_layout p false) (d_eq p false) /\ g_wc g = enc_links p (build_layout p false) (d_wc p false) /\
  g_keys g = map fst (g_st g).
Proof. exact seed_graph. Qed.
Print Assumptions C04_seed_is_declarative.

(* strand layout: the nucleotides sit exactly where the layout formula says; everything else is blank *)
Theorem C04_blank_iff_off_strand : forall ls p lay g, load_spec ls pspec0 = OK p -> seed p false = OK (lay, g) ->
  forall e w s, get_constraints p false = DOk e w s -> forall i, i < List.length s ->
  (nth_error s i = Some None <-> ~ in_strand p lay i).
Proof. exact blank_iff_off_strand. Qed.
Print Assumptions C04_blank_iff_off_strand.

(* every strand starts where the layout formula says and is followed by exactly two blanks *)
Theorem C04_two_blanks_after_strand : forall ls p lay g, load_spec ls pspec0 = OK p -> seed p false = OK (lay, g) ->
  forall e w s, get_constraints p false = DOk e w s ->
  forall pre n its l d post x, p_strands p = pre ++ (n, (its, l, d)) :: post ->
  (x = width pre + l \/ x = width pre + l + 1) -> x < List.length s ->
  tstart_of lay n = width pre /\ nth_error s x = Some None /\
  (forall n' its' l' d' post', post = (n', (its', l', d')) :: post' -> tstart_of lay n' = width pre + l + 2).
Proof. exact two_blanks_after_strand. Qed.
Print Assumptions C04_two_blanks_after_strand.

(* structure-oriented layout, no per-case hypothesis: every loaded and seeded document *)
Theorem C04_struct_loaded_graph_denotes : forall (ls : list pline) (p : pspec) (lay : layout) (g : cgraph),
  load_spec ls pspec0 = OK p -> seed p true = OK (lay, g) ->
  forall x q y, In x (nodes p true) -> In y (nodes p true) ->
  (gconn g (enc p lay x) q (enc p lay y) <->
   pconn dnode (Rc_links p true) (fst (kap p true x)) (xorb q (xorb (snd (kap p true x)) (snd (kap p true y)))) (fst (kap p true y))).
Proof. exact sloaded_graph_denotes. Qed.
Print Assumptions C04_struct_loaded_graph_denotes.

Theorem C04_struct_loaded_hypotheses : forall (ls : list pline) (p : pspec) (lay : layout) (g : cgraph),
  load_spec ls pspec0 = OK p -> seed p true = OK (lay, g) ->
  lay = build_layout p true /\ spec_wf p true /\ same_graph p lay true g = true /\ dgraph_ok p lay true = true /\
  place_okb p lay true = true /\ graph_ok g = true.
Proof. intros ls p lay g L S. exact (conj (sloaded_layout ls p lay g L S) (conj (sloaded_wf ls p lay g L S) (conj (sloaded_same ls p lay g L S)
  (conj (sloaded_dgraph ls p lay g L S) (conj (sloaded_place ls p lay g L S) (sloaded_graph_ok ls p lay g L S)))))). Qed.
Print Assumptions C04_struct_loaded_hypotheses.

(* the graph seed returns in the structure layout is the declarative graph, phase by phase; a successful seed
   means every strand with nucleotides occurs in a structure *)
Theorem C04_struct_seed_is_declarative : forall (p : pspec), LI p -> forall (lay : layout) (g : cgraph), seed p true = OK (lay, g) ->
  lay = build_layout p true /\
  g_st g = map (fun nc => (enc p (build_layout p true) (fst nc), snd nc)) (d_nodes p true) /\
  g_eq g = enc_links p (build_layout p true) (d_eq p true) /\ g_wc g = enc_links p (build_layout p true) (d_wc p true) /\
  g_keys g = map fst (g_st g) /\ placed p.
Proof. exact seed_graph_struct. Qed.
Print Assumptions C04_struct_seed_is_declarative.

(* structure layout: the nucleotides sit exactly at the positions of the structures; everything else is blank *)
Theorem C04_struct_blank_iff_off_struct : forall ls p lay g, load_spec ls pspec0 = OK p -> seed p true = OK (lay, g) ->
  forall e w s, get_constraints p true = DOk e w s -> forall i, i < List.length s ->
  (nth_error s i = Some None <-> ~ in_struct p lay i).
Proof. exact blank_iff_off_struct. Qed.
Print Assumptions C04_struct_blank_iff_off_struct.

(* every strand of a structure sits where the layout says, is followed by one blank, the structure by one more,
   and the next structure starts right behind it: strands are at least one blank, complexes at least two blanks apart *)
Theorem C04_struct_blanks : forall ls p lay g, load_spec ls pspec0 = OK p -> seed p true = OK (lay, g) ->
  forall before sn names sy len after pre n post,
  p_structs p = before ++ (sn, (names, sy, len)) :: after -> names = pre ++ n :: post ->
  (forall o, o < strand_len p n -> enc p lay (DInst sn (total p pre + o)) = sswidth p before + swidth p pre + o) /\
  ~ in_struct p lay (sswidth p before + swidth p pre + strand_len p n) /\
  ~ in_struct p lay (sswidth p before + swidth p names) /\
  (forall sn' names' sy' len' after', after = (sn', (names', sy', len')) :: after' ->
     afind (l_sstart lay) sn' = Some (sswidth p before + swidth p names + 1)).
Proof. exact blanks_in_struct. Qed.
Print Assumptions C04_struct_blanks.

Theorem C04_struct_separators : forall ls p lay g, load_spec ls pspec0 = OK p -> seed p true = OK (lay, g) ->
  forall e w s, get_constraints p true = DOk e w s ->
  forall before sn names sy len after pre n post x,
  p_structs p = before ++ (sn, (names, sy, len)) :: after -> names = pre ++ n :: post ->
  (x = sswidth p before + swidth p pre + strand_len p n \/ x = sswidth p before + swidth p names) -> x < List.length s ->
  nth_error s x = Some None.
Proof. exact struct_separators. Qed.
Print Assumptions C04_struct_separators.
