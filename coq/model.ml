
type sexp =
| At of char list
| Li of sexp list

(** val bad_request : sexp **)

let bad_request =
  Li ((At
    ('B'::('a'::('d'::('R'::('e'::('q'::('u'::('e'::('s'::('t'::[]))))))))))) :: [])

(** val run : sexp -> sexp **)

let run = function
| At _ -> bad_request
| Li l ->
  (match l with
   | [] -> bad_request
   | s :: l0 ->
     (match s with
      | At s0 ->
        (match s0 with
         | [] -> bad_request
         | a::s1 ->
           (* If this appears, you're using Ascii internals. Please don't *)
 (fun f c ->
  let n = Char.code c in
  let h i = (n land (1 lsl i)) <> 0 in
  f (h 0) (h 1) (h 2) (h 3) (h 4) (h 5) (h 6) (h 7))
             (fun b b0 b1 b2 b3 b4 b5 b6 ->
             if b
             then if b0
                  then bad_request
                  else if b1
                       then if b2
                            then bad_request
                            else if b3
                                 then bad_request
                                 else if b4
                                      then if b5
                                           then if b6
                                                then bad_request
                                                else (match s1 with
                                                      | [] -> bad_request
                                                      | a0::s2 ->
                                                        (* If this appears, you're using Ascii internals. Please don't *)
 (fun f c ->
  let n = Char.code c in
  let h i = (n land (1 lsl i)) <> 0 in
  f (h 0) (h 1) (h 2) (h 3) (h 4) (h 5) (h 6) (h 7))
                                                          (fun b7 b8 b9 b10 b11 b12 b13 b14 ->
                                                          if b7
                                                          then if b8
                                                               then if b9
                                                                    then 
                                                                    bad_request
                                                                    else 
                                                                    if b10
                                                                    then 
                                                                    bad_request
                                                                    else 
                                                                    if b11
                                                                    then 
                                                                    bad_request
                                                                    else 
                                                                    if b12
                                                                    then 
                                                                    if b13
                                                                    then 
                                                                    if b14
                                                                    then 
                                                                    bad_request
                                                                    else 
                                                                    (match s2 with
                                                                    | [] ->
                                                                    bad_request
                                                                    | a1::s3 ->
                                                                    (* If this appears, you're using Ascii internals. Please don't *)
 (fun f c ->
  let n = Char.code c in
  let h i = (n land (1 lsl i)) <> 0 in
  f (h 0) (h 1) (h 2) (h 3) (h 4) (h 5) (h 6) (h 7))
                                                                    (fun b15 b16 b17 b18 b19 b20 b21 b22 ->
                                                                    if b15
                                                                    then 
                                                                    bad_request
                                                                    else 
                                                                    if b16
                                                                    then 
                                                                    bad_request
                                                                    else 
                                                                    if b17
                                                                    then 
                                                                    bad_request
                                                                    else 
                                                                    if b18
                                                                    then 
                                                                    if b19
                                                                    then 
                                                                    bad_request
                                                                    else 
                                                                    if b20
                                                                    then 
                                                                    if b21
                                                                    then 
                                                                    if b22
                                                                    then 
                                                                    bad_request
                                                                    else 
                                                                    (match s3 with
                                                                    | [] ->
                                                                    bad_request
                                                                    | a2::s4 ->
                                                                    (* If this appears, you're using Ascii internals. Please don't *)
 (fun f c ->
  let n = Char.code c in
  let h i = (n land (1 lsl i)) <> 0 in
  f (h 0) (h 1) (h 2) (h 3) (h 4) (h 5) (h 6) (h 7))
                                                                    (fun b23 b24 b25 b26 b27 b28 b29 b30 ->
                                                                    if b23
                                                                    then 
                                                                    if b24
                                                                    then 
                                                                    if b25
                                                                    then 
                                                                    if b26
                                                                    then 
                                                                    if b27
                                                                    then 
                                                                    bad_request
                                                                    else 
                                                                    if b28
                                                                    then 
                                                                    if b29
                                                                    then 
                                                                    if b30
                                                                    then 
                                                                    bad_request
                                                                    else 
                                                                    (match s4 with
                                                                    | [] ->
                                                                    (match l0 with
                                                                    | [] ->
                                                                    bad_request
                                                                    | x :: l1 ->
                                                                    (match l1 with
                                                                    | [] -> x
                                                                    | _ :: _ ->
                                                                    bad_request))
                                                                    | _::_ ->
                                                                    bad_request)
                                                                    else 
                                                                    bad_request
                                                                    else 
                                                                    bad_request
                                                                    else 
                                                                    bad_request
                                                                    else 
                                                                    bad_request
                                                                    else 
                                                                    bad_request
                                                                    else 
                                                                    bad_request)
                                                                    a2)
                                                                    else 
                                                                    bad_request
                                                                    else 
                                                                    bad_request
                                                                    else 
                                                                    bad_request)
                                                                    a1)
                                                                    else 
                                                                    bad_request
                                                                    else 
                                                                    bad_request
                                                               else bad_request
                                                          else bad_request)
                                                          a0)
                                           else bad_request
                                      else bad_request
                       else bad_request
             else bad_request)
             a)
      | Li _ -> bad_request))
