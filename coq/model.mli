
type sexp =
| At of char list
| Li of sexp list

val bad_request : sexp

val run : sexp -> sexp
