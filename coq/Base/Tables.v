(* C11: theorems about the code tables REGENERATED from the source (TablesGen.v)
   and about the hand-written code algebra (Codes.v) the other models use. *)
From Coq Require Import List String Ascii Bool Arith Lia.
From PC Require Import Base.Sexp Base.Codes Base.TablesGen.
Import ListNotations.

(* ---- all 256 characters, so that "for every character" is a finite sweep ---- *)
Definition all_ascii : list ascii := map ascii_of_nat (seq 0 256).
Lemma all_ascii_complete c : In c all_ascii.
Proof.
  unfold all_ascii. rewrite <- (ascii_nat_embedding c). apply in_map, in_seq.
  pose proof (nat_ascii_bounded c). lia.
Qed.
Lemma ascii_forall (P : ascii -> bool) : forallb P all_ascii = true -> forall c, P c = true.
Proof. intros H c. rewrite forallb_forall in H. apply H, all_ascii_complete. Qed.
Lemma ascii_forall2 (P : ascii -> ascii -> bool) :
  forallb (fun a => forallb (P a) all_ascii) all_ascii = true -> forall a b, P a b = true.
Proof. intros H a b. apply (ascii_forall (P a)). apply (ascii_forall (fun a => forallb (P a) all_ascii) H). Qed.

Fixpoint lookup {V} (t : list (ascii * V)) (c : ascii) : option V :=
  match t with [] => None | (k, v) :: r => if Ascii.eqb k c then Some v else lookup r c end.
Definition keys {V} (t : list (ascii * V)) : list ascii := map fst t.
Definition mem_char (c : ascii) (s : string) : bool := existsb (Ascii.eqb c) (chars s).

(* the canonical (sorted, duplicate-free) spelling of a base set, as Python stores it *)
Definition canon (g : bset) : string := unchars (map base_char (bset_list g)).
Definition opt_str_eqb (x y : option string) : bool :=
  match x, y with Some a, Some b => String.eqb a b | None, None => true | _, _ => false end.
Definition opt_chr_eqb (x y : option ascii) : bool :=
  match x, y with Some a, Some b => Ascii.eqb a b | None, None => true | _, _ => false end.
Lemma opt_str_eqb_eq x y : opt_str_eqb x y = true -> x = y.
Proof. destruct x, y; simpl; intros H; try discriminate; auto. apply String.eqb_eq in H. congruence. Qed.
Lemma opt_chr_eqb_eq x y : opt_chr_eqb x y = true -> x = y.
Proof. destruct x, y; simpl; intros H; try discriminate; auto. apply Ascii.eqb_eq in H. congruence. Qed.

(* ---------- copies agree (generated tables vs the model) ---------- *)
Definition group_copy_ok (t : list (ascii * string)) : Prop :=
  forall c, lookup t c = option_map canon (group c).
Definition compl_copy_ok (t : list (ascii * string)) : Prop :=
  forall c, lookup t c = option_map (fun c' => String c' EmptyString) (compl_code c).

Ltac sweep1 := let c := fresh "c" in intros c; apply opt_str_eqb_eq; revert c; apply ascii_forall; vm_compute; reflexivity.

Lemma group_dna_ok : group_copy_ok py_group_dna.       Proof. unfold group_copy_ok. sweep1. Qed.
Lemma group_pil_ok : group_copy_ok py_group_pil.       Proof. unfold group_copy_ok. sweep1. Qed.
Lemma group_nupack_ok : group_copy_ok py_group_nupack. Proof. unfold group_copy_ok. sweep1. Qed.
Lemma compl_dna_ok : compl_copy_ok py_compl_dna.       Proof. unfold compl_copy_ok. sweep1. Qed.
Lemma compl_pil_ok : compl_copy_ok py_compl_pil.       Proof. unfold compl_copy_ok. sweep1. Qed.
Lemma compl_nupack_ok : compl_copy_ok py_compl_nupack. Proof. unfold compl_copy_ok. sweep1. Qed.
Lemma randbase_ok : group_copy_ok c_randbase.          Proof. unfold group_copy_ok. sweep1. Qed.

(* C's WC(): the complement on every code, the default (blank) on everything else *)
Definition c_WC (c : ascii) : ascii := match lookup c_wc c with Some x => x | None => c_wc_default end.
Lemma c_wc_ok : forall c, c_WC c = match compl_code c with Some x => x | None => " "%char end.
Proof.
  intros c. apply Ascii.eqb_eq. revert c. apply ascii_forall. vm_compute. reflexivity.
Qed.

(* C's degenerates string lists exactly the (template code, base) pairs of the model *)
Definition in_degenerates (t b : ascii) : bool :=
  existsb (fun p => Ascii.eqb (fst p) t && Ascii.eqb (snd p) b) c_degenerates.
Definition model_compatible (t b : ascii) : bool :=
  match group t, char_base b with Some g, Some bb => bmem bb g | _, _ => false end.
Lemma degenerates_ok : forall t b, in_degenerates t b = model_compatible t b.
Proof.
  intros t b. apply Bool.eqb_prop. revert t b. apply ascii_forall2. vm_compute. reflexivity.
Qed.

(* every code is in every alphabet that consumes templates / intersection results *)
Definition accepted_everywhere (c : ascii) : bool :=
  mem_char c c_template_alphabet && mem_char c mfe_alphabet &&
  match lookup py_group_nupack c with Some _ => true | None => false end.
Lemma codes_accepted : forall c, match group c with Some _ => accepted_everywhere c | None => true end = true.
Proof. apply ascii_forall. vm_compute. reflexivity. Qed.
(* the designer's plain-sequence alphabet and the fixed-file alphabet hold only codes *)
Lemma fixed_alphabet_codes : forall c, (if mem_char c fixed_alphabet then
      match group c with Some _ => true | None => Ascii.eqb c "+" end else true) = true.
Proof. apply ascii_forall. vm_compute. reflexivity. Qed.

Theorem copies_agree :
  group_copy_ok py_group_dna /\ group_copy_ok py_group_pil /\ group_copy_ok py_group_nupack /\
  compl_copy_ok py_compl_dna /\ compl_copy_ok py_compl_pil /\ compl_copy_ok py_compl_nupack /\
  group_copy_ok c_randbase /\
  (forall c, c_WC c = match compl_code c with Some x => x | None => " "%char end) /\
  (forall t b, in_degenerates t b = model_compatible t b).
Proof.
  repeat split; [apply group_dna_ok | apply group_pil_ok | apply group_nupack_ok | apply compl_dna_ok
    | apply compl_pil_ok | apply compl_nupack_ok | apply randbase_ok | apply c_wc_ok | apply degenerates_ok].
Qed.

(* ---------- the algebra ---------- *)
Lemma compl_sound : forall c g, group c = Some g ->
  exists c', compl_code c = Some c' /\ group c' = Some (bset_compl g).
Proof.
  assert (H : forall c, match group c with
              | Some g => match compl_code c with
                          | Some c' => match group c' with Some g' => bset_eqb g' (bset_compl g) | None => false end
                          | None => false end
              | None => true end = true) by (apply ascii_forall; vm_compute; reflexivity).
  intros c g Hg. specialize (H c). rewrite Hg in H.
  destruct (compl_code c) as [c'|]; [|discriminate]. exists c'. split; [reflexivity|].
  destruct (group c') as [g'|]; [|discriminate].
  f_equal. destruct g', g; unfold bset_eqb, bset_compl in *; simpl in *.
  repeat (apply andb_prop in H; destruct H as [H ?]).
  repeat match goal with E : Bool.eqb _ _ = true |- _ => apply eqb_prop in E end. subst. reflexivity.
Qed.

Lemma bset_compl_members : forall g b, bmem (bcompl b) (bset_compl g) = bmem b g.
Proof. intros [a c g t] []; reflexivity. Qed.

Lemma compl_involutive : forall c c', compl_code c = Some c' -> compl_code c' = Some c.
Proof.
  assert (H : forall c, match compl_code c with
              | Some c' => opt_chr_eqb (compl_code c') (Some c) | None => true end = true)
    by (apply ascii_forall; vm_compute; reflexivity).
  intros c c' Hc. specialize (H c). rewrite Hc in H. apply opt_chr_eqb_eq, H.
Qed.

Lemma map_compl_app : forall l1 l2 r1 r2, map_compl l1 = Some r1 -> map_compl l2 = Some r2 ->
  map_compl (l1 ++ l2) = Some (r1 ++ r2).
Proof.
  induction l1 as [|c l1 IH]; intros l2 r1 r2 H1 H2; simpl in *.
  - inversion H1; subst. exact H2.
  - destruct (compl_code c) as [c'|]; [|discriminate].
    destruct (map_compl l1) as [r|] eqn:E; [|discriminate]. inversion H1; subst.
    rewrite (IH l2 r r2 eq_refl H2). reflexivity.
Qed.

Lemma map_compl_rev : forall l r, map_compl l = Some r -> map_compl (rev l) = Some (rev r).
Proof.
  induction l as [|c l IH]; intros r H; simpl in *.
  - inversion H; reflexivity.
  - destruct (compl_code c) as [c'|] eqn:Ec; [|discriminate].
    destruct (map_compl l) as [r0|] eqn:E; [|discriminate]. inversion H; subst. simpl.
    apply map_compl_app; [apply IH; reflexivity | simpl; rewrite Ec; reflexivity].
Qed.

Lemma map_compl_invol : forall l r, map_compl l = Some r -> map_compl r = Some l.
Proof.
  induction l as [|c l IH]; intros r H; simpl in *.
  - inversion H; reflexivity.
  - destruct (compl_code c) as [c'|] eqn:Ec; [|discriminate].
    destruct (map_compl l) as [r0|] eqn:E; [|discriminate]. inversion H; subst. simpl.
    rewrite (compl_involutive _ _ Ec), (IH r0 eq_refl). reflexivity.
Qed.

(* reverse-complementing any string of codes twice returns it: all strings, by induction *)
Theorem wc_involutive : forall l l', wc_codes l = Some l' -> wc_codes l' = Some l.
Proof.
  unfold wc_codes. intros l l' H.
  pose proof (map_compl_invol _ _ H) as H1. apply map_compl_rev in H1.
  rewrite rev_involutive in H1. exact H1.
Qed.
Lemma wc_total : forall l, (forall c, In c l -> group c <> None) -> exists l', wc_codes l = Some l'.
Proof.
  unfold wc_codes. intros l H. assert (H' : forall c, In c (rev l) -> group c <> None)
    by (intros c Hc; apply H, in_rev, Hc). clear H. induction (rev l) as [|c r IH]; simpl; eauto.
  destruct (group c) as [g|] eqn:Eg; [|exfalso; apply (H' c); [left; reflexivity | exact Eg]].
  destruct (compl_sound c g Eg) as [c' [Hc' _]]. rewrite Hc'.
  destruct IH as [r' Hr]; [intros x Hx; apply H'; right; exact Hx|]. rewrite Hr. eauto.
Qed.

Theorem inter_closed : forall a b ga gb, group a = Some ga -> group b = Some gb ->
  bempty (binter ga gb) = false ->
  exists c, code_inter a b = IOk c /\ group c = Some (binter ga gb) /\ accepted_everywhere c = true.
Proof.
  assert (H : forall a b, match group a, group b with
      | Some ga, Some gb => if bempty (binter ga gb) then true else
          match code_inter a b with
          | IOk c => match group c with Some g => bset_eqb g (binter ga gb) | None => false end && accepted_everywhere c
          | _ => false end
      | _, _ => true end = true) by (apply ascii_forall2; vm_compute; reflexivity).
  intros a b ga gb Ha Hb Hne. specialize (H a b). rewrite Ha, Hb, Hne in H.
  destruct (code_inter a b) as [c| |]; try discriminate. exists c. split; [reflexivity|].
  apply andb_prop in H. destruct H as [H1 H2]. split; [|exact H2].
  destruct (group c) as [g|]; [|discriminate]. f_equal.
  destruct g, ga, gb; unfold bset_eqb, binter in *; simpl in *.
  repeat (apply andb_prop in H1; destruct H1 as [H1 ?]).
  repeat match goal with E : Bool.eqb _ _ = true |- _ => apply eqb_prop in E end. subst. reflexivity.
Qed.

(* non-vacuity: D and V share A and G; their intersection is the code R *)
Example inter_DV : code_inter "D" "V" = IOk "R"%char. Proof. reflexivity. Qed.
Example wc_example : wc_codes (chars "ARN") = Some (chars "NYT"). Proof. reflexivity. Qed.
