(* S-expressions: the only data format crossing the model/driver boundary.
   The OCaml driver is a generic reader/printer for this type; every decoder
   and encoder for model inputs/outputs is written in Gallina below or in the
   per-property Run files, so it is extracted, not hand-written OCaml. *)
From Coq Require Import List String Ascii ZArith NArith Bool.
Import ListNotations.
Local Open Scope string_scope.

Inductive sexp := At (s : string) | Li (l : list sexp).

(* ---- decimal numbers ---- *)
Definition digit_of (c : ascii) : option Z :=
  let n := Z.of_N (N_of_ascii c) in
  if (48 <=? n)%Z && (n <=? 57)%Z then Some (n - 48)%Z else None.

Fixpoint nat_digits (s : string) (acc : Z) : option Z :=
  match s with
  | EmptyString => Some acc
  | String c s' => match digit_of c with
                   | Some d => nat_digits s' (acc * 10 + d)%Z
                   | None => None
                   end
  end.

Definition Z_of_str (s : string) : option Z :=
  match s with
  | EmptyString => None
  | String "-"%char s' => match s' with EmptyString => None | _ => option_map Z.opp (nat_digits s' 0%Z) end
  | _ => nat_digits s 0%Z
  end.

Definition digit_char (d : Z) : ascii := ascii_of_N (Z.to_N (48 + d)).

(* positive -> decimal digits, by fuel = number of binary digits (always enough) *)
Fixpoint pos_digits (fuel : nat) (n : Z) (acc : string) : string :=
  match fuel with
  | O => acc
  | S f => if (n <? 10)%Z then String (digit_char n) acc
           else pos_digits f (n / 10)%Z (String (digit_char (n mod 10)) acc)
  end.

Definition str_of_Z (z : Z) : string :=
  match z with
  | Z0 => "0"
  | Zpos p => pos_digits (S (Pos.size_nat p)) z ""
  | Zneg p => String "-"%char (pos_digits (S (Pos.size_nat p)) (Zpos p) "")
  end.

Definition str_of_nat (n : nat) : string := str_of_Z (Z.of_nat n).

(* ---- encoders ---- *)
Definition sZ (z : Z) : sexp := At (str_of_Z z).
Definition sN (n : nat) : sexp := At (str_of_nat n).
Definition sB (b : bool) : sexp := At (if b then "T" else "F").
Definition sS (s : string) : sexp := At s.
Definition sL {A} (f : A -> sexp) (l : list A) : sexp := Li (map f l).
Definition sP {A B} (f : A -> sexp) (g : B -> sexp) (p : A * B) : sexp := Li [f (fst p); g (snd p)].
Definition sO {A} (f : A -> sexp) (o : option A) : sexp :=
  match o with None => At "None" | Some a => Li [At "Some"; f a] end.
Definition sErr (k : string) : sexp := Li [At "Err"; At k].
Definition sOk (v : sexp) : sexp := Li [At "Ok"; v].

(* ---- decoders (None = malformed request) ---- *)
Definition dZ (s : sexp) : option Z := match s with At a => Z_of_str a | _ => None end.
Definition dN (s : sexp) : option nat :=
  match dZ s with Some z => if (z <? 0)%Z then None else Some (Z.to_nat z) | None => None end.
Definition dB (s : sexp) : option bool :=
  match s with At "T" => Some true | At "F" => Some false | _ => None end.
Definition dS (s : sexp) : option string := match s with At a => Some a | _ => None end.
Fixpoint mapM {A B} (f : A -> option B) (l : list A) : option (list B) :=
  match l with
  | [] => Some []
  | x :: r => match f x, mapM f r with Some y, Some ys => Some (y :: ys) | _, _ => None end
  end.
Definition dL {A} (f : sexp -> option A) (s : sexp) : option (list A) :=
  match s with Li l => mapM f l | _ => None end.
Definition dP {A B} (f : sexp -> option A) (g : sexp -> option B) (s : sexp) : option (A * B) :=
  match s with
  | Li [a; b] => match f a, g b with Some x, Some y => Some (x, y) | _, _ => None end
  | _ => None
  end.
Definition dO {A} (f : sexp -> option A) (s : sexp) : option (option A) :=
  match s with
  | At "None" => Some None
  | Li [At "Some"; a] => option_map Some (f a)
  | _ => None
  end.

Definition bad_request : sexp := Li [At "BadRequest"].

(* strings <-> char lists *)
Fixpoint chars (s : string) : list ascii :=
  match s with EmptyString => [] | String c r => c :: chars r end.
Fixpoint unchars (l : list ascii) : string :=
  match l with [] => EmptyString | c :: r => String c (unchars r) end.
