(* Hand-written model of the nucleotide-code algebra (the IUPAC subset used by
   peppercompiler and spuriousSSM).  Base/Tables.v proves that the tables
   regenerated from the source (TablesGen.v) agree with this model. *)
From Coq Require Import List String Ascii Bool.
Import ListNotations.
Local Open Scope char_scope.

Inductive base := bA | bC | bG | bT.

Definition base_eqb (x y : base) : bool :=
  match x, y with bA, bA | bC, bC | bG, bG | bT, bT => true | _, _ => false end.
Lemma base_eqb_eq x y : base_eqb x y = true <-> x = y.
Proof. destruct x, y; simpl; split; intros H; try reflexivity; try discriminate. Qed.

Definition bcompl (b : base) : base :=
  match b with bA => bT | bT => bA | bC => bG | bG => bC end.

Definition base_char (b : base) : ascii :=
  match b with bA => "A" | bC => "C" | bG => "G" | bT => "T" end.
Definition char_base (c : ascii) : option base :=
  match c with "A" => Some bA | "C" => Some bC | "G" => Some bG | "T" => Some bT | _ => None end.

(* a code's base set as four flags: (A, C, G, T) *)
Record bset := mk { hasA : bool; hasC : bool; hasG : bool; hasT : bool }.
Definition bset_eqb (x y : bset) : bool :=
  Bool.eqb (hasA x) (hasA y) && Bool.eqb (hasC x) (hasC y) && Bool.eqb (hasG x) (hasG y) && Bool.eqb (hasT x) (hasT y).
Definition bmem (b : base) (s : bset) : bool :=
  match b with bA => hasA s | bC => hasC s | bG => hasG s | bT => hasT s end.
Definition binter (x y : bset) : bset :=
  mk (hasA x && hasA y) (hasC x && hasC y) (hasG x && hasG y) (hasT x && hasT y).
Definition bempty (x : bset) : bool := negb (hasA x || hasC x || hasG x || hasT x).
(* complementing every base of a set: A<->T, C<->G *)
Definition bset_compl (x : bset) : bset := mk (hasT x) (hasG x) (hasC x) (hasA x).
(* the sorted list of bases, the order Python's sorted() gives on "ACGT" *)
Definition bset_list (x : bset) : list base :=
  (if hasA x then [bA] else []) ++ (if hasC x then [bC] else []) ++
  (if hasG x then [bG] else []) ++ (if hasT x then [bT] else []).
Definition bset_of_list (l : list base) : bset :=
  mk (existsb (base_eqb bA) l) (existsb (base_eqb bC) l) (existsb (base_eqb bG) l) (existsb (base_eqb bT) l).

(* the 15 codes *)
Definition group (c : ascii) : option bset :=
  match c with
  | "A" => Some (mk true false false false)
  | "C" => Some (mk false true false false)
  | "G" => Some (mk false false true false)
  | "T" => Some (mk false false false true)
  | "R" => Some (mk true false true false)
  | "Y" => Some (mk false true false true)
  | "W" => Some (mk true false false true)
  | "S" => Some (mk false true true false)
  | "M" => Some (mk true true false false)
  | "K" => Some (mk false false true true)
  | "B" => Some (mk false true true true)
  | "V" => Some (mk true true true false)
  | "D" => Some (mk true false true true)
  | "H" => Some (mk true true false true)
  | "N" => Some (mk true true true true)
  | _ => None
  end.

Definition all_codes : list ascii :=
  ["A"; "T"; "C"; "G"; "R"; "Y"; "W"; "S"; "M"; "K"; "B"; "V"; "D"; "H"; "N"].

(* reverse lookup: the code of a (non-empty) base set *)
Definition rev_group (s : bset) : option ascii :=
  match find (fun c => match group c with Some g => bset_eqb g s | None => false end) all_codes with
  | Some c => Some c
  | None => None
  end.

Definition compl_code (c : ascii) : option ascii :=
  match group c with
  | Some g => rev_group (bset_compl g)
  | None => None
  end.

(* intersection of two codes as Python computes it:
   KeyErr when a code (or the resulting set) is not in the tables, Empty when disjoint *)
Inductive ires := IOk (c : ascii) | IEmpty | IKeyErr.
Definition code_inter (a b : ascii) : ires :=
  match group a, group b with
  | Some ga, Some gb =>
      let i := binter ga gb in
      if bempty i then IEmpty else
      match rev_group i with Some c => IOk c | None => IKeyErr end
  | _, _ => IKeyErr
  end.

(* Watson-Crick complement of a string of codes: complement each, reversed.
   None = some character is not a code (Python: KeyError) *)
Fixpoint map_compl (l : list ascii) : option (list ascii) :=
  match l with
  | [] => Some []
  | c :: r => match compl_code c, map_compl r with
              | Some c', Some r' => Some (c' :: r')
              | _, _ => None
              end
  end.
Definition wc_codes (l : list ascii) : option (list ascii) := map_compl (rev l).
