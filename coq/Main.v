(* Dispatch of driver requests to the per-property executable models. *)
From Coq Require Import List String.
From PC Require Import Base.Sexp Run.RC11 Run.RC07 Run.RComp Run.RC08 Run.RDesign Run.RC13 Run.RSys.
Import ListNotations.
Local Open Scope string_scope.

Definition run (req : sexp) : sexp :=
  match req with
  | Li [At "echo"; x] => x
  | Li [At "C11"; x] => run_C11 x
  | Li [At "C07"; x] => run_C07 x
  | Li [At "comp"; x] => run_comp x
  | Li [At "wfpil"; x] => run_wfpil x
  | Li [At "denote"; x] => run_denote x
  | Li [At "results"; x] => run_results x
  | Li [At "design"; x] => run_design x
  | Li [At "contract"; x] => run_contract x
  | Li [At "files"; x] => run_files x
  | Li [At "ssmvalid"; x] => run_ssmvalid x
  | Li [At "ssmconstrain"; x] => run_ssmconstrain x
  | Li [At "ssmstep"; x] => run_ssmstep x
  | Li [At "ssmtriple"; x] => run_ssmtriple x
  | Li [At "C13"; x] => run_C13 x
  | Li [At "sys"; x] => run_sys x
  | Li [At "des"; x] => run_des x
  | Li [At "finish"; x] => run_finish x
  | Li [At "C08"; x] => run_C08 x
  | _ => bad_request
  end.
