(* C03: every system load_file accepts is well formed in the sense of DesSys.sys_wf - components
   compiled, instance names distinct, every port bound to a signal of the signal's (non-zero)
   length, nested bindings naming a signal of the sub-system with its instance prefix. *)
From Coq Require Import List String Ascii Arith Bool ZArith Lia.
From PC Require Import Base.Sexp Base.Codes Comp.Syntax Comp.Compile Comp.Denote Comp.EmitProofs Comp.WfPil Comp.CompileProofs Subst.VarSubst
  Run.RC13 Run.RComp Sys.System Sys.SystemProofs Sys.PrefixProofs Sys.Des Sys.SignalProofs Sys.DesEquiv Sys.DesSys.
Import ListNotations.
Local Open Scope string_scope.
Local Open Scope list_scope.

(* ---- ports of a compiled component ---- *)
Definition port_ok (c : comp) (x : ref) : Prop := ref_ok c (c_sups c) x.
Lemma resolve_ports_ok c ps l : resolve_ports c ps = OK l -> forall x, In x (map fst l) -> port_ok c x.
Proof. revert l. induction ps as [|[[n star] sn] ps IH]; intros l H x Hx; cbn [resolve_ports] in H; [inversion H; subst; destruct Hx|].
  destruct (is_anon n); [discriminate|]. destruct (ahas (c_bases c) n) eqn:AB.
  - cbn [bind] in H. destruct (match sn with Some s => _ | None => _ end); [|discriminate]. cbn [bind] in H.
    destruct (resolve_ports c ps) as [rest|]; [|discriminate]. cbn [bind] in H. inversion H; subst. destruct Hx as [<-|Hx]; [exact AB | apply (IH rest eq_refl x Hx)].
  - destruct (ahas (c_sups c) n) eqn:AS; [|discriminate]. cbn [bind] in H. destruct (match sn with Some s => _ | None => _ end); [|discriminate]. cbn [bind] in H.
    destruct (resolve_ports c ps) as [rest|]; [|discriminate]. cbn [bind] in H. inversion H; subst. destruct Hx as [<-|Hx]; [exact AS | apply (IH rest eq_refl x Hx)]. Qed.
Lemma port_ok_same_tables c c' x : c_bases c' = c_bases c -> c_sups c' = c_sups c -> port_ok c x -> port_ok c' x.
Proof. intros B S H. unfold port_ok, ref_ok in *. rewrite B, S. exact H. Qed.
Lemma compile_ports_ok ctr prefix d body c ctr' : compile_comp ctr prefix d body = OK (c, ctr') ->
  forall x, In x (map fst (c_ins c) ++ map fst (c_outs c)) -> port_ok c x.
Proof. intros H x Hx. unfold compile_comp in H. destruct (steps (empty_comp prefix, ctr) body) as [[c1 ctr1]|]; [|discriminate]. cbn [bind fst snd] in H.
  destruct (add_IO c1 d) as [c2|] eqn:IO; [|discriminate]. cbn [bind] in H. inversion H; subst c2 ctr1. clear H.
  unfold add_IO in IO. destruct (resolve_ports c1 (d_ins d)) as [i|] eqn:RI; [|discriminate]. cbn [bind] in IO.
  destruct (resolve_ports c1 (d_outs d)) as [o|] eqn:RO; [|discriminate]. cbn [bind] in IO. inversion IO; subst c. cbn [c_ins c_outs] in Hx.
  apply (port_ok_same_tables c1); [reflexivity | reflexivity|]. apply in_app_or in Hx. destruct Hx as [Hx|Hx]; [apply (resolve_ports_ok c1 _ _ RI x Hx) | apply (resolve_ports_ok c1 _ _ RO x Hx)]. Qed.

Lemma flat_bref_length c y : List.length (flat_bref c y) = base_len (c_bases c) (fst y).
Proof. unfold flat_bref. destruct (snd y); [unfold rc; rewrite map_length, rev_length|]; apply dom_nts_length. Qed.
Lemma port_facts c x : WF c -> port_ok c x ->
  List.length (flatB c (ref_base c (ref_fwd x))) = ref_len c x /\ (forall y, In y (ref_base c (ref_fwd x)) -> ahas (c_bases c) (fst y) = true).
Proof. intros W H. destruct x as [n r|n r]; cbn [ref_fwd ref_base ref_len port_ok ref_ok] in *.
  - split; [unfold flatB; simpl; rewrite app_nil_r, flat_bref_length; reflexivity | intros y [<-|[]]; exact H].
  - unfold ahas in H. destruct (afind (c_sups c) n) as [s|] eqn:A; [|discriminate]. pose proof (afind_Some_In _ _ _ A) as Hin.
    destruct (in_split _ _ Hin) as [pre [post E]]. pose proof (wf_sups c W pre n s post E) as SO.
    split; [symmetry; apply (so_len c pre s SO) | apply (so_bdef c pre s SO)]. Qed.

(* ---- the invariant of run_stmts ---- *)
Definition subsig_ok (o : obj) : Prop :=
  match o with
  | OSys _ _ sigs lens _ _ => forall k len, afind lens k = Some len -> ahas sigs k = true /\ len <> 0
  | OComp _ => True
  end.
(* every system inside: signals have a recorded non-zero length and are listed once *)
Fixpoint deep_ok (fuel : nat) (o : obj) : Prop :=
  match fuel with
  | O => False
  | S f =>
      match o with
      | OComp _ => True
      | OSys _ comps sigs lens _ _ =>
          subsig_ok o /\ (forall s e, In (s, e) sigs -> exists len, afind lens s = Some len) /\ NoDup (map fst sigs) /\
          forall cn sub, In (cn, sub) comps -> deep_ok f sub
      end
  end.
Definition entry_wf (prefix : string) (comps : list (string * obj)) (n : nat) (l : loc) (cname : string) : Prop :=
  match l with
  | LRef x => exists c, afind comps cname = Some (OComp c) /\ List.length (flatB c (ref_base c x)) = n /\
                (forall y, In y (ref_base c x) -> ahas (c_bases c) (fst y) = true) /\
                match x with RB m _ => base_len (c_bases c) m <> 0 | RS _ _ => True end
  | LSig s0 => exists comps' sigs' lens' i' o', afind comps cname = Some (OSys (prefix +++ cname +++ "-") comps' sigs' lens' i' o') /\
                ahas sigs' s0 = true /\ lens_of lens' s0 = n
  end.
Record RI (f : nat) (prefix : string) (comps : list (string * obj)) (sigs : list (string * list (loc * string * bool))) (lens : list (string * nat)) : Prop := {
  ri_nd : NoDup (map fst comps);
  ri_sub : forall cn sub, In (cn, sub) comps -> sys_wf f sub;
  ri_deep : forall cn sub, In (cn, sub) comps -> deep_ok f sub;
  ri_nds : NoDup (map fst sigs);
  ri_ent : forall sname entries, In (sname, entries) sigs -> forall l cname wc, In (l, cname, wc) entries -> entry_wf prefix comps (lens_of lens sname) l cname;
  ri_len : forall sname entries, In (sname, entries) sigs -> exists len, afind lens sname = Some len;
  ri_keys : forall k len, afind lens k = Some len -> ahas sigs k = true /\ len <> 0 }.

Lemma NoDup_snoc {X} (a : list X) x : NoDup a -> ~ In x a -> NoDup (a ++ [x]).
Proof. induction a as [|y a IH]; intros ND NI; simpl; [constructor; [intros [] | constructor]|]. inversion ND as [|? ? H1 H2]; subst.
  constructor; [rewrite in_app_iff; intros [C|[C|[]]]; [exact (H1 C) | apply NI; left; symmetry; exact C] | apply IH; [exact H2 | intros C; apply NI; right; exact C]]. Qed.
Lemma entry_wf_grow prefix comps x n l cname : entry_wf prefix comps n l cname -> entry_wf prefix (comps ++ [x]) n l cname.
Proof. destruct l as [r|s0]; simpl.
  - intros [c [A B]]. exists c. split; [apply afind_app_l, A | exact B].
  - intros [a [b [c [d [e [A B]]]]]]. exists a, b, c, d, e. split; [apply afind_app_l, A | exact B]. Qed.
Lemma RI_grow f prefix comps sigs lens cn o : RI f prefix comps sigs lens -> ahas comps cn = false -> sys_wf f o -> deep_ok f o -> RI f prefix (comps ++ [(cn, o)]) sigs lens.
Proof. intros [A B B2 N C D E] NH WO WD. constructor; [| | | exact N | |exact D | exact E].
  - rewrite map_app. simpl. apply NoDup_snoc; [exact A|].
    intros Hx. apply in_map_iff in Hx. destruct Hx as [[k v] [Ek Hin]]. simpl in Ek. subst k. unfold ahas in NH.
    rewrite (afind_In _ _ _ A Hin) in NH. discriminate.
  - intros cn' sub Hin. apply in_app_or in Hin. destruct Hin as [Hin|[Q|[]]]; [apply (B _ _ Hin) | inversion Q; subst; exact WO].
  - intros cn' sub Hin. apply in_app_or in Hin. destruct Hin as [Hin|[Q|[]]]; [apply (B2 _ _ Hin) | inversion Q; subst; exact WD].
  - intros sname entries Hin l cname wc He. apply entry_wf_grow. apply (C sname entries Hin l cname wc He). Qed.

Lemma afind_map_upd {V} (sigs : list (string * V)) g (F : V -> V) k :
  afind (map (fun '(k0, v) => if String.eqb k0 g then (k0, F v) else (k0, v)) sigs) k =
  match afind sigs k with Some v => Some (if String.eqb k g then F v else v) | None => None end.
Proof. induction sigs as [|[k0 v] sigs IH]; simpl; [reflexivity|]. destruct (String.eqb k0 g) eqn:E0; simpl; destruct (String.eqb k0 k) eqn:E1.
  - apply String.eqb_eq in E0, E1. subst. rewrite String.eqb_refl. reflexivity.
  - exact IH.
  - apply String.eqb_eq in E1. subst. rewrite E0. reflexivity.
  - exact IH. Qed.

Lemma bind_signal_RI f prefix comps sigs lens g l cname wc len dummy sigs' lens' :
  bind_signal sigs lens g (l, cname, wc) len dummy = OK (sigs', lens') -> RI f prefix comps sigs lens ->
  entry_wf prefix comps len l cname -> (dummy = false -> len <> 0) -> RI f prefix comps sigs' lens'.
Proof. intros H [A B B2 N C D E] EW NZ. unfold bind_signal in H. destruct (afind sigs g) as [l0|] eqn:AS.
  - destruct (afind lens g) as [l1|] eqn:AL; [|discriminate]. destruct (Nat.eqb_spec l1 len) as [EQ|]; [|discriminate]. inversion H; subst sigs' lens'. clear H.
    constructor; [exact A | exact B | exact B2 | | | |].
    + assert (MF : map fst (map (fun '(k, v) => if String.eqb k g then (k, v ++ [(l, cname, wc)]) else (k, v)) sigs) = map fst sigs).
      { clear. induction sigs as [|[k v] sg IHs]; [reflexivity|]. simpl. rewrite IHs. destruct (String.eqb k g); reflexivity. }
      rewrite MF. exact N.
    + intros sname entries Hin l' cname' wc' He. apply in_map_iff in Hin. destruct Hin as [[k v] [Q Hin]]. destruct (String.eqb k g) eqn:EK.
      * injection Q as <- <-. apply String.eqb_eq in EK. subst k. apply in_app_or in He. destruct He as [He|[He|[]]]; [apply (C g v Hin _ _ _ He)|].
        injection He as <- <- <-. unfold lens_of. rewrite AL, EQ. exact EW.
      * injection Q as <- <-. apply (C k v Hin _ _ _ He).
    + intros sname entries Hin. apply in_map_iff in Hin. destruct Hin as [[k v] [Q Hin]]. destruct (String.eqb k g); injection Q as <- <-; apply (D k v Hin).
    + intros k len0 AK. destruct (E k len0 AK) as [E1 E2]. split; [|exact E2]. unfold ahas in *. rewrite afind_map_upd. destruct (afind sigs k); [reflexivity | discriminate].
  - destruct dummy; [discriminate|]. inversion H; subst sigs' lens'. clear H. specialize (NZ eq_refl).
    assert (NL : afind lens g = None).
    { destruct (afind lens g) as [x|] eqn:AL; [|reflexivity]. destruct (E g x AL) as [E1 _]. unfold ahas in E1. rewrite AS in E1. discriminate. }
    constructor; [exact A | exact B | exact B2 | | | |].
    + rewrite map_app. simpl. apply NoDup_snoc; [exact N|]. intros C0. apply in_map_iff in C0. destruct C0 as [[k v] [Ek Hin]]. simpl in Ek. subst k.
      rewrite (afind_In _ _ _ N Hin) in AS. discriminate.
    + intros sname entries Hin l' cname' wc' He. apply in_app_or in Hin. destruct Hin as [Hin|[Q|[]]].
      * destruct (D sname entries Hin) as [len0 AL]. unfold lens_of. rewrite (afind_app_l _ _ _ _ AL). pose proof (C sname entries Hin _ _ _ He) as X. unfold lens_of in X. rewrite AL in X. exact X.
      * injection Q as <- <-. destruct He as [He|[]]. injection He as <- <- <-. unfold lens_of. rewrite afind_app, NL. simpl. rewrite String.eqb_refl. exact EW.
    + intros sname entries Hin. apply in_app_or in Hin. destruct Hin as [Hin|[Q|[]]].
      * destruct (D sname entries Hin) as [len0 AL]. exists len0. apply afind_app_l, AL.
      * injection Q as <- <-. exists len. rewrite afind_app, NL. simpl. rewrite String.eqb_refl. reflexivity.
    + intros k len0 AK. rewrite afind_app in AK. destruct (afind lens k) as [x|] eqn:AL.
      * inversion AK; subst x. destruct (E k len0 AL) as [E1 E2]. split; [|exact E2]. unfold ahas in *. rewrite afind_app. destruct (afind sigs k); [reflexivity | discriminate].
      * simpl in AK. destruct (String.eqb g k) eqn:EK; [|discriminate]. inversion AK; subst len0. apply String.eqb_eq in EK. subst k. split; [|exact NZ].
        unfold ahas. rewrite afind_app, AS. simpl. rewrite String.eqb_refl. reflexivity. Qed.

Lemma bind_comp_RI f prefix comps c cname : afind comps cname = Some (OComp c) -> WF c ->
  forall gs ls sigs lens sigs' lens', (forall x, In x ls -> port_ok c x) ->
  bind_comp c cname gs ls sigs lens = OK (sigs', lens') -> RI f prefix comps sigs lens -> RI f prefix comps sigs' lens'.
Proof. intros HC W. induction gs as [|[g gwc] gr IH]; intros ls sigs lens sigs' lens' PO H R; cbn [bind_comp] in H; [inversion H; subst; exact R|].
  destruct ls as [|x lr]; [inversion H; subst; exact R|].
  destruct (bind_signal sigs lens g _ _ _) as [[s1 l1]|] eqn:B; [|discriminate]. cbn [bind fst snd] in H.
  apply (IH lr s1 l1 sigs' lens' (fun y Hy => PO y (or_intror Hy)) H).
  destruct (port_facts c x W (PO x (or_introl eq_refl))) as [L DECL].
  apply (bind_signal_RI f prefix comps _ _ _ _ _ _ _ _ _ _ B R).
  - simpl. exists c. split; [exact HC|]. split; [exact L|]. split; [exact DECL|].
    destruct x as [m r|m r]; cbn [ref_fwd]; [|exact I]. cbn [ref_len] in *. intros Z.
    (* a zero-length port: the first binding of a signal rejects it, a later one would need a zero-length signal *)
    unfold bind_signal in B. destruct (afind sigs g) as [l0|] eqn:AS.
    + destruct (afind lens g) as [l2|] eqn:AL; [|discriminate]. destruct (Nat.eqb_spec l2 (base_len (c_bases c) m)) as [EQ|]; [|discriminate].
      destruct (ri_keys _ _ _ _ _ R g l2 AL) as [_ NZ]. lia.
    + rewrite Z in B. simpl in B. discriminate.
  - intros DF. apply Nat.eqb_neq in DF. exact DF. Qed.

Lemma bind_sys_RI f prefix comps cname comps0 sigs0 ilens i0 o0 :
  afind comps cname = Some (OSys (prefix +++ cname +++ "-") comps0 sigs0 ilens i0 o0) -> subsig_ok (OSys (prefix +++ cname +++ "-") comps0 sigs0 ilens i0 o0) ->
  forall gs ls sigs lens sigs' lens',
  bind_sys ilens cname gs ls sigs lens = OK (sigs', lens') -> RI f prefix comps sigs lens -> RI f prefix comps sigs' lens'.
Proof. intros HC SS. induction gs as [|[g gwc] gr IH]; intros ls sigs lens sigs' lens' H R; cbn [bind_sys] in H; [inversion H; subst; exact R|].
  destruct ls as [|[ln lwc] lr]; [inversion H; subst; exact R|].
  destruct (afind ilens ln) as [len|] eqn:AI; [|discriminate].
  destruct (bind_signal sigs lens g _ _ _) as [[s1 l1]|] eqn:B; [|discriminate]. cbn [bind fst snd] in H.
  apply (IH lr s1 l1 sigs' lens' H). destruct (SS ln len AI) as [S1 S2].
  apply (bind_signal_RI f prefix comps _ _ _ _ _ _ _ _ _ _ B R).
  - simpl. exists comps0, sigs0, ilens, i0, o0. split; [exact HC|]. split; [exact S1|]. unfold lens_of. rewrite AI. reflexivity.
  - intros _. exact S2. Qed.

Section L.
Variable fs : ftable.
Variable includes : list string.

Lemma run_stmts_RI f ld prefix new_path :
  (forall ctr tpath cargs pre np o ctr', ld ctr tpath cargs pre np = OK (o, ctr') -> sys_wf f o /\ deep_ok f o /\ subsig_ok o /\ wp pre o /\
     match o with OComp c => WF c /\ forall x, In x (map fst (c_ins c) ++ map fst (c_outs c)) -> port_ok c x | OSys _ _ _ _ _ _ => True end) ->
  forall stmts templ comps sigs lens ctr comps' sigs' lens' ctr',
  run_stmts ld prefix new_path stmts templ comps sigs lens ctr = OK (comps', sigs', lens', ctr') ->
  RI f prefix comps sigs lens -> RI f prefix comps' sigs' lens'.
Proof. intros HL. induction stmts as [|s rest IH]; intros templ comps sigs lens ctr comps' sigs' lens' ctr' H R; cbn [run_stmts] in H.
  - inversion H; subst. exact R.
  - destruct s as [l|cname tname cargs cins couts].
    + destruct (imp_all l templ) as [templ'|]; [|discriminate]. cbn [bind] in H. apply (IH _ _ _ _ _ _ _ _ _ H R).
    + destruct (afind templ tname) as [tpath|]; [|discriminate].
      destruct (ahas comps cname) eqn:AH; [discriminate|].
      destruct (ld ctr tpath cargs (prefix +++ cname +++ "-") new_path) as [[o c1]|] eqn:LD; [|discriminate]. cbn [bind] in H.
      destruct (obj_ports o) as [ni no]. destruct (negb _); [discriminate|].
      match type of H with (do sl <- ?e; _) = _ => destruct e as [[s1 l1]|] eqn:BD; [|discriminate] end. cbn [bind fst snd] in H.
      assert (FO : afind (comps ++ [(cname, o)]) cname = Some o).
      { rewrite afind_app. unfold ahas in AH. destruct (afind comps cname); [discriminate|]. simpl. rewrite String.eqb_refl. reflexivity. }
      destruct (HL _ _ _ _ _ _ _ LD) as [WO [WD [SO [WP PO]]]].
      apply (IH _ _ _ _ _ _ _ _ _ H). pose proof (RI_grow f prefix comps sigs lens cname o R AH WO WD) as R'.
      destruct o as [c|pr cs sg ilens iins iouts].
      * destruct PO as [W PO]. apply (bind_comp_RI f prefix _ c cname FO W _ _ _ _ _ _ PO BD R').
      * simpl in WP. destruct WP as [-> _]. apply (bind_sys_RI f prefix _ cname cs sg ilens iins iouts FO SO _ _ _ _ _ _ BD R'). Qed.

Theorem load_file_sys_wf : forall fuel ctr b args prefix path o ctr',
  load_file fs includes fuel ctr b args prefix path = OK (o, ctr') ->
  sys_wf fuel o /\ deep_ok fuel o /\ subsig_ok o /\
  match o with OComp c => WF c /\ forall x, In x (map fst (c_ins c) ++ map fst (c_outs c)) -> port_ok c x | OSys _ _ _ _ _ _ => True end.
Proof. induction fuel as [|f IH]; intros ctr b args prefix path o ctr' H; [discriminate|]. pose proof H as H0. cbn [load_file] in H.
  destruct (search_file fs b (path :: includes)) as [[[bp entry] new_path]|]; [|discriminate]. cbn [bind] in H.
  destruct (zip_env (f_params entry) args) as [e|]; [|discriminate].
  destruct (negb (f_sys entry)).
  - destruct (f_body entry) as [|[|d [|body [|]]]]; try discriminate.
    destruct (d_declare d) as [dd|]; [|discriminate]. destruct (dL (d_stmt_e e) body) as [bb|]; [|discriminate].
    destruct (compile_comp ctr prefix dd bb) as [[c c1]|] eqn:CC; [|discriminate]. cbn [bind fst snd] in H. inversion H; subst.
    destruct (compile_comp_inv _ _ _ _ _ _ CC) as [W [W2 _]]. cbn [sys_wf subsig_ok deep_ok]. split; [split; assumption|]. split; [exact I|]. split; [exact I|]. split; [exact W|].
    apply (compile_ports_ok _ _ _ _ _ _ CC).
  - destruct (f_body entry) as [|[|ins [|outs [|stmts [|]]]]]; try discriminate.
    destruct (dL d_sig ins) as [sins|]; [|discriminate]. destruct (dL d_sig outs) as [souts|]; [|discriminate].
    destruct (dL (d_sstmt e) stmts) as [st|]; [|discriminate].
    destruct (run_stmts (load_file fs includes f) prefix new_path st [] [] [] [] ctr) as [[[[comps sigs] lens] c1]|] eqn:R; [|discriminate].
    cbn [bind] in H. destruct (forallb _ _); [|discriminate]. inversion H; subst.
    assert (R0 : RI f prefix [] [] []).
    { constructor; [constructor | intros ? ? [] | intros ? ? [] | constructor | intros ? ? [] | intros ? ? [] | intros k len A; discriminate]. }
    pose proof (run_stmts_RI f (load_file fs includes f) prefix new_path
      (fun ctr0 tpath cargs pre np o0 ctr0' L => let '(conj A (conj A2 (conj B C))) := IH ctr0 tpath cargs pre np o0 ctr0' L in
         conj A (conj A2 (conj B (conj (load_file_wp fs includes f ctr0 tpath cargs pre np o0 ctr0' L) C))))
      st [] [] [] [] ctr comps sigs lens _ R R0) as [A B B2 N C D E].
    cbn [sys_wf subsig_ok deep_ok]. split; [|split; [|split; [exact E | exact I]]].
    2: { split; [exact E|]. split; [exact D|]. split; [exact N | exact B2]. }
    split; [exact A|]. split; [exact B|].
    intros sname entries Hin l cname wc He. pose proof (C sname entries Hin l cname wc He) as X. destruct l; exact X. Qed.
End L.

(* the hypothesis sys_wf of the system-level theorem holds of whatever the .des back-end compiles *)
Theorem compile_des_sys_wf fs includes ctr basename args lines ctr' : compile_des fs includes ctr basename args = OK (lines, ctr') ->
  exists o, load_file fs includes 12 ctr basename args "" "." = OK (o, ctr') /\ lines = emit_des_obj 12 o /\ sys_wf 12 o.
Proof. unfold compile_des. intros H. destruct (load_file fs includes 12 ctr basename args "" ".") as [[o c1]|] eqn:L; [|discriminate].
  cbn [bind fst snd] in H. inversion H; subst. exists o. split; [reflexivity | split; [reflexivity|]]. apply (load_file_sys_wf fs includes 12 _ _ _ _ _ _ _ L). Qed.

(* C03 for whatever the .des back-end compiles: the only hypothesis left is that the document defines no sequence
   and no structure twice *)
Theorem compiled_des_system_equiv fs includes ctr basename args lines ctr' : compile_des fs includes ctr basename args = OK (lines, ctr') ->
  NoDup (map fst (des_env lines)) -> NoDup (dstruct_names lines) ->
  exists o, load_file fs includes 12 ctr basename args "" "." = OK (o, ctr') /\ forall v, des_sat v lines <-> sys_sat v 12 o.
Proof. intros H N1 N2. destruct (compile_des_sys_wf _ _ _ _ _ _ _ H) as [o [L [-> W]]]. exists o. split; [exact L|].
  intros v. apply (des_system_equiv 12 o v W N1 N2). Qed.
