(* C12 at system level, "changes nothing else": fixing a signal of a (nested) system leaves the system's
   own tables and the names of its instances as they were and can only change the instances that occur in
   the signal's bindings; a fix addressed through a qualified name only changes the addressed instance. *)
From Coq Require Import List String Ascii Arith Bool Lia.
From PC Require Import Base.Codes Base.Tables Comp.Syntax Comp.Compile Comp.EmitProofs Comp.Fix Sys.System.
Import ListNotations.
Local Open Scope list_scope.

Definition upd (comps : list (string * obj)) (cname : string) (sub' : obj) : list (string * obj) :=
  map (fun '(n, x) => if String.eqb n cname then (n, sub') else (n, x)) comps.
Lemma upd_names comps cname sub' : map fst (upd comps cname sub') = map fst comps.
Proof. unfold upd. induction comps as [|[n x] comps IH]; [reflexivity|]. simpl. rewrite IH. destruct (String.eqb n cname); reflexivity. Qed.
Lemma upd_other comps cname sub' cn : cn <> cname -> afind (upd comps cname sub') cn = afind comps cn.
Proof. intros NE. unfold upd. induction comps as [|[n x] comps IH]; [reflexivity|]. simpl. destruct (String.eqb n cname) eqn:E; simpl.
  - apply String.eqb_eq in E. subst n. destruct (String.eqb cname cn) eqn:E2; [apply String.eqb_eq in E2; congruence | exact IH].
  - destruct (String.eqb n cn); [reflexivity | exact IH]. Qed.

(* what stays the same in a system object *)
Definition frame (o o' : obj) (touched : string -> Prop) : Prop :=
  match o, o' with
  | OComp _, _ => o' = o
  | OSys p comps sigs lens i oo, OSys p' comps' sigs' lens' i' oo' =>
      p' = p /\ sigs' = sigs /\ lens' = lens /\ i' = i /\ oo' = oo /\ map fst comps' = map fst comps /\
      forall cn, ~ touched cn -> afind comps' cn = afind comps cn
  | OSys _ _ _ _ _ _, OComp _ => False
  end.

Theorem fix_signal_frame : forall f o name fixed o' st, fix_signal f o name fixed = (o', st) ->
  frame o o' (fun cn => exists entries l wc, (match o with OSys _ _ sigs _ _ _ => afind sigs name | OComp _ => None end) = Some entries /\ In (l, cn, wc) entries).
Proof. induction f as [|f IH]; intros o name fixed o' st H; cbn [fix_signal] in H.
  - inversion H; subst. destruct o'; simpl; [reflexivity | repeat split; auto].
  - destruct o as [c|p comps sigs lens i oo]; [inversion H; subst; reflexivity|].
    destruct (afind sigs name) as [entries|] eqn:AS; [|inversion H; subst; simpl; repeat split; auto].
    assert (G : forall ents comps0 o1 st1,
      (fix go (entries : list (loc * string * bool)) (comps : list (string * obj)) : obj * fstatus :=
         match entries with
         | [] => (OSys p comps sigs lens i oo, FOk)
         | (l, cname, wc) :: rest =>
             match afind comps cname with
             | None => (OSys p comps sigs lens i oo, FFail "internal")
             | Some sub =>
                 let r := match l, sub with
                          | LSig s, _ => match (if wc then wc_codes fixed else Some fixed) with
                                         | Some fx => fix_signal f sub s fx
                                         | None => (sub, FKey) end
                          | LRef x, OComp c =>
                              let x' := match x with RB n _ => RB n wc | RS n _ => RS n wc end in
                              let (bs, st) :=
                                if negb (Nat.eqb (List.length fixed) (ref_len c x)) then (c_bases c, FFail "length")
                                else fix_refs (S (S (List.length (c_sups c)))) c (c_bases c) [x'] fixed in
                              (OComp (set_comp_bases c bs), st)
                          | LRef _, _ => (sub, FFail "internal")
                          end in
                 let (sub', st) := r in
                 let comps' := map (fun '(n, x) => if String.eqb n cname then (n, sub') else (n, x)) comps in
                 match st with
                 | FOk => go rest comps'
                 | other => (OSys p comps' sigs lens i oo, other)
                 end
             end
         end) ents comps0 = (o1, st1) ->
      exists comps1, o1 = OSys p comps1 sigs lens i oo /\ map fst comps1 = map fst comps0 /\
        forall cn, (forall l wc, ~ In (l, cn, wc) ents) -> afind comps1 cn = afind comps0 cn).
    { induction ents as [|[[l cname] wc] rest IHe]; intros comps0 o1 st1 E.
      - inversion E; subst. exists comps0. auto.
      - cbn fix beta iota in E. destruct (afind comps0 cname) as [sub|] eqn:AC; [|inversion E; subst; exists comps0; auto].
        cbv zeta in E. match type of E with (let (sub', st) := ?r in _) = _ => destruct r as [sub' st0] end.
        fold (upd comps0 cname sub') in E.
        assert (K : forall comps1, map fst comps1 = map fst (upd comps0 cname sub') ->
                     (forall cn, (forall l0 wc0, ~ In (l0, cn, wc0) rest) -> afind comps1 cn = afind (upd comps0 cname sub') cn) ->
                     map fst comps1 = map fst comps0 /\ forall cn, (forall l0 wc0, ~ In (l0, cn, wc0) ((l, cname, wc) :: rest)) -> afind comps1 cn = afind comps0 cn).
        { intros comps1 N1 F1. split; [rewrite N1; apply upd_names|]. intros cn NI. rewrite F1 by (intros l0 wc0 C; apply (NI l0 wc0); right; exact C).
          apply upd_other. intros ->. apply (NI l wc). left. reflexivity. }
        destruct st0; try (inversion E; subst; exists (upd comps0 cname sub'); split; [reflexivity | apply K; auto]).
        destruct (IHe _ _ _ E) as [comps1 [-> [N1 F1]]]. exists comps1. split; [reflexivity | apply K; assumption]. }
    destruct (G entries comps o' st H) as [comps1 [-> [N1 F1]]]. simpl. repeat split; auto.
    intros cn NT. apply F1. intros l wc C. apply NT. exists entries, l, wc. auto. Qed.

(* a fix through a qualified name changes only the addressed instance *)
Theorem fix_at_frame f p comps sigs lens i oo name k o' st : fix_at (S f) (OSys p comps sigs lens i oo) name k = (o', st) ->
  exists comps', o' = OSys p comps' sigs lens i oo /\ map fst comps' = map fst comps /\
    forall cn, (forall rest, first_dash name <> Some (cn, rest)) -> afind comps' cn = afind comps cn.
Proof. intros H. cbn [fix_at] in H. destruct (first_dash name) as [[cname rest]|]; [|inversion H; subst; exists comps; auto].
  destruct (afind comps cname) as [sub|]; [|inversion H; subst; exists comps; auto].
  destruct (fix_at f sub rest k) as [sub' st0]. inversion H; subst. fold (upd comps cname sub'). exists (upd comps cname sub').
  split; [reflexivity | split; [apply upd_names|]]. intros cn NE. apply upd_other. intros ->. apply (NE rest). reflexivity. Qed.

(* ---- the star rule: every starred level of nesting reverse-complements the string once ---- *)
Theorem fix_signal_nested_single f p comps sigs lens i oo name s cname (wc : bool) sub fixed fx :
  afind sigs name = Some [(LSig s, cname, wc)] -> afind comps cname = Some sub ->
  (if wc then wc_codes fixed else Some fixed) = Some fx ->
  fix_signal (S f) (OSys p comps sigs lens i oo) name fixed =
  (OSys p (upd comps cname (fst (fix_signal f sub s fx))) sigs lens i oo, snd (fix_signal f sub s fx)).
Proof. intros AS AC FX. cbn [fix_signal]. rewrite AS, AC. cbv zeta. rewrite FX. destruct (fix_signal f sub s fx) as [sub' st]. cbn [fst snd]. fold (upd comps cname sub').
  destruct st; reflexivity. Qed.

Theorem fix_signal_leaf_single f p comps sigs lens i oo name x cname wc c fixed :
  afind sigs name = Some [(LRef x, cname, wc)] -> afind comps cname = Some (OComp c) -> List.length fixed = ref_len c x ->
  fix_signal (S f) (OSys p comps sigs lens i oo) name fixed =
  (let r := fix_refs (S (S (List.length (c_sups c)))) c (c_bases c) [match x with RB n _ => RB n wc | RS n _ => RS n wc end] fixed in
   (OSys p (upd comps cname (OComp (set_comp_bases c (fst r)))) sigs lens i oo, snd r)).
Proof. intros AS AC L. cbn [fix_signal]. rewrite AS, AC. cbv zeta. rewrite L, Nat.eqb_refl. cbn [negb].
  destruct (fix_refs _ c (c_bases c) _ fixed) as [bs st]. cbn [fst snd]. fold (upd comps cname (OComp (set_comp_bases c bs))). destruct st; reflexivity. Qed.

(* two starred levels cancel: the inner system is asked to fix the string itself *)
Theorem double_star_cancels f p comps sigs lens i oo name s cname p2 comps2 sigs2 lens2 i2 oo2 s2 cname2 sub2 fixed w :
  afind sigs name = Some [(LSig s, cname, true)] -> afind comps cname = Some (OSys p2 comps2 sigs2 lens2 i2 oo2) ->
  afind sigs2 s = Some [(LSig s2, cname2, true)] -> afind comps2 cname2 = Some sub2 ->
  wc_codes fixed = Some w ->
  fix_signal (S (S f)) (OSys p comps sigs lens i oo) name fixed =
  (OSys p (upd comps cname (OSys p2 (upd comps2 cname2 (fst (fix_signal f sub2 s2 fixed))) sigs2 lens2 i2 oo2)) sigs lens i oo, snd (fix_signal f sub2 s2 fixed)).
Proof. intros A1 C1 A2 C2 W. rewrite (fix_signal_nested_single (S f) p comps sigs lens i oo name s cname true _ fixed w A1 C1 W).
  rewrite (fix_signal_nested_single f p2 comps2 sigs2 lens2 i2 oo2 s s2 cname2 true sub2 w fixed A2 C2 (wc_involutive _ _ W)). reflexivity. Qed.
