(* C09 / C06 / C14 / C12 for whole systems compiled WITH a fixed-sequence file: the specification the compiler writes
   after applying any list of fixed entries still passes wf_pil, is accepted by the designer's loader, gets arrays or the
   over-constraint report, and finishing the fixed system object succeeds for every fitting designed string. *)
From Coq Require Import List String Ascii Arith Bool ZArith.
From PC Require Import Base.Sexp Base.Codes Comp.Syntax Comp.Compile Comp.WfPil Design.Designer Design.CrossProofs Design.Results Design.ResultsProofs
  Design.Loaded Design.SeedTotal Design.SysFinish Finish.Apply Sys.System Sys.PrefixProofs Sys.DesSys Sys.LoadWf Sys.SysWfPil Sys.SysNames Sys.FixSys Sys.SysLines Sys.WfUnique Comp.Fix Comp.FixShape Design.FixedEndToEnd.
Import ListNotations.
Local Open Scope string_scope.

Section Fixed.
Variables (fs : ftable) (includes : list string) (ctr : nat) (basename : string) (args : list Z) (fixed : list (string * string * list ascii)).
Variables (lines : list pline) (ctr' : nat).
Hypothesis COMP : compile_top fs includes ctr basename args fixed = OK (lines, ctr').

Theorem fixed_system_wf_pil : (forall o, load_file fs includes 12 ctr basename args "" "." = OK (o, ctr') -> names_ok 12 o) -> wf_pil lines = true.
Proof. intros N. destruct (compile_top_fixed _ _ _ _ _ _ _ _ COMP) as (o & o' & L & F & -> & R & W & D & P & N1 & _).
  destruct (sys_run 12 o' "" W D P (N1 (N o L))) as [d [RUN _]]. unfold wf_pil. rewrite RUN. reflexivity. Qed.

Theorem fixed_system_names_unique : (forall o, load_file fs includes 12 ctr basename args "" "." = OK (o, ctr') -> names_ok 12 o) ->
  NoDup (seq_line_names lines) /\ NoDup (strand_line_names lines) /\ NoDup (struct_line_names lines).
Proof. intros N. apply wf_pil_names_unique. exact (fixed_system_wf_pil N). Qed.

Theorem fixed_system_designs : (forall o, load_file fs includes 12 ctr basename args "" "." = OK (o, ctr') -> names_ok 12 o) ->
  (forall n k len, In (PSeq n k len) lines -> valid_template k = true) ->
  wf_pil lines = true /\ (exists p, load_spec lines pspec0 = OK p) /\
  (design_arrays lines false = DOver \/ exists e w s, design_arrays lines false = DOk e w s).
Proof. intros N VT. pose proof (fixed_system_wf_pil N) as W. split; [exact W|]. split; [apply (wf_pil_loads lines W VT) | apply (wf_pil_designs lines W VT)]. Qed.

Theorem fixed_system_end_to_end : (forall o, load_file fs includes 12 ctr basename args "" "." = OK (o, ctr') -> names_ok 12 o) ->
  (forall n k len, In (PSeq n k len) lines -> valid_template k = true) ->
  exists o o' p lay g, load_file fs includes 12 ctr basename args "" "." = OK (o, ctr') /\ fix_all o fixed = OK o' /\
    load_spec lines pspec0 = OK p /\ seed p false = OK (lay, g) /\
    (get_constraints p false = DOver \/
     exists e w s, get_constraints p false = DOk e w s /\
       forall nts, fits nts e w ->
         exists a recs, process_results p lay nts = OK a /\ output_records p a = OK recs /\
           (NoDup (map fst recs) -> exists f, apply_obj 12 (table_of recs) o' = OK f)).
Proof. intros N VT. pose proof (fixed_system_wf_pil N) as W. destruct (compile_top_fixed _ _ _ _ _ _ _ _ COMP) as (o & o' & L & F & E & R & W' & D & P & N1 & _).
  destruct (wf_pil_loads lines W VT) as [p LOAD]. destruct (seed_total lines p LOAD) as [g SEED].
  exists o, o', p, (build_layout p false), g. split; [exact L | split; [exact F | split; [exact LOAD | split; [exact SEED|]]]].
  destruct (loaded_total lines p _ g LOAD SEED) as [O|[e [w [s A]]]]; [left; exact O|]. right. exists e, w, s. split; [exact A|].
  intros nts FT. subst lines. apply (system_design_finishes o' p _ g e w s nts W' LOAD SEED A FT). Qed.

Theorem fixed_system_end_to_end_names : (forall o, load_file fs includes 12 ctr basename args "" "." = OK (o, ctr') -> names_ok2 12 o) ->
  (forall n k len, In (PSeq n k len) lines -> valid_template k = true) ->
  exists o o' p lay g, load_file fs includes 12 ctr basename args "" "." = OK (o, ctr') /\ fix_all o fixed = OK o' /\
    load_spec lines pspec0 = OK p /\ seed p false = OK (lay, g) /\
    (get_constraints p false = DOver \/
     exists e w s, get_constraints p false = DOk e w s /\
       forall nts, fits nts e w ->
         exists a recs, process_results p lay nts = OK a /\ output_records p a = OK recs /\ exists f, apply_obj 12 (table_of recs) o' = OK f).
Proof. intros N VT.
  destruct (fixed_system_end_to_end (fun o L => names_ok2_ok 12 o (N o L)) VT) as (o & o' & p & lay & g & L & F & LOAD & SEED & R).
  exists o, o', p, lay, g. split; [exact L | split; [exact F | split; [exact LOAD | split; [exact SEED|]]]]. destruct R as [O|[e [w [s [A FIN]]]]]; [left; exact O|]. right. exists e, w, s. split; [exact A|].
  intros nts FT. destruct (FIN nts FT) as [a [recs [PR [OR FN]]]]. exists a, recs. split; [exact PR | split; [exact OR|]]. apply FN.
  destruct (compile_top_fixed _ _ _ _ _ _ _ _ COMP) as (o1 & o1' & L1 & F1 & E & _ & W' & _ & P & _ & N2). rewrite L in L1. inversion L1; subst o1. rewrite F in F1. inversion F1; subst o1'. subst lines.
  apply (system_record_names_distinct o' p a recs W' P (N2 (N o L)) LOAD OR). Qed.

(* the alphabet hypothesis moved to the loaded program: the constraint strings of the loaded components are strings of
   codes; fixing keeps that (every character written by a fix is the code of an intersection) *)
Lemma vt_obj_lines : forall f o, vt_obj f o -> forall n k len, In (PSeq n k len) (emit_obj f o) -> valid_template k = true.
Proof. intros f o V n k len H. apply system_lines_match_objects in H. destruct H as [[c [Hc Hl]]|(p & comps & sigs & lens & sn & en & _ & _ & Hl)].
  - apply (inv_templates c (V c Hc) n k len Hl).
  - destruct Hl as [Q|[Q|[]]]; [|discriminate]. inversion Q; subst. clear Q. induction (match afind lens sn with Some l => l | None => 0 end) as [|m IH]; [reflexivity | exact IH]. Qed.

Theorem fixed_system_end_to_end_loaded : (forall o, load_file fs includes 12 ctr basename args "" "." = OK (o, ctr') -> names_ok2 12 o /\ vt_obj 12 o) ->
  exists o o' p lay g, load_file fs includes 12 ctr basename args "" "." = OK (o, ctr') /\ fix_all o fixed = OK o' /\
    load_spec lines pspec0 = OK p /\ seed p false = OK (lay, g) /\
    (get_constraints p false = DOver \/
     exists e w s, get_constraints p false = DOk e w s /\
       forall nts, fits nts e w ->
         exists a recs, process_results p lay nts = OK a /\ output_records p a = OK recs /\ exists f, apply_obj 12 (table_of recs) o' = OK f).
Proof. intros N. apply fixed_system_end_to_end_names; [intros o L; apply (proj1 (N o L))|].
  destruct (compile_top_fixed _ _ _ _ _ _ _ _ COMP) as (o & o' & L & F & -> & R & _). apply vt_obj_lines. apply (osame_vt 12 o o' R (proj2 (N o L))). Qed.
End Fixed.
