(* Fixed-sequence files on (nested) systems keep every invariant of a loaded system: fixing only replaces constraint
   strings of base sequences inside component instances, so the result is the same tree of instances with base tables
   of the same shape.  Hence what is proved of `load_file` results holds of `compile_top` with any fixed list. *)
From Coq Require Import List String Ascii Arith Bool ZArith Lia.
From PC Require Import Base.Sexp Base.Codes Base.Tables Comp.Syntax Comp.Compile Comp.Denote Comp.EmitProofs Comp.WfPil Comp.CompileProofs Comp.NameProofs Comp.Fix Comp.FixShape
  Sys.System Sys.SystemProofs Sys.PrefixProofs Sys.DesSys Sys.LoadWf Sys.FixFrame Sys.SysWfPil Sys.SysNames.
Import ListNotations.
Local Open Scope string_scope.
Local Open Scope list_scope.

Definition crel (R : obj -> obj -> Prop) (a b : list (string * obj)) : Prop := Forall2 (fun x y => fst x = fst y /\ R (snd x) (snd y)) a b.

Fixpoint osame (f : nat) (o o' : obj) : Prop :=
  match f with
  | O => o = o'
  | S f =>
      match o, o' with
      | OComp c, OComp c' => exists bs, c' = set_bases c bs /\ same_shape (c_bases c) bs
      | OSys p comps sigs lens i oo, OSys p' comps' sigs' lens' i' oo' =>
          p' = p /\ sigs' = sigs /\ lens' = lens /\ i' = i /\ oo' = oo /\ crel (osame f) comps comps'
      | _, _ => False
      end
  end.

Lemma crel_refl (R : obj -> obj -> Prop) l : (forall x, R x x) -> crel R l l.
Proof. intros H. induction l as [|a l IH]; constructor; auto. Qed.
Lemma crel_trans (R : obj -> obj -> Prop) a : (forall x y z, R x y -> R y z -> R x z) -> forall b c, crel R a b -> crel R b c -> crel R a c.
Proof. intros T. induction a as [|x a IH]; intros b c H1 H2; inversion H1; subst; inversion H2; subst; constructor.
  - destruct H3 as [A B], H4 as [C D]. split; [congruence | eapply T; eauto].
  - eapply IH; eauto. Qed.
Lemma crel_names (R : obj -> obj -> Prop) a b : crel R a b -> map fst b = map fst a.
Proof. induction 1 as [|x y a b [E _] _ IH]; [reflexivity|]. simpl. rewrite IH, E. reflexivity. Qed.
Lemma crel_afind (R : obj -> obj -> Prop) a b n s : crel R a b -> afind a n = Some s -> exists s', afind b n = Some s' /\ R s s'.
Proof. induction 1 as [|[n1 x] [n2 y] a b [E H] _ IH]; simpl; [discriminate|]. simpl in E, H. subst n2.
  destruct (String.eqb n1 n); [intros Q; inversion Q; subst; eauto | exact IH]. Qed.
Lemma crel_afind_none (R : obj -> obj -> Prop) a b n : crel R a b -> afind a n = None -> afind b n = None.
Proof. induction 1 as [|[n1 x] [n2 y] a b [E H] _ IH]; simpl; [auto|]. simpl in E. subst n2. destruct (String.eqb n1 n); [discriminate | exact IH]. Qed.
Lemma crel_In_r (R : obj -> obj -> Prop) a b n s' : crel R a b -> In (n, s') b -> exists s, In (n, s) a /\ R s s'.
Proof. induction 1 as [|[n1 x] [n2 y] a b [E H] _ IH]; simpl; [intros []|]. simpl in E, H. subst n2.
  intros [Q|Hin]; [inversion Q; subst; eauto | destruct (IH Hin) as [s [A B]]; eauto]. Qed.
Lemma crel_In_l (R : obj -> obj -> Prop) a b n s : crel R a b -> In (n, s) a -> exists s', In (n, s') b /\ R s s'.
Proof. induction 1 as [|[n1 x] [n2 y] a b [E H] _ IH]; simpl; [intros []|]. simpl in E, H. subst n2.
  intros [Q|Hin]; [inversion Q; subst; eauto | destruct (IH Hin) as [s0 [A B]]; eauto]. Qed.

Lemma set_bases_id c : set_bases c (c_bases c) = c. Proof. destruct c; reflexivity. Qed.
Lemma osame_refl : forall f o, osame f o o.
Proof. induction f as [|f IH]; intros o; [reflexivity|]. destruct o as [c|p comps sigs lens i oo]; simpl.
  - exists (c_bases c). split; [symmetry; apply set_bases_id | apply same_shape_refl].
  - repeat split. apply crel_refl. exact (IH). Qed.
Lemma osame_trans : forall f a b c, osame f a b -> osame f b c -> osame f a c.
Proof. induction f as [|f IH]; intros a b c H1 H2; [simpl in *; congruence|].
  destruct a as [ca|pa ma sa la ia oa], b as [cb|pb mb sb lb ib ob]; simpl in H1; try contradiction; destruct c as [cc|pc mc sc lc ic oc]; simpl in H2; try contradiction.
  - destruct H1 as [bs1 [-> S1]], H2 as [bs2 [-> S2]]. simpl in S2. simpl. exists bs2. split; [reflexivity | apply (same_shape_trans _ _ _ S1 S2)].
  - destruct H1 as (-> & -> & -> & -> & -> & C1), H2 as (-> & -> & -> & -> & -> & C2). simpl. repeat split. apply (crel_trans _ _ (IH) _ _ C1 C2). Qed.

Lemma upd_crel (R : obj -> obj -> Prop) comps cname sub sub' : (forall x, R x x) -> NoDup (map fst comps) -> afind comps cname = Some sub -> R sub sub' -> crel R comps (upd comps cname sub').
Proof. intros RR. induction comps as [|[n x] comps IH]; intros ND A H; [discriminate|]. simpl in A. inversion ND as [|? ? NI ND']; subst. unfold upd. simpl.
  destruct (String.eqb n cname) eqn:E.
  - apply String.eqb_eq in E. subst n. inversion A; subst x. constructor; [split; [reflexivity | exact H]|].
    clear IH A ND ND'. induction comps as [|[m y] comps IHc]; [constructor|]. simpl in *. destruct (String.eqb m cname) eqn:E2.
    + apply String.eqb_eq in E2. exfalso. apply NI. left. exact E2.
    + constructor; [split; [reflexivity | apply RR] | apply IHc; tauto].
  - constructor; [split; [reflexivity | apply RR] | apply (IH ND' A H)]. Qed.

(* ---------- the invariants only see the shape ---------- *)
Lemma osame_sys_wf : forall f o o', osame f o o' -> sys_wf f o -> sys_wf f o'.
Proof. induction f as [|f IH]; intros o o' S W; [destruct W|].
  destruct o as [c|p comps sigs lens i oo], o' as [c'|p' comps' sigs' lens' i' oo']; simpl in S; try contradiction.
  - destruct S as [bs [-> S]]. destruct W as [W W2]. split; [apply (shape_WF c bs S W) | apply (shape_WF2 c bs W2)].
  - destruct S as (-> & -> & -> & -> & -> & C). destruct W as [ND [SUB ENT]]. cbn [sys_wf]. split; [rewrite (crel_names _ _ _ C); exact ND|]. split.
    + intros cn sub' Hin. destruct (crel_In_r _ _ _ _ _ C Hin) as [sub [Hs R]]. apply (IH _ _ R (SUB cn sub Hs)).
    + intros sname entries Hs l cname wc He. specialize (ENT sname entries Hs l cname wc He). destruct l as [x|s].
      * destruct ENT as [c [A [L [B D]]]]. destruct (crel_afind _ _ _ _ _ C A) as [s' [A' R]].
        destruct f as [|f']; [simpl in R; subst s'; exists c; auto|]. destruct s' as [c'|]; simpl in R; [|contradiction]. destruct R as [bs [-> S]].
        exists (set_bases c bs). split; [exact A'|]. rewrite shape_ref_base, (shape_flatB c bs S). split; [exact L|]. split.
        -- intros y Hy. simpl. rewrite (shp_ahas _ _ _ (proj1 S)). apply (B y Hy).
        -- destruct x; [|exact I]. simpl. rewrite (shp_base_len _ _ _ (proj1 S)). exact D.
      * destruct ENT as (comps2 & sigs2 & lens2 & i2 & o2 & A & B & D). destruct (crel_afind _ _ _ _ _ C A) as [s' [A' R]].
        destruct f as [|f']; [simpl in R; subst s'; exists comps2, sigs2, lens2, i2, o2; auto|]. destruct s' as [|p3 comps3 sigs3 lens3 i3 o3]; simpl in R; [contradiction|].
        destruct R as (-> & -> & -> & -> & -> & _). exists comps3, sigs2, lens2, i2, o2. auto. Qed.

Lemma osame_deep_ok : forall f o o', osame f o o' -> deep_ok f o -> deep_ok f o'.
Proof. induction f as [|f IH]; intros o o' S W; [destruct W|].
  destruct o as [c|p comps sigs lens i oo], o' as [c'|p' comps' sigs' lens' i' oo']; simpl in S; try contradiction; [exact I|].
  destruct S as (-> & -> & -> & -> & -> & C). destruct W as [A [B [D E]]]. cbn [deep_ok]. split; [exact A | split; [exact B | split; [exact D|]]].
  intros cn sub' Hin. destruct (crel_In_r _ _ _ _ _ C Hin) as [sub [Hs R]]. apply (IH _ _ R (E cn sub Hs)). Qed.

Lemma osame_comp_kind : forall f a b, osame f a b -> (exists c, a = OComp c) -> exists c', b = OComp c'.
Proof. intros [|f] a b S [c ->]; simpl in S; [subst; eauto|]. destruct b; [eauto | contradiction]. Qed.

Lemma osame_wp : forall f o o' p, osame f o o' -> wp p o -> wp p o'.
Proof. induction f as [|f IH]; intros o o' p S W; [simpl in S; subst; exact W|].
  destruct o as [c|pr comps sigs lens i oo], o' as [c'|p' comps' sigs' lens' i' oo']; simpl in S; try contradiction.
  - destruct S as [bs [-> S]]. exact W.
  - destruct S as (-> & -> & -> & -> & -> & C). apply wp_sys in W. apply wp_sys. destruct W as [A [B D]]. split; [exact A|]. split.
    + intros sname entries l cname wc Hs He. specialize (B sname entries l cname wc Hs He). destruct l; [|exact I]. destruct B as [c A0].
      destruct (crel_afind _ _ _ _ _ C A0) as [s' [A' R]]. destruct (osame_comp_kind _ _ _ R (ex_intro _ c eq_refl)) as [c' ->]. eauto.
    + intros cn sub' Hin. destruct (crel_In_r _ _ _ _ _ C Hin) as [sub [Hs R]]. apply (IH _ _ _ R (D cn sub Hs)). Qed.

Lemma osame_names_ok : forall f o o', osame f o o' -> names_ok f o -> names_ok f o'.
Proof. induction f as [|f IH]; intros o o' S W; [exact I|].
  destruct o as [c|p comps sigs lens i oo], o' as [c'|p' comps' sigs' lens' i' oo']; simpl in S; try contradiction; [exact I|].
  destruct S as (-> & -> & -> & -> & -> & C). destruct W as [A B]. cbn [names_ok]. split; [|exact B].
  intros cn sub' Hin. destruct (crel_In_r _ _ _ _ _ C Hin) as [sub [Hs R]]. destruct (A cn sub Hs) as [A1 A2]. split; [exact A1 | apply (IH _ _ R A2)]. Qed.

Lemma osame_names_ok2 : forall f o o', osame f o o' -> names_ok2 f o -> names_ok2 f o'.
Proof. induction f as [|f IH]; intros o o' S W; [exact I|].
  destruct o as [c|p comps sigs lens i oo], o' as [c'|p' comps' sigs' lens' i' oo']; simpl in S; try contradiction.
  - destruct S as [bs [-> S]]. apply (shape_NI c bs S W).
  - destruct S as (-> & -> & -> & -> & -> & C). destruct W as [A B]. cbn [names_ok2]. split; [|exact B].
    intros cn sub' Hin. destruct (crel_In_r _ _ _ _ _ C Hin) as [sub [Hs R]]. destruct (A cn sub Hs) as [A1 [A2 A3]]. split; [exact A1 | split; [exact A2 | apply (IH _ _ R A3)]]. Qed.

(* ---------- each fixing operation yields the same tree ---------- *)
Lemma fix_at_osame k : (forall c n, same_shape (c_bases c) (fst (k c n))) ->
  forall f o name, sys_wf f o -> osame f o (fst (fix_at f o name k)).
Proof. intros K. induction f as [|f IH]; intros o name W; [reflexivity|]. cbn [fix_at].
  destruct o as [c|p comps sigs lens i oo].
  - pose proof (K c name) as S. destruct (k c name) as [bs st]. cbn [fst] in *. simpl. exists bs. auto.
  - destruct (first_dash name) as [[cname rest]|]; [|apply osame_refl]. destruct (afind comps cname) as [sub|] eqn:A; [|apply osame_refl].
    destruct W as [ND [SUB _]]. pose proof (IH sub rest (SUB cname sub (afind_Some_In _ _ _ A))) as R.
    destruct (fix_at f sub rest k) as [sub' st]. cbn [fst] in *. fold (upd comps cname sub'). simpl. repeat split.
    apply (upd_crel _ comps cname sub sub' (osame_refl f) ND A R). Qed.

Definition sig_go (f : nat) (p : string) (sigs : list (string * list (loc * string * bool))) (lens : list (string * nat)) (i o' : list (string * bool)) (fixed : list ascii) :=
  fix go (entries : list (loc * string * bool)) (comps : list (string * obj)) : obj * fstatus :=
    match entries with
    | [] => (OSys p comps sigs lens i o', FOk)
    | (l, cname, wc) :: rest =>
        match afind comps cname with
        | None => (OSys p comps sigs lens i o', FFail "internal")
        | Some sub =>
            let r := match l, sub with
                     | LSig s, _ => match (if wc then wc_codes fixed else Some fixed) with
                                    | Some fx => fix_signal f sub s fx
                                    | None => (sub, FKey) end
                     | LRef x, OComp c =>
                         let x' := match x with RB n _ => RB n wc | RS n _ => RS n wc end in
                         let (bs, st) :=
                           if negb (Nat.eqb (List.length fixed) (ref_len c x)) then (c_bases c, FFail "length")
                           else fix_refs (S (S (List.length (c_sups c)))) c (c_bases c) [x'] fixed in
                         (OComp (set_comp_bases c bs), st)
                     | LRef _, _ => (sub, FFail "internal")
                     end in
            let (sub', st) := r in
            let comps' := map (fun '(n, x) => if String.eqb n cname then (n, sub') else (n, x)) comps in
            match st with
            | FOk => go rest comps'
            | other => (OSys p comps' sigs lens i o', other)
            end
        end
    end.
Lemma fix_signal_S f p comps sigs lens i oo name fixed :
  fix_signal (S f) (OSys p comps sigs lens i oo) name fixed =
  match afind sigs name with None => (OSys p comps sigs lens i oo, FKey) | Some entries => sig_go f p sigs lens i oo fixed entries comps end.
Proof. reflexivity. Qed.

Lemma fix_signal_osame : forall f o name fixed, sys_wf f o -> osame f o (fst (fix_signal f o name fixed)).
Proof. induction f as [|f IH]; intros o name fixed W; [reflexivity|].
  destruct o as [c|p comps sigs lens i oo]; [apply osame_refl|]. rewrite fix_signal_S. destruct (afind sigs name) as [entries|]; [|apply osame_refl].
  destruct W as [ND [SUB _]].
  assert (G : forall ents comps1, crel (osame f) comps comps1 -> osame (S f) (OSys p comps sigs lens i oo) (fst (sig_go f p sigs lens i oo fixed ents comps1))).
  { assert (B : forall comps1, crel (osame f) comps comps1 -> osame (S f) (OSys p comps sigs lens i oo) (OSys p comps1 sigs lens i oo)) by (intros comps1 C; simpl; repeat split; exact C).
    induction ents as [|[[l cname] wc] rest IHe]; intros comps1 C; [apply B, C|]. cbn [sig_go]. fold (sig_go f p sigs lens i oo fixed).
    destruct (afind comps1 cname) as [sub|] eqn:A; [|apply B, C]. cbv zeta.
    assert (ND1 : NoDup (map fst comps1)) by (rewrite (crel_names _ _ _ C); exact ND).
    assert (W1 : sys_wf f sub).
    { destruct (crel_In_r _ _ _ _ _ C (afind_Some_In _ _ _ A)) as [s0 [H0 R0]]. apply (osame_sys_wf f s0 sub R0 (SUB cname s0 H0)). }
    match goal with |- osame _ _ (fst (let (sub', st) := ?r in _)) => assert (R : osame f sub (fst r)); [|destruct r as [sub' st]] end.
    { destruct l as [x|s].
      - destruct sub as [c|]; [|apply osame_refl].
        match goal with |- osame f _ (fst (let (bs, st) := ?r in _)) => assert (S : same_shape (c_bases c) (fst r)); [|destruct r as [bs st]] end.
        { destruct (negb _); [apply same_shape_refl | apply fix_refs_shape]. }
        cbn [fst] in *. destruct f as [|f']; [destruct W1|]. simpl. exists bs. auto.
      - destruct (if wc then wc_codes fixed else Some fixed); [apply IH, W1 | apply osame_refl]. }
    cbn [fst] in R. fold (upd comps1 cname sub').
    assert (C' : crel (osame f) comps (upd comps1 cname sub')).
    { apply (crel_trans _ _ (osame_trans f) _ _ C). apply (upd_crel _ comps1 cname sub sub' (osame_refl f) ND1 A R). }
    destruct st; [apply IHe, C' | apply B, C' | apply B, C']. }
  apply G. apply crel_refl, osame_refl. Qed.

Lemma fix_entry_osame o kind name fixed : sys_wf 12 o -> osame 12 o (fst (fix_entry o kind name fixed)).
Proof. intros W. unfold fix_entry.
  assert (K : forall kd, osame 12 o (fst (fix_at 12 o name (fun c n => fix_entry_comp c (c_bases c) kd n fixed)))).
  { intros kd. apply fix_at_osame; [|exact W]. intros c n. apply fix_entry_comp_shape. }
  destruct (is_prefix_of_word kind "sequence"); [apply K|]. destruct (is_prefix_of_word kind "signal").
  - pose proof (fix_signal_osame 12 o name fixed W) as R. destruct (fix_signal 12 o name fixed) as [o' st]. cbn [fst] in R.
    destruct st; try exact R. destruct o; [apply osame_refl|]. destruct (ahas _ name); [exact R | apply osame_refl].
  - destruct (String.eqb kind "strand"); [apply K|]. destruct (String.eqb kind "structure"); [apply K | apply osame_refl]. Qed.

Theorem fix_all_osame : forall entries o o', sys_wf 12 o -> fix_all o entries = OK o' -> osame 12 o o'.
Proof. induction entries as [|[[kind name] fixed] rest IH]; intros o o' W H; [inversion H; subst; apply osame_refl|]. cbn [fix_all] in H.
  pose proof (fix_entry_osame o kind name fixed W) as R. destruct (fix_entry o kind name fixed) as [o1 st]. cbn [fst] in R.
  destruct st; try discriminate; apply (osame_trans 12 o o1 o' R); apply (IH o1 o' (osame_sys_wf 12 o o1 R W) H). Qed.

(* whatever is loaded and then fixed keeps the invariants of loading *)
Section Top.
Variables (fs : ftable) (includes : list string) (ctr : nat) (basename : string) (args : list Z) (fixed : list (string * string * list ascii)).
Variables (lines : list pline) (ctr' : nat).
Hypothesis COMP : compile_top fs includes ctr basename args fixed = OK (lines, ctr').

Theorem compile_top_fixed : exists o o', load_file fs includes 12 ctr basename args "" "." = OK (o, ctr') /\ fix_all o fixed = OK o' /\ lines = emit_obj 12 o' /\
  osame 12 o o' /\ sys_wf 12 o' /\ deep_ok 12 o' /\ wp "" o' /\ (names_ok 12 o -> names_ok 12 o') /\ (names_ok2 12 o -> names_ok2 12 o').
Proof. unfold compile_top in COMP. destruct (load_file fs includes 12 ctr basename args "" ".") as [[o c1]|] eqn:L; [|discriminate]. cbn [bind fst snd] in COMP.
  destruct (fix_all o fixed) as [o'|] eqn:F; [|discriminate]. cbn [bind] in COMP. inversion COMP; subst. exists o, o'.
  destruct (load_file_sys_wf fs includes 12 _ _ _ _ _ _ _ L) as [W [D _]]. pose proof (fix_all_osame fixed o o' W F) as R.
  repeat split; auto.
  - apply (osame_sys_wf 12 o o' R W).
  - apply (osame_deep_ok 12 o o' R D).
  - apply (osame_wp 12 o o' "" R (load_file_wp fs includes 12 _ _ _ _ _ _ _ L)).
  - apply (osame_names_ok 12 o o' R).
  - apply (osame_names_ok2 12 o o' R). Qed.
End Top.

(* constraint strings stay strings of codes *)
From PC Require Import Design.SysFinish.
Definition vt_obj (f : nat) (o : obj) : Prop := forall c, In c (leaves f o) -> vt_ok (c_bases c).
Lemma osame_vt : forall f o o', osame f o o' -> vt_obj f o -> vt_obj f o'.
Proof. induction f as [|f IH]; intros o o' S V; [intros c []|].
  destruct o as [c|p comps sigs lens i oo], o' as [c'|p' comps' sigs' lens' i' oo']; simpl in S; try contradiction.
  - destruct S as [bs [-> S]]. intros c0 [<-|[]]. simpl. apply (proj2 (proj2 S)). apply (V c). left. reflexivity.
  - destruct S as (-> & -> & -> & -> & -> & C). intros c Hc. cbn [leaves] in Hc. apply in_flat_map in Hc. destruct Hc as [[cn sub'] [Hin Hc]].
    destruct (crel_In_r _ _ _ _ _ C Hin) as [sub [Hs R]]. apply (IH sub sub' R); [|exact Hc].
    intros c0 H0. apply V. cbn [leaves]. apply in_flat_map. exists (cn, sub). auto. Qed.

(* non-vacuity: on a nested system (a gate inside a sub-system, the port bound with a star to a signal that is bound with a
   star again) a signal entry, a qualified sequence entry and an entry for an unknown name go through; the fixed object
   differs from the loaded one, and the theorem applies *)
Example demo_fix : exists o', fix_all demo_system [("signal"%string, "s"%string, ["A"; "S"; "N"]%char); ("sequence"%string, "m-g-a"%string, ["N"; "N"; "T"]%char);
                                                    ("sequence"%string, "nosuch"%string, ["A"]%char)] = OK o' /\
  o' <> demo_system /\ sys_wf 12 demo_system /\ osame 12 demo_system o' /\
  (exists c, leaves 12 o' = [c] /\ map (fun nb => b_const (snd nb)) (c_bases c) = [["A"; "S"; "T"]%char]).
Proof. destruct (fix_all demo_system _) as [o'|] eqn:F; [|vm_compute in F; discriminate]. exists o'.
  assert (W : sys_wf 12 demo_system) by (apply sys_okb_sound; vm_compute; reflexivity).
  split; [reflexivity|]. split; [vm_compute in F; inversion F; discriminate|]. split; [exact W|]. split; [apply (fix_all_osame _ _ _ W F)|].
  vm_compute in F. inversion F; subst o'. eexists. split; reflexivity. Qed.

(* "a name that does not exist only produces a warning": such an entry leaves the object as it is and the rest of the file
   is applied as if the entry were not there *)
Theorem unknown_name_is_skipped c kind name fixed rest :
  ahas (c_bases c) name = false -> afind (c_sups c) name = None -> afind (c_strands c) name = None -> afind (c_structs c) name = None ->
  fix_all (OComp c) ((kind, name, fixed) :: rest) = fix_all (OComp c) rest.
Proof. intros A B C D. cbn [fix_all].
  assert (K : forall kd, fix_entry_comp c (c_bases c) kd name fixed = (c_bases c, FKey) \/ fix_entry_comp c (c_bases c) kd name fixed = (c_bases c, FOk)).
  { intros kd. unfold fix_entry_comp. rewrite A, B, C, D. destruct (is_prefix_of_word kd "sequence"); [left; reflexivity|].
    destruct (is_prefix_of_word kd "signal"); [left; reflexivity|]. destruct (String.eqb kd "strand"); [left; reflexivity|]. destruct (String.eqb kd "structure"); [left | right]; reflexivity. }
  assert (F : forall kd, fix_at 12 (OComp c) name (fun c0 n => fix_entry_comp c0 (c_bases c0) kd n fixed) = (OComp c, FKey) \/
                         fix_at 12 (OComp c) name (fun c0 n => fix_entry_comp c0 (c_bases c0) kd n fixed) = (OComp c, FOk)).
  { intros kd. cbn [fix_at]. destruct (K kd) as [E|E]; rewrite E; unfold set_comp_bases; rewrite set_bases_id; auto. }
  unfold fix_entry. destruct (is_prefix_of_word kind "sequence"); [destruct (F "sequence"%string) as [E|E]; rewrite E; reflexivity|].
  destruct (is_prefix_of_word kind "signal"); [reflexivity|].
  destruct (String.eqb kind "strand"); [destruct (F "strand"%string) as [E|E]; rewrite E; reflexivity|].
  destruct (String.eqb kind "structure"); [destruct (F "structure"%string) as [E|E]; rewrite E; reflexivity | reflexivity]. Qed.
