(* C12 at system level, last step: what a leaf fix does.  The component-level operation a signal fix performs at a port is the
   fix of the flattened base-sequence references of that port (reverse-complemented view when the binding is starred), left
   to right with their own slices - so C12_composite_positions applies to every leaf of C12_signal_fix_is_leaf_fixes. *)
From Coq Require Import List String Ascii Arith Bool Lia.
From PC Require Import Base.Codes Comp.Syntax Comp.Compile Comp.Denote Comp.EmitProofs Comp.CompileProofs Comp.Fix Comp.FixProofs Comp.FixComposite Sys.System Sys.LoadWf Sys.FixSignalSpec.
Import ListNotations.
Local Open Scope list_scope.

Definition restar (x : ref) (wc : bool) : ref := match x with RB n _ => RB n wc | RS n _ => RS n wc end.

Theorem leaf_fix_flat c x wc s : WF c -> port_ok c x ->
  leaf_fix x wc s c = if negb (Nat.eqb (List.length s) (ref_len c x)) then (c_bases c, FFail "length")
                      else fix_brefs (c_bases c) (ref_base c (restar x wc)) s.
Proof. intros W P. unfold leaf_fix. cbv zeta. fold (restar x wc). destruct (Nat.eqb (List.length s) (ref_len c x)) eqn:Q; [|reflexivity]. cbn [negb]. apply Nat.eqb_eq in Q.
  rewrite (fix_refs_flat c W (S (S (List.length (c_sups c)))) [restar x wc] (c_bases c) s).
  - cbn [flat_map]. rewrite app_nil_r. reflexivity.
  - intros m r [E|[]]. destruct x as [n r0|n r0]; simpl in E; [discriminate|]. inversion E; subst m r. unfold port_ok, ref_ok in P.
    apply ahas_true_In in P. apply in_map_iff in P. destruct P as [[n' s0] [E0 Hs]]. simpl in E0. subst n'.
    destruct (in_split _ _ Hs) as [pre [post E1]]. exists pre, s0, post. split; [exact E1|]. rewrite E1, app_length. simpl. lia.
  - lia.
  - intros n. reflexivity.
  - unfold tot. cbn [flat_map]. rewrite app_nil_r, Q. destruct x as [n r0|n r0]; cbn [restar ref_len ref_base].
    + unfold blens. simpl. lia.
    + unfold port_ok, ref_ok in P. apply ahas_true_In in P. apply in_map_iff in P. destruct P as [[n' s0] [E0 Hs]]. simpl in E0. subst n'.
      destruct (in_split _ _ Hs) as [pre [post E1]]. rewrite (sup_lookup c W pre n s0 post E1). rewrite (sup_len c W pre n s0 post E1).
      destruct wc; [symmetry; apply blens_rc | reflexivity]. Qed.
