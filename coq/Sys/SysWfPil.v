(* C09 / C06 / C14 at system level: the specification emitted for every system load_file accepts
   passes the well-formedness predicate wf_pil (definitions before uses, unique names, resolved
   lengths, balanced structures, `equal` lines over sequences of one length) - hence is accepted by
   the designer's loader and gets constraint arrays or the over-constraint report.  Instance and
   signal names are identifiers without '-' (what the .sys grammar yields; a boolean on the object). *)
From Coq Require Import List String Ascii Arith Bool ZArith Lia.
From PC Require Import Base.Sexp Base.Codes Comp.Syntax Comp.Struct Comp.Compile Comp.Denote Comp.EmitProofs Comp.WfCheck Comp.WfPil Comp.CompileProofs
  Subst.VarSubst Run.RC13 Run.RComp Sys.System Sys.SystemProofs Sys.PrefixProofs Sys.Des Sys.SignalProofs Sys.DesEquiv Sys.DesSys Sys.LoadWf.
Import ListNotations.
Local Open Scope string_scope.
Local Open Scope list_scope.

(* ---- running the predicate from a state that already holds unrelated definitions ---- *)
Definition wnames (w : wstate) : list string := map fst (w_env w) ++ map fst (w_strands w) ++ w_structs w.
Definition wmerge (w d : wstate) : wstate :=
  {| w_env := w_env w ++ w_env d; w_strands := w_strands w ++ w_strands d; w_structs := w_structs w ++ w_structs d |}.

Lemma afind_skip {V} (a b : list (string * V)) n : ~ In n (map fst a) -> afind (a ++ b) n = afind b n.
Proof. intros H. rewrite afind_app. destruct (afind a n) as [v|] eqn:A; [|reflexivity]. exfalso. apply H. apply afind_Some_In in A. apply in_map_iff. exists (n, v). auto. Qed.
Lemma ahas_skip {V} (a b : list (string * V)) n : ~ In n (map fst a) -> ahas (a ++ b) n = ahas b n.
Proof. intros H. unfold ahas. rewrite (afind_skip a b n H). reflexivity. Qed.
Lemma smem_skip a b n : ~ In n a -> smem n (a ++ b) = smem n b.
Proof. intros H. unfold smem. rewrite existsb_app. assert (E : existsb (String.eqb n) a = false).
  { destruct (existsb (String.eqb n) a) eqn:X; [|reflexivity]. apply existsb_exists in X. destruct X as [x [Hx E]]. apply String.eqb_eq in E. subst x. contradiction. }
  rewrite E. reflexivity. Qed.
Lemma resolve_skip (a b : penv) items : (forall n, In n (map fst items) -> ~ In n (map fst a)) -> resolve_items (a ++ b) items = resolve_items b items.
Proof. induction items as [|[n star] items IH]; intros H; [reflexivity|]. cbn [resolve_items]. rewrite (afind_skip a b n (H n (or_introl eq_refl))), IH; [reflexivity|].
  intros m Hm. apply H. right. exact Hm. Qed.
Lemma strand_lens_skip (a b : list (string * nat)) names : (forall n, In n names -> ~ In n (map fst a)) -> strand_lens (a ++ b) names = strand_lens b names.
Proof. induction names as [|n names IH]; intros H; [reflexivity|]. cbn [strand_lens]. rewrite (afind_skip a b n (H n (or_introl eq_refl))), IH; [reflexivity|].
  intros m Hm. apply H. right. exact Hm. Qed.

Lemma forallb_ext_in' {X} (f g : X -> bool) l : (forall x, In x l -> f x = g x) -> forallb f l = forallb g l.
Proof. induction l as [|x l IH]; intros H; [reflexivity|]. simpl. rewrite (H x (or_introl eq_refl)), IH; [reflexivity|]. intros y Hy. apply H. right. exact Hy. Qed.

Lemma wf_run_weaken ls : forall w d d', (forall l n, In l ls -> In n (all_names l) -> ~ In n (wnames w)) ->
  wf_run ls d = Some d' -> wf_run ls (wmerge w d) = Some (wmerge w d').
Proof. induction ls as [|l ls IH]; intros w d d' FR H; [inversion H; reflexivity|].
  assert (FR' : forall l0 n, In l0 ls -> In n (all_names l0) -> ~ In n (wnames w)) by (intros l0 n Hl Hn; apply (FR l0 n (or_intror Hl) Hn)).
  assert (F0 : forall n, In n (all_names l) -> ~ In n (wnames w)) by (intros n Hn; apply (FR l n (or_introl eq_refl) Hn)).
  assert (NE : forall n, ~ In n (wnames w) -> ~ In n (map fst (w_env w))) by (intros n Hn C; apply Hn; unfold wnames; apply in_or_app; left; exact C).
  assert (NS : forall n, ~ In n (wnames w) -> ~ In n (map fst (w_strands w))) by (intros n Hn C; apply Hn; unfold wnames; apply in_or_app; right; apply in_or_app; left; exact C).
  assert (NT : forall n, ~ In n (wnames w) -> ~ In n (w_structs w)) by (intros n Hn C; apply Hn; unfold wnames; apply in_or_app; right; apply in_or_app; right; exact C).
  destruct l as [n k len|n items len|dm n items len|o n ss s|lo hi ins outs|items]; cbn [wf_run all_names] in *; cbn [wmerge w_env w_strands w_structs].
  - rewrite (ahas_skip _ _ n (NE n (F0 n (or_introl eq_refl)))). destruct (negb (ahas (w_env d) n) && Nat.eqb (List.length k) len); [|discriminate].
    rewrite <- app_assoc. apply (IH w _ d' FR' H).
  - rewrite (resolve_skip _ _ items (fun m Hm => NE m (F0 m (or_intror Hm)))). destruct (resolve_items (w_env d) items) as [v|]; [|discriminate].
    rewrite (ahas_skip _ _ n (NE n (F0 n (or_introl eq_refl)))). destruct (negb (ahas (w_env d) n) && Nat.eqb (List.length v) len); [|discriminate].
    rewrite <- app_assoc. apply (IH w _ d' FR' H).
  - rewrite (resolve_skip _ _ items (fun m Hm => NE m (F0 m (or_intror Hm)))). destruct (resolve_items (w_env d) items) as [v|]; [|discriminate].
    unfold ahas. rewrite (afind_skip _ _ n (NS n (F0 n (or_introl eq_refl)))). fold (ahas (w_strands d) n). destruct (negb (ahas (w_strands d) n) && Nat.eqb (List.length v) len); [|discriminate].
    rewrite <- app_assoc. apply (IH w _ d' FR' H).
  - rewrite (strand_lens_skip _ _ ss (fun m Hm => NS m (F0 m (or_intror Hm)))). destruct (strand_lens (w_strands d) ss) as [lens|]; [|discriminate].
    rewrite (smem_skip _ _ n (NT n (F0 n (or_introl eq_refl)))). destruct (negb (smem n (w_structs d)) && balanced s && structure_ok s lens); [|discriminate].
    rewrite <- app_assoc. apply (IH w _ d' FR' H).
  - assert (E : forall l0, (forall x, In x l0 -> In x (ins ++ outs)) -> forallb (fun x => smem x (w_structs w ++ w_structs d)) l0 = forallb (fun x => smem x (w_structs d)) l0).
    { induction l0 as [|x l0 IHl]; intros Hl; [reflexivity|]. simpl. rewrite (smem_skip _ _ x (NT x (F0 x (Hl x (or_introl eq_refl))))), IHl; [reflexivity|]. intros y Hy. apply Hl. right. exact Hy. }
    rewrite (E ins (fun x Hx => in_or_app _ _ _ (or_introl Hx))), (E outs (fun x Hx => in_or_app _ _ _ (or_intror Hx))).
    destruct (forallb _ ins && forallb _ outs); [|discriminate]. apply (IH w d d' FR' H).
  - destruct items as [|i0 items]; [discriminate|].
    rewrite (resolve_skip _ _ [i0] (fun m Hm => NE m (F0 m ltac:(destruct Hm as [<-|[]]; left; reflexivity)))).
    destruct (resolve_items (w_env d) [i0]) as [v0|]; [|discriminate].
    assert (E : forallb (fun i => match resolve_items (w_env w ++ w_env d) [i] with Some v => Nat.eqb (List.length v) (List.length v0) | None => false end) (i0 :: items) =
                forallb (fun i => match resolve_items (w_env d) [i] with Some v => Nat.eqb (List.length v) (List.length v0) | None => false end) (i0 :: items)).
    { apply forallb_ext_in'. intros i Hi. rewrite (resolve_skip _ _ [i]); [reflexivity|]. intros m [<-|[]]. apply NE, F0. apply in_map. exact Hi. }
    rewrite E. destruct (forallb _ (i0 :: items)); [|discriminate]. apply (IH w d d' FR' H). Qed.

(* ---- one component ---- *)
Definition comp_state (c : comp) : wstate := st_structs c (c_structs c).
Lemma comp_run c : WF c -> WF2 c -> wf_run (emit_comp c) w0 = Some (comp_state c).
Proof. intros W W2.
  assert (E : emit_comp c = base_lines c (c_bases c) ++ sup_lines c (c_sups c) ++ strand_lines c (c_strands c) ++ struct_lines c (c_structs c) ++ kin_lines c)
    by reflexivity.
  rewrite E, wf_run_app.
  change w0 with (st_bases c []). rewrite (run_bases c W (c_bases c) [] eq_refl).
  rewrite wf_run_app.
  assert (S0 : st_bases c (c_bases c) = st_sups c []) by (unfold st_bases, st_sups; simpl; rewrite app_nil_r; reflexivity).
  rewrite S0, (run_sups c W (c_sups c) [] eq_refl).
  rewrite wf_run_app.
  assert (S1 : st_sups c (c_sups c) = st_strands c []) by reflexivity.
  rewrite S1, (run_strands c W W2 (c_strands c) [] eq_refl).
  rewrite wf_run_app.
  assert (S2 : st_strands c (c_strands c) = st_structs c []) by reflexivity.
  rewrite S2, (run_structs c W2 (c_structs c) [] eq_refl), (run_kins c W2). reflexivity. Qed.

Lemma comp_state_names c n : In n (wnames (comp_state c)) -> exists m, n = c_prefix c +++ m.
Proof. unfold wnames, comp_state, st_structs. cbn [w_env w_strands w_structs]. rewrite !in_app_iff. intros [H|[H|H]].
  - unfold final_env in H. rewrite map_app in H. apply in_app_or in H. destruct H as [H|H].
    + destruct (env_bases_keys c _ _ H) as [m [-> _]]. eauto.
    + destruct (env_sups_keys c _ _ H) as [m [-> _]]. eauto.
  - unfold strand_entries in H. rewrite map_map in H. apply in_map_iff in H. destruct H as [[m t] [E _]]. simpl in E. subst n. eauto.
  - apply in_map_iff in H. destruct H as [[m u] [E _]]. simpl in E. subst n. eauto. Qed.

(* a port of the right (non-zero) length resolves, starred or not, to nucleotides of that length *)
(* the nucleotides of the sequence a port names (read forward, whatever star the port carries) *)
Definition named_nts (c : comp) (x : ref) : list nt :=
  match x with
  | RB m _ => dom_nts (c_prefix c +++ m) (base_len (c_bases c) m)
  | RS m _ => match afind (c_sups c) m with Some s => flatB c (s_base s) | None => [] end
  end.
Definition orient (wc : bool) (v : list nt) : list nt := if wc then rc v else v.
Lemma orient_length wc v : List.length (orient wc v) = List.length v.
Proof. destruct wc; [apply rc_length | reflexivity]. Qed.

Lemma port_resolves c x (wc : bool) n : WF c -> List.length (flatB c (ref_base c x)) = n -> n <> 0 ->
  (forall y, In y (ref_base c x) -> ahas (c_bases c) (fst y) = true) ->
  match x with RB m _ => True | RS m _ => ahas (c_sups c) m = true end ->
  resolve_items (final_env c) [(fst (ref_name c x), wc)] = Some (orient wc (named_nts c x)) /\ List.length (named_nts c x) = n.
Proof. intros W L NZ DECL HS. destruct x as [m r|m r]; cbn [ref_name fst ref_base] in *.
  - pose proof (DECL (m, r) (or_introl eq_refl)) as A. cbn [fst] in A. unfold ahas in A. destruct (afind (c_bases c) m) as [b|] eqn:AB; [|discriminate].
    pose proof (afind_Some_In _ _ _ AB) as Hin. unfold flatB in L. simpl in L. rewrite app_nil_r, flat_bref_length in L. cbn [fst] in L. unfold base_len in L. rewrite AB in L.
    cbn [resolve_items named_nts]. rewrite (emit_named_base c W m b Hin ltac:(lia)), app_nil_r. unfold base_len. rewrite AB. split; [reflexivity | rewrite dom_nts_length; exact L].
  - unfold ahas in HS. destruct (afind (c_sups c) m) as [s|] eqn:AS; [|discriminate]. pose proof (afind_Some_In _ _ _ AS) as Hin.
    assert (LS : List.length (flatB c (s_base s)) = n) by (destruct r; [rewrite flatB_rc, rc_length in L|]; exact L).
    destruct (in_split _ _ Hin) as [pre [post E]]. pose proof (so_len c pre s (wf_sups c W pre m s post E)) as SL.
    cbn [resolve_items named_nts]. rewrite (emit_named_sup c W m s Hin ltac:(lia)), app_nil_r, AS. split; [reflexivity | exact LS]. Qed.

(* ---- a nested system ---- *)
Fixpoint names_ok (fuel : nat) (o : obj) : Prop :=
  match fuel with
  | O => True
  | S f =>
      match o with
      | OComp _ => True
      | OSys _ comps sigs _ _ _ =>
          (forall cn sub, In (cn, sub) comps -> no_dash cn /\ names_ok f sub) /\ (forall s e, In (s, e) sigs -> no_dash s)
      end
  end.

Definition env_incl (a b : penv) : Prop := forall k v, afind a k = Some v -> afind b k = Some v.
(* the nucleotides of what a binding names: a sequence of a component instance, or the signal sequence of a sub-system *)
Definition port_named (p : string) (comps : list (string * obj)) (l : loc) (cname : string) : list nt :=
  match l with
  | LRef x => match afind comps cname with Some (OComp c) => named_nts c x | _ => [] end
  | LSig s0 => match afind comps cname with
               | Some (OSys _ _ _ lens' _ _) => dom_nts (p +++ cname +++ "-" +++ s0) (lens_of lens' s0)
               | _ => [] end
  end.
(* in environment env, at every depth: a signal is a sequence of its recorded length, and every item of its `equal` line
   resolves to the nucleotides the binding names, reverse-complemented exactly when the binding is (effectively) starred *)
Fixpoint all_equal_ok (f : nat) (o : obj) (env : penv) : Prop :=
  match f with
  | O => True
  | S f' =>
      match o with
      | OComp _ => True
      | OSys q comps sigs lens _ _ =>
          (forall cn sub, In (cn, sub) comps -> all_equal_ok f' sub env) /\
          (forall s e, In (s, e) sigs -> afind env (q +++ s) = Some (dom_nts (q +++ s) (lens_of lens s)) /\
             forall l cname wc, In (l, cname, wc) e ->
               resolve_items env [(loc_name q comps l cname, wc)] = Some (orient wc (port_named q comps l cname)) /\
               List.length (port_named q comps l cname) = lens_of lens s)
      end
  end.
Lemma all_equal_ok_incl : forall f o a b, env_incl a b -> all_equal_ok f o a -> all_equal_ok f o b.
Proof. induction f as [|f IH]; intros o a b INC H; [exact I|]. destruct o as [c|q comps sigs lens i oo]; [exact I|]. cbn [all_equal_ok] in *. destruct H as [H1 H2]. split.
  - intros cn sub Hin. apply (IH sub a b INC (H1 cn sub Hin)).
  - intros s e Hin. destruct (H2 s e Hin) as [A B]. split; [apply INC, A|]. intros l cname wc He. destruct (B l cname wc He) as [R L]. split; [apply (resolve_mono _ _ _ INC _ R) | exact L]. Qed.

Definition exports (f : nat) (p : string) (o : obj) (d : wstate) : Prop :=
  match o with
  | OComp c => env_incl (final_env c) (w_env d)
  | OSys _ _ sigs lens _ _ => forall s e, In (s, e) sigs -> afind (w_env d) (p +++ s) = Some (dom_nts (p +++ s) (lens_of lens s))
  end /\ all_equal_ok f o (w_env d).
Lemma exports_incl f p o d d' : env_incl (w_env d) (w_env d') -> exports f p o d -> exports f p o d'.
Proof. intros INC [E Q]. split; [|apply (all_equal_ok_incl f o _ _ INC Q)]. destruct o as [c|pr comps sigs lens i oo]; simpl in *; [intros k v A; apply INC, E, A | intros s e H; apply INC, (E s e H)]. Qed.
Lemma wmerge_w0 w : wmerge w w0 = w.
Proof. destruct w. unfold wmerge. simpl. rewrite !app_nil_r. reflexivity. Qed.
Lemma wnames_merge a b n : In n (wnames (wmerge a b)) <-> In n (wnames a) \/ In n (wnames b).
Proof. unfold wnames, wmerge. cbn [w_env w_strands w_structs]. rewrite !map_app, !in_app_iff. tauto. Qed.
Lemma afind_in_names (w : wstate) k v : afind (w_env w) k = Some v -> In k (wnames w).
Proof. intros A. unfold wnames. apply in_or_app. left. apply afind_Some_In in A. apply in_map_iff. exists (k, v). auto. Qed.
Lemma no_dash_split s a b : no_dash s -> s <> a +++ "-" +++ b.
Proof. intros N E. apply N. rewrite E. clear. induction a as [|ch a IH]; simpl; [left; reflexivity | right; exact IH]. Qed.

Lemma NoDup_app_disj' {X} (a b : list X) : NoDup (a ++ b) -> forall x, In x a -> In x b -> False.
Proof. induction a as [|y a IH]; intros ND x Ha Hb; [destruct Ha|]. simpl in ND. inversion ND as [|? ? H1 H2]; subst. destruct Ha as [->|Ha]; [apply H1, in_or_app; right; exact Hb | apply (IH H2 x Ha Hb)]. Qed.

Section OneLevel.
Variables (f : nat) (p : string) (comps : list (string * obj)) (sigs : list (string * list (loc * string * bool))) (lens : list (string * nat)).
Hypothesis NDC : NoDup (map fst comps).
Hypothesis NDS : NoDup (map fst sigs).
Hypothesis DASHC : forall cn sub, In (cn, sub) comps -> no_dash cn.
Hypothesis DASHS : forall s e, In (s, e) sigs -> no_dash s.
Hypothesis WPC : forall cn sub, In (cn, sub) comps -> wp (p +++ cn +++ "-") sub.
(* what the induction over the nesting provides for every instance *)
Hypothesis SUBRUN : forall cn sub, In (cn, sub) comps ->
  exists d, wf_run (emit_obj f sub) w0 = Some d /\ (forall n, In n (wnames d) -> exists m, n = (p +++ cn +++ "-") +++ m) /\ exports f (p +++ cn +++ "-") sub d.

Definition inst_name (names : list string) (n : string) : Prop := exists cn m, In cn names /\ n = (p +++ cn +++ "-") +++ m.

Lemma comps_run : forall rest done acc, comps = done ++ rest ->
  (forall n, In n (wnames acc) -> inst_name (map fst done) n) ->
  (forall cn sub, In (cn, sub) done -> exports f (p +++ cn +++ "-") sub acc) ->
  exists acc', wf_run (flat_map (fun '(_, sub) => emit_obj f sub) rest) acc = Some acc' /\
    (forall n, In n (wnames acc') -> inst_name (map fst comps) n) /\
    (forall cn sub, In (cn, sub) comps -> exports f (p +++ cn +++ "-") sub acc').
Proof. induction rest as [|[cn sub] rest IH]; intros done acc E NA EX.
  - rewrite app_nil_r in E. subst done. exists acc. split; [reflexivity | split; assumption].
  - assert (Hin : In (cn, sub) comps) by (rewrite E; apply in_or_app; right; left; reflexivity).
    destruct (SUBRUN cn sub Hin) as [d [RUN [ND EXD]]].
    assert (NIN : ~ In cn (map fst done)).
    { rewrite E, map_app in NDC. simpl in NDC. intros C. apply (NoDup_app_disj' _ _ NDC cn C). left. reflexivity. }
    assert (FRESH : forall n, In n (wnames acc) -> forall m, n <> (p +++ cn +++ "-") +++ m).
    { intros n Hn m EQ. destruct (NA n Hn) as [cn' [m' [Hc' E']]]. rewrite EQ in E'.
      apply in_map_iff in Hc'. destruct Hc' as [[c0 s0] [Ec Hc0]]. simpl in Ec. subst c0.
      apply (instances_disjoint p cn cn' m m' (DASHC cn sub Hin) (DASHC cn' s0 ltac:(rewrite E; apply in_or_app; left; exact Hc0))); [|exact E'].
      intros ->. apply NIN. apply in_map_iff. exists (cn', s0). auto. }
    assert (R1 : wf_run (emit_obj f sub) acc = Some (wmerge acc d)).
    { rewrite <- (wmerge_w0 acc) at 1. apply (wf_run_weaken (emit_obj f sub) acc w0 d); [|exact RUN].
      intros l n Hl Hn C. destruct (emit_obj_prefixed f _ sub (WPC cn sub Hin) l n Hl Hn) as [m ->]. apply (FRESH _ C m eq_refl). }
    cbn [flat_map]. rewrite wf_run_app, R1.
    apply (IH (done ++ [(cn, sub)]) (wmerge acc d)).
    + rewrite <- app_assoc. exact E.
    + intros n Hn. apply wnames_merge in Hn. rewrite map_app. destruct Hn as [Hn|Hn].
      * destruct (NA n Hn) as [c1 [m1 [H1 E1]]]. exists c1, m1. split; [apply in_or_app; left; exact H1 | exact E1].
      * destruct (ND n Hn) as [m ->]. exists cn, m. split; [apply in_or_app; right; left; reflexivity | reflexivity].
    + intros c1 s1 H1. apply in_app_or in H1. destruct H1 as [H1|[Q|[]]].
      * apply (exports_incl _ _ _ acc); [|apply (EX c1 s1 H1)]. intros k v A. cbn [wmerge w_env]. apply afind_app_l, A.
      * inversion Q; subst c1 s1. apply (exports_incl _ _ _ d); [|exact EXD]. intros k v A. cbn [wmerge w_env]. rewrite afind_skip; [exact A|].
        intros C. destruct (ND k (afind_in_names d k v A)) as [m ->]. apply (FRESH _ ltac:(unfold wnames; apply in_or_app; left; exact C) m eq_refl). Qed.
End OneLevel.

Section Signals.
Variables (f : nat) (p : string) (comps : list (string * obj)) (sigs : list (string * list (loc * string * bool))) (lens : list (string * nat)).
Hypothesis NDS : NoDup (map fst sigs).
Hypothesis DASHC : forall cn sub, In (cn, sub) comps -> no_dash cn.
Hypothesis DASHS : forall s e, In (s, e) sigs -> no_dash s.
Hypothesis WFC : forall cn c, In (cn, OComp c) comps -> WF c.
Hypothesis LENZ : forall s e, In (s, e) sigs -> lens_of lens s <> 0.
Hypothesis ENT : forall sname entries, In (sname, entries) sigs -> forall l cname wc, In (l, cname, wc) entries ->
  match l with
  | LRef x => exists c, afind comps cname = Some (OComp c) /\ List.length (flatB c (ref_base c x)) = lens_of lens sname /\
                (forall y, In y (ref_base c x) -> ahas (c_bases c) (fst y) = true) /\
                match x with RB n _ => base_len (c_bases c) n <> 0 | RS _ _ => True end
  | LSig s => exists comps' sigs' lens' i' o', afind comps cname = Some (OSys (p +++ cname +++ "-") comps' sigs' lens' i' o') /\
                ahas sigs' s = true /\ lens_of lens' s = lens_of lens sname
  end.

Definition sig_plines (se : string * list (loc * string * bool)) : list pline :=
  let '(sname, entries) := se in
  let len := match afind lens sname with Some l => l | None => 0 end in
  [PSeq (p +++ sname) (repeat "N"%char len) len;
   PEqual ((p +++ sname, false) :: map (fun '(l, cname, wc) => (loc_name p comps l cname, wc)) entries)].

Definition st_name (done : list string) (n : string) : Prop := inst_name p (map fst comps) n \/ exists s, In s done /\ n = p +++ s.

Lemma entry_resolves st sname entries l cname wc : In (sname, entries) sigs -> In (l, cname, wc) entries ->
  (forall cn sub, In (cn, sub) comps -> exports f (p +++ cn +++ "-") sub st) ->
  resolve_items (w_env st) [(loc_name p comps l cname, wc)] = Some (orient wc (port_named p comps l cname)) /\ List.length (port_named p comps l cname) = lens_of lens sname.
Proof. intros Hs He EX. pose proof (ENT sname entries Hs l cname wc He) as EW. pose proof (LENZ sname entries Hs) as NZ. destruct l as [x|s0]; cbn [loc_name port_named].
  - destruct EW as [c [AC [L [DECL NZB]]]]. rewrite AC. pose proof (afind_Some_In _ _ _ AC) as Hin.
    assert (HS : match x with RB m _ => True | RS m _ => ahas (c_sups c) m = true end).
    { destruct x as [m r|m r]; [exact I|]. unfold ahas. cbn [ref_base] in L. destruct (afind (c_sups c) m); [reflexivity|]. simpl in L. congruence. }
    destruct (port_resolves c x wc _ (WFC cname c Hin) L NZ DECL HS) as [R Lv]. split; [|exact Lv].
    apply (resolve_mono _ _ _ (proj1 (EX cname (OComp c) Hin)) _ R).
  - destruct EW as [comps' [sigs' [lens' [i' [o' [AC [HS L]]]]]]]. pose proof (afind_Some_In _ _ _ AC) as Hin.
    pose proof (proj1 (EX cname _ Hin)) as E. cbn beta iota in E. unfold ahas in HS. destruct (afind sigs' s0) as [e0|] eqn:A0; [|discriminate]. apply afind_Some_In in A0.
    pose proof (E s0 e0 A0) as F. rewrite append_assoc4 in F. cbn [resolve_items]. rewrite AC, F, app_nil_r. split; [reflexivity|].
    rewrite dom_nts_length; exact L. Qed.

Lemma sigs_run : forall rest done st, sigs = done ++ rest ->
  (forall n, In n (wnames st) -> st_name (map fst done) n) ->
  (forall cn sub, In (cn, sub) comps -> exports f (p +++ cn +++ "-") sub st) ->
  (forall s e, In (s, e) done -> afind (w_env st) (p +++ s) = Some (dom_nts (p +++ s) (lens_of lens s)) /\
     forall l cname wc, In (l, cname, wc) e ->
       resolve_items (w_env st) [(loc_name p comps l cname, wc)] = Some (orient wc (port_named p comps l cname)) /\ List.length (port_named p comps l cname) = lens_of lens s) ->
  exists st', wf_run (flat_map sig_plines rest) st = Some st' /\
    (forall n, In n (wnames st') -> st_name (map fst sigs) n) /\ env_incl (w_env st) (w_env st') /\
    (forall s e, In (s, e) sigs -> afind (w_env st') (p +++ s) = Some (dom_nts (p +++ s) (lens_of lens s)) /\
       forall l cname wc, In (l, cname, wc) e ->
         resolve_items (w_env st') [(loc_name p comps l cname, wc)] = Some (orient wc (port_named p comps l cname)) /\ List.length (port_named p comps l cname) = lens_of lens s).
Proof. induction rest as [|[sname entries] rest IH]; intros done st E NA EX SG.
  - rewrite app_nil_r in E. subst done. exists st. split; [reflexivity | split; [assumption | split; [intros k v A; exact A | assumption]]].
  - assert (Hs : In (sname, entries) sigs) by (rewrite E; apply in_or_app; right; left; reflexivity).
    assert (NIN : ~ In sname (map fst done)).
    { rewrite E, map_app in NDS. simpl in NDS. intros C. apply (NoDup_app_disj' _ _ NDS sname C). left. reflexivity. }
    assert (FR : ~ In (p +++ sname) (wnames st)).
    { intros C. destruct (NA _ C) as [[cn [m [Hc Em]]]|[s [Hd Es]]].
      - rewrite append_assoc3 in Em. apply append_cancel_l in Em. rewrite append_assoc3 in Em. apply (no_dash_split sname cn m (DASHS sname entries Hs) Em).
      - apply append_cancel_l in Es. subst s. exact (NIN Hd). }
    assert (AH : ahas (w_env st) (p +++ sname) = false).
    { unfold ahas. destruct (afind (w_env st) (p +++ sname)) as [v|] eqn:A; [|reflexivity]. exfalso. apply FR. apply (afind_in_names st _ v A). }
    cbn [flat_map sig_plines app]. fold (lens_of lens sname). set (len := lens_of lens sname). set (sg := p +++ sname).
    cbn [wf_run]. fold sg in AH. rewrite AH, repeat_length, Nat.eqb_refl. cbn [negb andb].
    set (st1 := {| w_env := w_env st ++ [(sg, dom_nts sg len)]; w_strands := w_strands st; w_structs := w_structs st |}).
    assert (INC : env_incl (w_env st) (w_env st1)) by (intros k v A; cbn [st1 w_env]; apply afind_app_l, A).
    assert (ASG : afind (w_env st1) sg = Some (dom_nts sg len)).
    { cbn [st1 w_env]. rewrite afind_app. unfold ahas in AH. destruct (afind (w_env st) sg); [discriminate|]. simpl. rewrite String.eqb_refl. reflexivity. }
    assert (R0 : resolve_items (w_env st1) [(sg, false)] = Some (dom_nts sg len)) by (cbn [resolve_items]; rewrite ASG, app_nil_r; reflexivity).
    fold st1. rewrite R0.
    assert (ALL : forallb (fun i => match resolve_items (w_env st1) [i] with Some v => Nat.eqb (List.length v) (List.length (dom_nts sg len)) | None => false end)
                    ((sg, false) :: map (fun '(l, cname, wc) => (loc_name p comps l cname, wc)) entries) = true).
    { apply forallb_forall. intros i [<-|Hi].
      - rewrite R0. apply Nat.eqb_refl.
      - apply in_map_iff in Hi. destruct Hi as [[[l cname] wc] [<- He]].
        destruct (entry_resolves st sname entries l cname wc Hs He EX) as [R Lv].
        rewrite (resolve_mono _ _ _ INC _ R), orient_length, Lv, dom_nts_length. apply Nat.eqb_refl. }
    rewrite ALL.
    destruct (IH (done ++ [(sname, entries)]) st1) as [st' [RUN [NA' [INC' SG']]]].
    + rewrite <- app_assoc. exact E.
    + intros n Hn. unfold wnames in Hn. cbn [st1 w_env w_strands w_structs] in Hn. rewrite map_app, !in_app_iff in Hn. rewrite map_app.
      destruct Hn as [[Hn|[<-|[]]]|Hn].
      * destruct (NA n ltac:(unfold wnames; rewrite !in_app_iff; left; exact Hn)) as [I1|[s [Hd Es]]]; [left; exact I1 | right; exists s; split; [apply in_or_app; left; exact Hd | exact Es]].
      * right. exists sname. split; [apply in_or_app; right; left; reflexivity | reflexivity].
      * destruct (NA n ltac:(unfold wnames; rewrite !in_app_iff; right; exact Hn)) as [I1|[s [Hd Es]]]; [left; exact I1 | right; exists s; split; [apply in_or_app; left; exact Hd | exact Es]].
    + intros cn sub Hin. apply (exports_incl _ _ _ st _ INC (EX cn sub Hin)).
    + intros s e Hse. apply in_app_or in Hse. destruct Hse as [Hse|[Q|[]]].
      * destruct (SG s e Hse) as [A B]. split; [apply INC, A|]. intros l cname wc He. destruct (B l cname wc He) as [R L]. split; [apply (resolve_mono _ _ _ INC _ R) | exact L].
      * inversion Q; subst s e. split; [exact ASG|]. intros l cname wc He. destruct (entry_resolves st sname entries l cname wc Hs He EX) as [R L].
        split; [apply (resolve_mono _ _ _ INC _ R) | exact L].
    + exists st'. split; [exact RUN | split; [exact NA' | split; [intros k v A; apply INC', INC, A | exact SG']]]. Qed.
End Signals.

Theorem sys_run : forall f o p, sys_wf f o -> deep_ok f o -> wp p o -> names_ok f o ->
  exists d, wf_run (emit_obj f o) w0 = Some d /\ (forall n, In n (wnames d) -> exists m, n = p +++ m) /\ exports f p o d.
Proof. induction f as [|f IH]; intros o p W D WP N; [destruct W|]. destruct o as [c|pr comps sigs lens i oo].
  - cbn [sys_wf] in W. destruct W as [W W2]. simpl in WP. exists (comp_state c). split; [apply (comp_run c W W2)|]. split.
    + intros n Hn. destruct (comp_state_names c n Hn) as [m ->]. rewrite WP. eauto.
    + split; [simpl; intros k v A; exact A | exact I].
  - apply wp_sys in WP. destruct WP as [-> [SO WA]]. cbn [sys_wf] in W. destruct W as [NDC [WFS WFE]].
    cbn [deep_ok] in D. destruct D as [SS [LN [NDS DS]]]. cbn [names_ok] in N. destruct N as [NC NSg].
    assert (SUBRUN : forall cn sub, In (cn, sub) comps ->
      exists d, wf_run (emit_obj f sub) w0 = Some d /\ (forall n, In n (wnames d) -> exists m, n = (p +++ cn +++ "-") +++ m) /\ exports f (p +++ cn +++ "-") sub d).
    { intros cn sub Hin. apply (IH sub (p +++ cn +++ "-") (WFS cn sub Hin) (DS cn sub Hin) (WA cn sub Hin) (proj2 (NC cn sub Hin))). }
    destruct (comps_run f p comps NDC (fun cn sub H => proj1 (NC cn sub H)) WA SUBRUN comps [] w0 eq_refl (fun n (H : In n (wnames w0)) => match H with end) (fun cn sub (H : In (cn, sub) []) => match H with end))
      as [acc [RA [NA EX]]].
    assert (WFC : forall cn c, In (cn, OComp c) comps -> WF c).
    { intros cn c Hin. pose proof (WFS cn _ Hin) as X. destruct f as [|f']; [destruct X | cbn [sys_wf] in X; apply X]. }
    assert (LENZ : forall s e, In (s, e) sigs -> lens_of lens s <> 0).
    { intros s e Hin. destruct (LN s e Hin) as [len A]. unfold lens_of. rewrite A. apply (SS s len A). }
    destruct (sigs_run f p comps sigs lens NDS NSg WFC LENZ WFE sigs [] acc eq_refl (fun n Hn => or_introl (NA n Hn)) EX (fun s e (H : In (s, e) []) => match H with end))
      as [st [RS [NS [INC SG]]]].
    exists st. split; [|split].
    + change (emit_obj (S f) (OSys p comps sigs lens i oo)) with (flat_map (fun '(_, sub) => emit_obj f sub) comps ++ flat_map (sig_plines p comps lens) sigs).
      rewrite wf_run_app, RA. exact RS.
    + intros n Hn. destruct (NS n Hn) as [[cn [m [_ ->]]]|[s [_ ->]]]; [|eauto]. exists (cn +++ "-" +++ m). rewrite !append_assoc3. reflexivity.
    + split; [intros s e Hin; apply (SG s e Hin)|]. cbn [all_equal_ok]. split; [|exact SG].
      intros cn sub Hin. apply (all_equal_ok_incl f sub _ _ INC (proj2 (EX cn sub Hin))). Qed.

(* ---- whatever load_file accepts ---- *)
Theorem loaded_system_wf_pil fs includes ctr b args o ctr' : load_file fs includes 12 ctr b args "" "." = OK (o, ctr') ->
  names_ok 12 o -> wf_pil (emit_obj 12 o) = true.
Proof. intros L N. destruct (load_file_sys_wf fs includes 12 _ _ _ _ _ _ _ L) as [W [D _]].
  destruct (sys_run 12 o "" W D (load_file_wp fs includes 12 _ _ _ _ _ _ _ L) N) as [d [R _]]. unfold wf_pil. rewrite R. reflexivity. Qed.

(* the boolean form of the name hypothesis (identifiers of the .sys grammar contain no '-') *)
Definition no_dashb (s : string) : bool := negb (existsb (Ascii.eqb "-"%char) (chars s)).
Lemma no_dashb_sound s : no_dashb s = true -> no_dash s.
Proof. unfold no_dashb, no_dash. intros H C. apply negb_true_iff in H. assert (X : existsb (Ascii.eqb "-"%char) (chars s) = true) by (apply existsb_exists; exists "-"%char; split; [exact C | apply Ascii.eqb_refl]). congruence. Qed.
Fixpoint names_okb (fuel : nat) (o : obj) : bool :=
  match fuel with
  | O => true
  | S f =>
      match o with
      | OComp _ => true
      | OSys _ comps sigs _ _ _ => forallb (fun cs => no_dashb (fst cs) && names_okb f (snd cs)) comps && forallb (fun se => no_dashb (fst se)) sigs
      end
  end.
Lemma names_okb_sound : forall f o, names_okb f o = true -> names_ok f o.
Proof. induction f as [|f IH]; intros o H; [exact I|]. destruct o as [c|pr comps sigs lens i oo]; [exact I|]. cbn [names_okb names_ok] in *.
  apply andb_prop in H. destruct H as [H1 H2]. rewrite forallb_forall in H1, H2. split.
  - intros cn sub Hin. specialize (H1 (cn, sub) Hin). cbn [fst snd] in H1. apply andb_prop in H1. destruct H1 as [A B]. split; [apply no_dashb_sound, A | apply IH, B].
  - intros s e Hin. apply no_dashb_sound. apply (H2 (s, e) Hin). Qed.

(* ---- C02, the signal clause as a statement about the emitted document ---- *)
Theorem loaded_system_equal_lines fs includes ctr b args o ctr' : load_file fs includes 12 ctr b args "" "." = OK (o, ctr') -> names_ok 12 o ->
  exists d, wf_run (emit_obj 12 o) w0 = Some d /\ all_equal_ok 12 o (w_env d).
Proof. intros L N. destruct (load_file_sys_wf fs includes 12 _ _ _ _ _ _ _ L) as [W [D _]].
  destruct (sys_run 12 o "" W D (load_file_wp fs includes 12 _ _ _ _ _ _ _ L) N) as [d [R [_ [_ Q]]]]. exists d. split; [exact R | exact Q]. Qed.

(* what an `equal` line says: every further item denotes, nucleotide by nucleotide, the same bases as the first *)
Definition equal_holds (v : valuation) (env : penv) (items : list (string * bool)) : Prop :=
  match items with
  | [] => True
  | i0 :: rest => forall i, In i rest -> exists a b, resolve_items env [i0] = Some a /\ resolve_items env [i] = Some b /\ seqval v b = seqval v a
  end.

(* for a signal whose line resolves as all_equal_ok says: the line holds exactly when every bound port reads the signal,
   or its reverse complement when the binding is (effectively) starred *)
Theorem equal_line_meaning v env q comps lens s entries :
  afind env (q +++ s) = Some (dom_nts (q +++ s) (lens_of lens s)) ->
  (forall l cname wc, In (l, cname, wc) entries ->
     resolve_items env [(loc_name q comps l cname, wc)] = Some (orient wc (port_named q comps l cname)) /\
     List.length (port_named q comps l cname) = lens_of lens s) ->
  (equal_holds v env ((q +++ s, false) :: map (fun '(l, cname, wc) => (loc_name q comps l cname, wc)) entries) <->
   forall l cname wc, In (l, cname, wc) entries ->
     seqval v (port_named q comps l cname) = if wc then rcb (seqval v (dom_nts (q +++ s) (lens_of lens s))) else seqval v (dom_nts (q +++ s) (lens_of lens s))).
Proof. intros A E. set (sg := dom_nts (q +++ s) (lens_of lens s)) in *.
  assert (R0 : resolve_items env [(q +++ s, false)] = Some sg) by (cbn [resolve_items]; rewrite A, app_nil_r; reflexivity).
  unfold equal_holds. split.
  - intros H l cname wc He. destruct (H (loc_name q comps l cname, wc)) as [a [b [Ra [Rb EQ]]]].
    { apply in_map_iff. exists (l, cname, wc). auto. }
    rewrite R0 in Ra. inversion Ra; subst a. rewrite (proj1 (E l cname wc He)) in Rb. inversion Rb; subst b.
    destruct wc; cbn [orient] in EQ; [|exact EQ]. rewrite seqval_rc in EQ. rewrite <- EQ, rcb_invol. reflexivity.
  - intros H i Hi. apply in_map_iff in Hi. destruct Hi as [[[l cname] wc] [<- He]]. exists sg, (orient wc (port_named q comps l cname)).
    split; [exact R0 | split; [apply (E l cname wc He)|]]. specialize (H l cname wc He). destruct wc; cbn [orient]; [|exact H]. rewrite seqval_rc, H, rcb_invol. reflexivity. Qed.
