(* C18, last clause: a document that passes wf_pil defines every sequence / super-sequence name once, every strand name
   once and every structure name once - so within one output of the compiler (component, nested system, with or without
   a fixed-sequence file) all object names of a kind are unique. *)
From Coq Require Import List String Ascii Arith Bool.
From PC Require Import Base.Codes Comp.Syntax Comp.Compile Comp.Denote Comp.WfPil Sys.SysNames.
Import ListNotations.
Local Open Scope list_scope.

Definition strand_line_names (ls : list pline) : list string :=
  flat_map (fun l => match l with PStrand _ n _ _ => [n] | _ => [] end) ls.

Lemma ahas_false_notin' {V} (t : list (string * V)) k : ahas t k = false -> ~ In k (map fst t).
Proof. unfold ahas. induction t as [|[m v] t IH]; simpl; [auto|]. destruct (String.eqb m k) eqn:E; [discriminate|]. intros H [Q|Hin]; [subst; rewrite String.eqb_refl in E; discriminate | apply (IH H Hin)]. Qed.
Lemma smem_false_notin x l : smem x l = false -> ~ In x l.
Proof. unfold smem. intros H Hin. assert (X : existsb (String.eqb x) l = true) by (apply existsb_exists; exists x; split; [exact Hin | apply String.eqb_refl]). congruence. Qed.
Lemma NoDup_snoc' {A} (l : list A) x : NoDup l -> ~ In x l -> NoDup (l ++ [x]).
Proof. intros ND NI. induction l as [|a l IH]; simpl; [constructor; [intros []|constructor]|]. inversion ND; subst. constructor.
  - rewrite in_app_iff. intros [H|[H|[]]]; [contradiction | subst; apply NI; left; reflexivity].
  - apply IH; [assumption | intros H; apply NI; right; exact H]. Qed.

Record UQ (w : wstate) : Prop := { uq_env : NoDup (map fst (w_env w)); uq_str : NoDup (map fst (w_strands w)); uq_stc : NoDup (w_structs w) }.

Lemma wf_run_names : forall lines w w', wf_run lines w = Some w' -> UQ w ->
  UQ w' /\ map fst (w_env w') = map fst (w_env w) ++ seq_line_names lines /\
  map fst (w_strands w') = map fst (w_strands w) ++ strand_line_names lines /\ w_structs w' = w_structs w ++ struct_line_names lines.
Proof. induction lines as [|l r IH]; intros w w' H U.
  - inversion H; subst. simpl. rewrite !app_nil_r. auto.
  - destruct U as [U1 U2 U3]. destruct l as [n k len|n its len|d n its len|o n ss s|lo hi ins outs|items]; cbn [wf_run] in H.
    + destruct (ahas (w_env w) n) eqn:A; [discriminate|]. cbn [negb andb] in H. destruct (Nat.eqb _ len); [|discriminate].
      apply IH in H; [|constructor; simpl; auto; rewrite map_app; apply NoDup_snoc'; [exact U1 | apply ahas_false_notin', A]].
      destruct H as [U' [E1 [E2 E3]]]. simpl in *. rewrite map_app in E1. simpl in E1. rewrite <- app_assoc in E1. auto.
    + destruct (resolve_items (w_env w) its); [|discriminate]. destruct (ahas (w_env w) n) eqn:A; [discriminate|]. cbn [negb andb] in H. destruct (Nat.eqb _ len); [|discriminate].
      apply IH in H; [|constructor; simpl; auto; rewrite map_app; apply NoDup_snoc'; [exact U1 | apply ahas_false_notin', A]].
      destruct H as [U' [E1 [E2 E3]]]. simpl in *. rewrite map_app in E1. simpl in E1. rewrite <- app_assoc in E1. auto.
    + destruct (resolve_items (w_env w) its); [|discriminate]. destruct (ahas (w_strands w) n) eqn:A; [discriminate|]. cbn [negb andb] in H. destruct (Nat.eqb _ len); [|discriminate].
      apply IH in H; [|constructor; simpl; auto; rewrite map_app; apply NoDup_snoc'; [exact U2 | apply ahas_false_notin', A]].
      destruct H as [U' [E1 [E2 E3]]]. simpl in *. rewrite map_app in E2. simpl in E2. rewrite <- app_assoc in E2. auto.
    + destruct (strand_lens (w_strands w) ss); [|discriminate]. destruct (smem n (w_structs w)) eqn:A; [discriminate|]. cbn [negb andb] in H. destruct (_ && _); [|discriminate].
      apply IH in H; [|constructor; simpl; auto; apply NoDup_snoc'; [exact U3 | apply smem_false_notin, A]].
      destruct H as [U' [E1 [E2 E3]]]. simpl in *. rewrite <- app_assoc in E3. auto.
    + destruct (_ && _); [|discriminate]. apply IH in H; [|constructor; auto]. exact H.
    + destruct items as [|i0 its]; [discriminate|]. destruct (resolve_items (w_env w) [i0]); [|discriminate]. destruct (forallb _ _); [|discriminate].
      apply IH in H; [|constructor; auto]. exact H. Qed.

Theorem wf_pil_names_unique ls : wf_pil ls = true ->
  NoDup (seq_line_names ls) /\ NoDup (strand_line_names ls) /\ NoDup (struct_line_names ls).
Proof. unfold wf_pil. destruct (wf_run ls w0) as [w'|] eqn:R; [|discriminate]. intros _.
  destruct (wf_run_names ls w0 w' R) as [[U1 U2 U3] [E1 [E2 E3]]]; [constructor; constructor|]. simpl in *. rewrite E1 in U1. rewrite E2 in U2. rewrite E3 in U3. auto. Qed.
