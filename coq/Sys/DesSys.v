(* C03, a whole nested system: for a .des document in which no sequence and no structure is
   defined twice, a nucleotide assignment satisfies the document written for a well-formed system
   exactly when it satisfies every component's own constraints, every signal's auxiliary sequence is
   the reverse complement of the signal, and every port bound to a signal equals the signal, or is
   its reverse complement when the binding is starred - through any depth of nesting. *)
From Coq Require Import List String Ascii Arith Bool Lia.
From PC Require Import Base.Codes Comp.Syntax Comp.Compile Comp.Denote Comp.EmitProofs Comp.WfCheck Comp.WfPil Comp.CompileProofs Design.Designer Design.DGraph Design.DenoteGraph Design.DenoteTie
  Sys.System Sys.Des Sys.DesProofs Sys.SignalProofs Sys.DesEquiv.
Import ListNotations.
Local Open Scope list_scope.

(* ---- a document and its parts ---- *)
Definition des_sat_lines (v : valuation) (D L : list dline) : Prop :=
  (forall n const i ch, In (DSeq n const) L -> nth_error const i = Some ch -> allows ch (v n i)) /\
  (forall n seqs s, In (DAssign n seqs) L -> In (DStruct n s) D ->
     exists X B, resolve_items (des_env D) seqs = Some X /\ get_bonds s = OK B /\ sat_bonds v X B).
Lemma des_sat_whole v D : des_sat v D <-> des_sat_lines v D D.
Proof. reflexivity. Qed.
Lemma des_sat_lines_app v D a b : des_sat_lines v D (a ++ b) <-> des_sat_lines v D a /\ des_sat_lines v D b.
Proof. unfold des_sat_lines. split.
  - intros [T S]. split; (split; [intros n const i ch H; apply T; apply in_or_app; auto | intros n seqs s H; apply S; apply in_or_app; auto]).
  - intros [[T1 S1] [T2 S2]]. split.
    + intros n const i ch H. apply in_app_or in H. destruct H; [apply T1 | apply T2]; assumption.
    + intros n seqs s H. apply in_app_or in H. destruct H; [apply S1 | apply S2]; assumption. Qed.
Lemma des_sat_lines_flat {X} v D (f : X -> list dline) l :
  des_sat_lines v D (flat_map f l) <-> forall x, In x l -> des_sat_lines v D (f x).
Proof. induction l as [|x l IH]; simpl.
  - split; [intros _ x [] | intros _; split; [intros ? ? ? ? [] | intros ? ? ? []]].
  - rewrite des_sat_lines_app, IH. split; [intros [A B] y [<-|Hy]; auto | intros H; split; [apply H; left; reflexivity | intros y Hy; apply H; right; exact Hy]]. Qed.

Definition dstruct_names (D : list dline) : list string := flat_map (fun l => match l with DStruct n _ => [n] | _ => [] end) D.
Lemma in_dstruct_names D n s : In (DStruct n s) D -> In n (dstruct_names D).
Proof. intros H. unfold dstruct_names. apply in_flat_map. exists (DStruct n s). split; [exact H | left; reflexivity]. Qed.
Lemma struct_unique D : NoDup (dstruct_names D) -> forall n s s', In (DStruct n s) D -> In (DStruct n s') D -> s = s'.
Proof. induction D as [|l D IH]; intros ND n s s' H H'; [destruct H|]. unfold dstruct_names in ND. simpl in ND. fold (dstruct_names D) in ND.
  destruct H as [H|H], H' as [H'|H'].
  - subst l. inversion H'. reflexivity.
  - subst l. simpl in ND. inversion ND as [|? ? NI _]. exfalso. apply NI. apply (in_dstruct_names D n s' H').
  - subst l. simpl in ND. inversion ND as [|? ? NI _]. exfalso. apply NI. apply (in_dstruct_names D n s H).
  - apply (IH ltac:(destruct l; simpl in ND; try exact ND; inversion ND; assumption) n s s' H H'). Qed.

Lemma env_lookup D n const : NoDup (map fst (des_env D)) -> In (DSeq n const) D -> afind (des_env D) n = Some (dom_nts n (List.length const)).
Proof. intros ND H. apply (afind_In _ _ _ ND). unfold des_env. apply in_flat_map. exists (DSeq n const). split; [exact H | left; reflexivity]. Qed.

Lemma resolve_mono e1 e2 l : (forall k X, afind e1 k = Some X -> afind e2 k = Some X) -> forall R, resolve_items e1 l = Some R -> resolve_items e2 l = Some R.
Proof. intros M. induction l as [|[n star] l IH]; intros R H; simpl in *; [exact H|].
  destruct (afind e1 n) as [X|] eqn:A; [|discriminate]. destruct (resolve_items e1 l) as [rest|]; [|discriminate].
  rewrite (M n X A), (IH rest eq_refl). exact H. Qed.

(* ---- one component inside a larger document ---- *)
Section Embedded.
Variable D : list dline.
Hypothesis NDS : NoDup (map fst (des_env D)).
Hypothesis NDT : NoDup (dstruct_names D).
Variable c : comp.
Hypothesis W : WF c.
Hypothesis W2 : WF2 c.
Hypothesis INC : incl (emit_des_comp c) D.

Lemma comp_env_mono k X : afind (env_bases c (c_bases c)) k = Some X -> afind (des_env D) k = Some X.
Proof. intros A. apply afind_Some_In in A. rewrite <- (des_env_comp c W) in A. unfold des_env in A. apply in_flat_map in A. destruct A as [l [Hl A]].
  destruct l as [n s|n const|n seqs|n o]; simpl in A; try contradiction. destruct A as [A|[]]. inversion A; subst. apply (env_lookup D k const NDS (INC _ Hl)). Qed.

Theorem des_comp_embedded v : des_sat_lines v D (emit_des_comp c) <-> src_sat v c.
Proof. rewrite <- (des_comp_equiv c W W2 v). unfold des_sat_lines, des_sat. split.
  - intros [T S]. split; [exact T|]. intros n seqs s HA HS. destruct (S n seqs s HA (INC _ HS)) as [X [B [R [GB SB]]]]. exists X, B. split; [|auto].
    apply in_assign_line in HA. destruct HA as [m [u [Hin [-> ->]]]].
    pose proof (assign_rereads c W _ (struct_bases_declared c W u m Hin)) as R1. rewrite (des_env_comp c W).
    rewrite (resolve_mono _ _ _ comp_env_mono _ R1) in R. inversion R; subst X. exact R1.
  - intros [T S]. split; [exact T|]. intros n seqs s HA HS.
    pose proof HA as HA'. apply in_assign_line in HA'. destruct HA' as [m [u [Hin [-> ->]]]].
    assert (HS' : In (DStruct (c_prefix c +++ m) (u_struct u)) (emit_des_comp c)) by (apply in_struct_line; eauto).
    pose proof (struct_unique D NDT _ _ _ HS (INC _ HS')) as ->.
    destruct (S _ _ _ HA HS') as [X [B [R [GB SB]]]]. exists X, B. split; [|auto].
    rewrite (des_env_comp c W) in R. apply (resolve_mono _ _ _ comp_env_mono _ R). Qed.
End Embedded.

(* ---- a nested system ---- *)
Definition lens_of (lens : list (string * nat)) (s : string) : nat := match afind lens s with Some l => l | None => 0 end.
Definition port_nts (prefix : string) (comps : list (string * obj)) (l : loc) (cname : string) : list nt :=
  match l with
  | LSig s => match afind comps cname with
              | Some (OSys _ _ _ lens' _ _) => dom_nts (prefix +++ cname +++ "-" +++ s) (lens_of lens' s)
              | _ => [] end
  | LRef x => match afind comps cname with Some (OComp c) => flatB c (ref_base c x) | _ => [] end
  end.

Fixpoint sys_wf (fuel : nat) (o : obj) : Prop :=
  match fuel with
  | O => False
  | S f =>
      match o with
      | OComp c => WF c /\ WF2 c
      | OSys prefix comps sigs lens _ _ =>
          NoDup (map fst comps) /\ (forall cn sub, In (cn, sub) comps -> sys_wf f sub) /\
          (forall sname entries, In (sname, entries) sigs -> forall l cname wc, In (l, cname, wc) entries ->
             match l with
             | LRef x => exists c, afind comps cname = Some (OComp c) /\ List.length (flatB c (ref_base c x)) = lens_of lens sname /\
                           (forall y, In y (ref_base c x) -> ahas (c_bases c) (fst y) = true) /\
                           match x with RB n _ => base_len (c_bases c) n <> 0 | RS _ _ => True end
             | LSig s => exists comps' sigs' lens' i' o', afind comps cname = Some (OSys (prefix +++ cname +++ "-") comps' sigs' lens' i' o') /\
                           ahas sigs' s = true /\ lens_of lens' s = lens_of lens sname
             end)
      end
  end.

(* what the source says: components, and every port bound to a signal equals it (or its reverse complement);
   the auxiliary sequence of a signal is its reverse complement *)
Fixpoint sys_sat (v : valuation) (fuel : nat) (o : obj) : Prop :=
  match fuel with
  | O => True
  | S f =>
      match o with
      | OComp c => src_sat v c
      | OSys prefix comps sigs lens _ _ =>
          (forall cn sub, In (cn, sub) comps -> sys_sat v f sub) /\
          (forall sname entries, In (sname, entries) sigs ->
             let sg := dom_nts (prefix +++ sname) (lens_of lens sname) in
             seqval v sg = rcb (seqval v (dom_nts ((prefix +++ sname) +++ "-_WC") (lens_of lens sname))) /\
             forall l cname wc, In (l, cname, wc) entries ->
               seqval v (port_nts prefix comps l cname) = if wc then rcb (seqval v sg) else seqval v sg)
      end
  end.

Lemma allows_N b : allows "N"%char b.
Proof. unfold allows. simpl. destruct b; reflexivity. Qed.
Lemma dom_nts_length n len : List.length (dom_nts n len) = len.
Proof. unfold dom_nts. rewrite map_length, seq_length. reflexivity. Qed.
Lemma append_assoc4 a b c d : (a +++ b +++ c) +++ d = a +++ b +++ c +++ d.
Proof. induction a as [|x a IH]; simpl; [|rewrite IH; reflexivity]. induction b as [|y b IHb]; simpl; [reflexivity | rewrite IHb; reflexivity]. Qed.

Section SysEquiv.
Variable D : list dline.
Hypothesis NDS : NoDup (map fst (des_env D)).
Hypothesis NDT : NoDup (dstruct_names D).
Variable v : valuation.

(* the lines of one signal *)
Definition entry_lines (f : nat) (prefix : string) (comps : list (string * obj)) (sig wcn : string) (len : nat) (ent : loc * string * bool) : list dline :=
  let '(l, cname, wc) := ent in
  let '(sig_name, seqs) :=
    match l with
    | LSig s => (cname +++ "-" +++ s, [(prefix +++ cname +++ "-" +++ s, false)])
    | LRef x =>
        match afind comps cname with
        | Some (OComp c) =>
            match x with
            | RB n r => (cname +++ "-" +++ n, [(c_prefix c +++ n, r)])
            | RS n r => (cname +++ "-" +++ n, emit_brefs c (ref_base c x))
            end
        | _ => ("?"%string, ([] : list (string * bool)))
        end
    end in
  let dn := sig +++ "-" +++ sig_name in
  [DStruct dn (duplex len); DAssign dn (((if wc then sig else wcn), false) :: seqs)].
Definition sig_lines (f : nat) (prefix : string) (comps : list (string * obj)) (lens : list (string * nat)) (se : string * list (loc * string * bool)) : list dline :=
  let '(sname, entries) := se in
  let len := match afind lens sname with Some l => l | None => 0 end in
  let sig := prefix +++ sname in
  let wcn := sig +++ "-_WC" in
  [DSeq sig (repeat "N"%char len); DSeq wcn (repeat "N"%char len);
   DStruct (sig +++ "-_Self") (duplex len); DAssign (sig +++ "-_Self") [(wcn, false); (sig, false)]] ++
  flat_map (entry_lines f prefix comps sig wcn len) entries.
Lemma emit_sys_unfold f prefix comps sigs lens i o :
  emit_des_obj (S f) (OSys prefix comps sigs lens i o) = flat_map (fun '(_, sub) => emit_des_obj f sub) comps ++ flat_map (sig_lines f prefix comps lens) sigs.
Proof. reflexivity. Qed.

Definition entry_name_seqs (prefix : string) (comps : list (string * obj)) (l : loc) (cname : string) : string * list (string * bool) :=
  match l with
  | LSig s => (cname +++ "-" +++ s, [(prefix +++ cname +++ "-" +++ s, false)])
  | LRef x =>
      match afind comps cname with
      | Some (OComp c) =>
          match x with
          | RB n r => (cname +++ "-" +++ n, [(c_prefix c +++ n, r)])
          | RS n r => (cname +++ "-" +++ n, emit_brefs c (ref_base c x))
          end
      | _ => ("?"%string, ([] : list (string * bool)))
      end
  end.
Lemma entry_lines_eq f prefix comps sig wcn len l cname wc :
  entry_lines f prefix comps sig wcn len (l, cname, wc) =
  [DStruct (sig +++ "-" +++ fst (entry_name_seqs prefix comps l cname)) (duplex len);
   DAssign (sig +++ "-" +++ fst (entry_name_seqs prefix comps l cname)) (((if wc then sig else wcn), false) :: snd (entry_name_seqs prefix comps l cname))].
Proof. unfold entry_lines, entry_name_seqs. destruct l as [x|s0]; [|reflexivity]. destruct (afind comps cname) as [[c|? ? ? ? ? ?]|]; try reflexivity. destruct x; reflexivity. Qed.

Section OneSystem.
Variables (f : nat) (prefix : string) (comps : list (string * obj)) (sigs : list (string * list (loc * string * bool))) (lens : list (string * nat)).
Hypothesis NDC : NoDup (map fst comps).
Hypothesis WFS : forall cn sub, In (cn, sub) comps -> sys_wf f sub.
Hypothesis SUB : forall cn sub, In (cn, sub) comps -> incl (emit_des_obj f sub) D.

(* the sequence list of a binding re-reads to the port's nucleotides *)
Lemma entry_resolve l cname n :
  match l with
  | LRef x => exists c, afind comps cname = Some (OComp c) /\ List.length (flatB c (ref_base c x)) = n /\
                (forall y, In y (ref_base c x) -> ahas (c_bases c) (fst y) = true) /\
                match x with RB m _ => base_len (c_bases c) m <> 0 | RS _ _ => True end
  | LSig s0 => exists comps' sigs' lens' i' o', afind comps cname = Some (OSys (prefix +++ cname +++ "-") comps' sigs' lens' i' o') /\
                ahas sigs' s0 = true /\ lens_of lens' s0 = n
  end ->
  resolve_items (des_env D) (snd (entry_name_seqs prefix comps l cname)) = Some (port_nts prefix comps l cname) /\
  List.length (port_nts prefix comps l cname) = n.
Proof. destruct l as [x|s0].
  - intros [c [A [L [DECL NZ]]]]. unfold entry_name_seqs, port_nts. rewrite A. pose proof (afind_Some_In _ _ _ A) as Hin.
    pose proof (WFS _ _ Hin) as WFc. pose proof (SUB _ _ Hin) as INC. destruct f as [|f']; [destruct WFc|]. cbn [sys_wf] in WFc. destruct WFc as [W W2].
    cbn [emit_des_obj] in INC. split; [|exact L].
    assert (E : snd (match x with RB m r => (cname +++ "-" +++ m, [(c_prefix c +++ m, r)]) | RS m r => (cname +++ "-" +++ m, emit_brefs c (ref_base c x)) end) = emit_brefs c (ref_base c x)).
    { destruct x as [m r|m r]; [|reflexivity]. cbn [snd ref_base]. unfold emit_brefs. cbn [filter fst]. destruct (Nat.eqb_spec (base_len (c_bases c) m) 0); [contradiction | reflexivity]. }
    rewrite E. apply (resolve_mono _ _ _ (comp_env_mono D NDS c W INC)). apply (assign_rereads c W _ DECL).
  - intros [comps' [sigs' [lens' [i' [o' [A [HS L]]]]]]]. unfold entry_name_seqs, port_nts. rewrite A. pose proof (afind_Some_In _ _ _ A) as Hin.
    pose proof (WFS _ _ Hin) as WFc. pose proof (SUB _ _ Hin) as INC. destruct f as [|f']; [destruct WFc|].
    rewrite emit_sys_unfold in INC. unfold ahas in HS. destruct (afind sigs' s0) as [ents|] eqn:AS; [|discriminate]. apply afind_Some_In in AS.
    assert (HD : In (DSeq ((prefix +++ cname +++ "-") +++ s0) (repeat "N"%char (lens_of lens' s0))) D).
    { apply INC. apply in_or_app. right. apply in_flat_map. exists (s0, ents). split; [exact AS|]. unfold sig_lines. left. reflexivity. }
    rewrite append_assoc4 in HD. cbn [snd resolve_items]. rewrite (env_lookup D _ _ NDS HD), repeat_length, app_nil_r. split; [reflexivity|]. rewrite dom_nts_length. exact L. Qed.

(* a duplex structure assigned "first, then seqs" holds exactly when seqs re-read to the reverse complement of first *)
Lemma duplex_assign_sat dn first len seqs P :
  In (DSeq first (repeat "N"%char len)) D -> In (DStruct dn (duplex len)) D ->
  resolve_items (des_env D) seqs = Some P -> List.length P = len ->
  ((forall s, In (DStruct dn s) D -> exists X B, resolve_items (des_env D) ((first, false) :: seqs) = Some X /\ get_bonds s = OK B /\ sat_bonds v X B) <->
   seqval v P = rcb (seqval v (dom_nts first len))).
Proof. intros HF HS R L.
  assert (RR : resolve_items (des_env D) ((first, false) :: seqs) = Some (dom_nts first len ++ P)).
  { cbn [resolve_items]. rewrite (env_lookup D _ _ NDS HF), R, repeat_length. reflexivity. }
  split.
  - intros H. destruct (H _ HS) as [X [B [RX [GB SB]]]]. rewrite RR in RX. inversion RX; subst X. rewrite duplex_bonds in GB. inversion GB; subst B.
    apply (duplex_sat v _ _ len (dom_nts_length first len) L). exact SB.
  - intros E s0 HS0. rewrite (struct_unique D NDT _ _ _ HS0 HS). exists (dom_nts first len ++ P), (combine (rev (seq 0 len)) (seq len len)).
    split; [exact RR | split; [apply duplex_bonds|]]. apply (duplex_sat v _ _ len (dom_nts_length first len) L). exact E. Qed.

Lemma no_seq_in_entries sig wcn len entries n const : ~ In (DSeq n const) (flat_map (entry_lines f prefix comps sig wcn len) entries).
Proof. intros H. apply in_flat_map in H. destruct H as [[[l cname] wc] [_ H]]. rewrite entry_lines_eq in H. destruct H as [H|[H|[]]]; discriminate. Qed.

Theorem sig_lines_sat sname entries :
  (forall l cname wc, In (l, cname, wc) entries ->
     match l with
     | LRef x => exists c, afind comps cname = Some (OComp c) /\ List.length (flatB c (ref_base c x)) = lens_of lens sname /\
                   (forall y, In y (ref_base c x) -> ahas (c_bases c) (fst y) = true) /\
                   match x with RB m _ => base_len (c_bases c) m <> 0 | RS _ _ => True end
     | LSig s0 => exists comps' sigs' lens' i' o', afind comps cname = Some (OSys (prefix +++ cname +++ "-") comps' sigs' lens' i' o') /\
                   ahas sigs' s0 = true /\ lens_of lens' s0 = lens_of lens sname
     end) ->
  incl (sig_lines f prefix comps lens (sname, entries)) D ->
  (des_sat_lines v D (sig_lines f prefix comps lens (sname, entries)) <->
   (let sg := dom_nts (prefix +++ sname) (lens_of lens sname) in
    seqval v sg = rcb (seqval v (dom_nts ((prefix +++ sname) +++ "-_WC") (lens_of lens sname))) /\
    forall l cname wc, In (l, cname, wc) entries ->
      seqval v (port_nts prefix comps l cname) = if wc then rcb (seqval v sg) else seqval v sg)).
Proof. intros WFE INC. unfold sig_lines in *. fold (lens_of lens sname) in *. set (len := lens_of lens sname) in *.
  set (sig := prefix +++ sname) in *. set (wcn := sig +++ "-_WC") in *. cbv zeta.
  assert (Hsig : In (DSeq sig (repeat "N"%char len)) D) by (apply INC; left; reflexivity).
  assert (Hwcn : In (DSeq wcn (repeat "N"%char len)) D) by (apply INC; right; left; reflexivity).
  assert (Hself : In (DStruct (sig +++ "-_Self") (duplex len)) D) by (apply INC; right; right; left; reflexivity).
  assert (Rsig : resolve_items (des_env D) [(sig, false)] = Some (dom_nts sig len)).
  { cbn [resolve_items]. rewrite (env_lookup D _ _ NDS Hsig), repeat_length, app_nil_r. reflexivity. }
  pose proof (duplex_assign_sat (sig +++ "-_Self") wcn len [(sig, false)] (dom_nts sig len) Hwcn Hself Rsig (dom_nts_length sig len)) as SELF.
  assert (ENT : forall l cname wc, In (l, cname, wc) entries ->
     ((forall s0, In (DStruct (sig +++ "-" +++ fst (entry_name_seqs prefix comps l cname)) s0) D ->
         exists X B, resolve_items (des_env D) (((if wc then sig else wcn), false) :: snd (entry_name_seqs prefix comps l cname)) = Some X /\ get_bonds s0 = OK B /\ sat_bonds v X B) <->
      seqval v (port_nts prefix comps l cname) = rcb (seqval v (dom_nts (if wc then sig else wcn) len)))).
  { intros l cname wc Hin. destruct (entry_resolve l cname len (WFE l cname wc Hin)) as [R L].
    apply duplex_assign_sat; [destruct wc; assumption | | exact R | exact L].
    apply INC. apply in_or_app. right. apply in_flat_map. exists (l, cname, wc). split; [exact Hin|]. rewrite entry_lines_eq. left. reflexivity. }
  unfold des_sat_lines. split.
  - intros [_ S]. assert (AUX : seqval v (dom_nts sig len) = rcb (seqval v (dom_nts wcn len))).
    { apply SELF. intros s0 HS0. apply (S _ _ _ ltac:(right; right; right; left; reflexivity) HS0). }
    split; [exact AUX|]. intros l cname wc Hin.
    assert (E : seqval v (port_nts prefix comps l cname) = rcb (seqval v (dom_nts (if wc then sig else wcn) len))).
    { apply (ENT l cname wc Hin). intros s0 HS0. apply (S (sig +++ "-" +++ fst (entry_name_seqs prefix comps l cname)) (((if wc then sig else wcn), false) :: snd (entry_name_seqs prefix comps l cname)) s0); [|exact HS0]. apply in_or_app. right. apply in_flat_map. exists (l, cname, wc).
      split; [exact Hin|]. rewrite entry_lines_eq. right. left. reflexivity. }
    destruct wc; [exact E|]. rewrite E. symmetry. exact AUX.
  - intros [AUX PORTS]. split.
    + intros n const i ch H Hn. apply in_app_or in H. destruct H as [H|H]; [|exfalso; apply (no_seq_in_entries _ _ _ _ _ _ H)].
      assert (C : const = repeat "N"%char len) by (destruct H as [H|[H|[H|[H|[]]]]]; inversion H; reflexivity). subst const.
      apply nth_error_In, repeat_spec in Hn. subst ch. apply allows_N.
    + intros n seqs s0 HA HS0. apply in_app_or in HA. destruct HA as [HA|HA].
      * destruct HA as [HA|[HA|[HA|[HA|[]]]]]; try discriminate. inversion HA; subst n seqs. apply (proj2 SELF AUX s0 HS0).
      * apply in_flat_map in HA. destruct HA as [[[l cname] wc] [Hin HA]]. rewrite entry_lines_eq in HA. destruct HA as [HA|[HA|[]]]; [discriminate|].
        inversion HA; subst n seqs. apply (proj2 (ENT l cname wc Hin)); [|exact HS0]. rewrite (PORTS l cname wc Hin). destruct wc; [reflexivity | exact AUX]. Qed.
End OneSystem.

Theorem des_sys_embedded : forall f o, sys_wf f o -> incl (emit_des_obj f o) D -> (des_sat_lines v D (emit_des_obj f o) <-> sys_sat v f o).
Proof. induction f as [|f IH]; intros o WFo INC; [destruct WFo|]. destruct o as [c|prefix comps sigs lens i o'].
  - cbn [sys_wf] in WFo. destruct WFo as [W W2]. cbn [emit_des_obj sys_sat] in *. apply (des_comp_embedded D NDS NDT c W W2 INC).
  - rewrite emit_sys_unfold in *. cbn [sys_wf] in WFo. destruct WFo as [NDC [WFS WFE]].
    assert (SUB : forall cn sub, In (cn, sub) comps -> incl (emit_des_obj f sub) D).
    { intros cn sub Hin l Hl. apply INC. apply in_or_app. left. apply in_flat_map. exists (cn, sub). split; [exact Hin | exact Hl]. }
    assert (SIG : forall sname entries, In (sname, entries) sigs -> incl (sig_lines f prefix comps lens (sname, entries)) D).
    { intros sname entries Hin l Hl. apply INC. apply in_or_app. right. apply in_flat_map. exists (sname, entries). split; [exact Hin | exact Hl]. }
    rewrite des_sat_lines_app, !des_sat_lines_flat. cbn [sys_sat]. split; intros [A B]; split.
    + intros cn sub Hin. apply (IH sub (WFS cn sub Hin) (SUB cn sub Hin)). apply (A (cn, sub) Hin).
    + intros sname entries Hin. apply (sig_lines_sat f prefix comps lens WFS SUB sname entries (WFE sname entries Hin) (SIG sname entries Hin)). apply (B (sname, entries) Hin).
    + intros [cn sub] Hin. apply (IH sub (WFS cn sub Hin) (SUB cn sub Hin)). apply (A cn sub Hin).
    + intros [sname entries] Hin. apply (sig_lines_sat f prefix comps lens WFS SUB sname entries (WFE sname entries Hin) (SIG sname entries Hin)). apply (B sname entries Hin). Qed.
End SysEquiv.

(* the whole document of a well-formed system in which nothing is defined twice *)
Theorem des_system_equiv f o v : sys_wf f o ->
  NoDup (map fst (des_env (emit_des_obj f o))) -> NoDup (dstruct_names (emit_des_obj f o)) ->
  (des_sat v (emit_des_obj f o) <-> sys_sat v f o).
Proof. intros WFo N1 N2. apply (des_sys_embedded (emit_des_obj f o) N1 N2 v f o WFo (incl_refl _)). Qed.

(* ---- the hypotheses as booleans (evaluated on every system the correspondence check loads) ---- *)
Definition entry_okb (prefix : string) (comps : list (string * obj)) (n : nat) (ent : loc * string * bool) : bool :=
  let '(l, cname, _) := ent in
  match l with
  | LRef x => match afind comps cname with
              | Some (OComp c) => Nat.eqb (List.length (flatB c (ref_base c x))) n && forallb (fun y => ahas (c_bases c) (fst y)) (ref_base c x) &&
                                  match x with RB m _ => negb (Nat.eqb (base_len (c_bases c) m) 0) | RS _ _ => true end
              | _ => false end
  | LSig s0 => match afind comps cname with
               | Some (OSys pr' _ sigs' lens' _ _) => String.eqb pr' (prefix +++ cname +++ "-") && ahas sigs' s0 && Nat.eqb (lens_of lens' s0) n
               | _ => false end
  end.
Fixpoint sys_okb (fuel : nat) (o : obj) : bool :=
  match fuel with
  | O => false
  | S f =>
      match o with
      | OComp c => wf_check c && wf_check2 c
      | OSys prefix comps sigs lens _ _ =>
          nodup_str (map fst comps) && forallb (fun cs => sys_okb f (snd cs)) comps &&
          forallb (fun se => forallb (entry_okb prefix comps (lens_of lens (fst se))) (snd se)) sigs
      end
  end.
Definition des_doc_okb (D : list dline) : bool := nodup_str (map fst (des_env D)) && nodup_str (dstruct_names D).

Theorem sys_okb_sound : forall f o, sys_okb f o = true -> sys_wf f o.
Proof. induction f as [|f IH]; intros o H; [discriminate|]. destruct o as [c|prefix comps sigs lens i o']; cbn [sys_okb sys_wf] in *.
  - apply andb_prop in H. destruct H as [H1 H2]. split; [apply wf_check_sound, H1 | apply wf_check2_sound, H2].
  - apply andb_prop in H. destruct H as [H H3]. apply andb_prop in H. destruct H as [H1 H2]. split; [apply nodup_str_NoDup, H1|]. split.
    + intros cn sub Hin. rewrite forallb_forall in H2. apply IH. apply (H2 (cn, sub) Hin).
    + intros sname entries Hin l cname wc He. rewrite forallb_forall in H3. specialize (H3 (sname, entries) Hin). cbn [fst snd] in H3.
      rewrite forallb_forall in H3. specialize (H3 (l, cname, wc) He). unfold entry_okb in H3. destruct l as [x|s0].
      * destruct (afind comps cname) as [[c|? ? ? ? ? ?]|]; try discriminate. apply andb_prop in H3. destruct H3 as [H3 H6]. apply andb_prop in H3. destruct H3 as [H4 H5].
        exists c. split; [reflexivity|]. split; [apply Nat.eqb_eq, H4|]. split; [rewrite forallb_forall in H5; exact H5|].
        destruct x as [m r|m r]; [|exact I]. apply negb_true_iff, Nat.eqb_neq in H6. exact H6.
      * destruct (afind comps cname) as [[c|pr' comps' sigs' lens' i' o'']|]; try discriminate. apply andb_prop in H3. destruct H3 as [H3 H6]. apply andb_prop in H3. destruct H3 as [H4 H5].
        apply String.eqb_eq in H4. subst pr'. exists comps', sigs', lens', i', o''. split; [reflexivity|]. split; [exact H5 | apply Nat.eqb_eq, H6]. Qed.

Theorem des_system_equiv_b f o v : sys_okb f o = true -> des_doc_okb (emit_des_obj f o) = true ->
  (des_sat v (emit_des_obj f o) <-> sys_sat v f o).
Proof. intros H1 H2. unfold des_doc_okb in H2. apply andb_prop in H2. destruct H2 as [A B].
  apply (des_system_equiv f o v (sys_okb_sound f o H1) (nodup_str_NoDup _ A) (nodup_str_NoDup _ B)). Qed.

(* the hypotheses are met by a nested system: a gate inside a sub-system, its port bound with a star to a signal
   that the enclosing system binds with a star again *)
Definition demo_gate (prefix : string) : comp :=
  {| c_prefix := prefix;
     c_bases := [("a"%string, {| b_len := 3; b_const := ["N"; "S"; "N"]%char; b_anon := false |})];
     c_sups := []; 
     c_strands := [("t"%string, {| t_sup := {| s_seqs := [RB "a" false; RB "a" true]; s_base := [("a"%string, false); ("a"%string, true)]; s_len := 6 |}; t_dummy := false |})];
     c_structs := [("h"%string, {| u_opt := 1; u_strands := ["t"%string]; u_struct := [Open; Open; Open; Close; Close; Close] |})];
     c_kins := []; c_ins := [(RB "a" false, None)]; c_outs := [] |}.
Definition demo_system : obj :=
  OSys "" [("m"%string, OSys "m-" [("g"%string, OComp (demo_gate "m-g-"))] [("p"%string, [(LRef (RB "a" false), "g"%string, true)])] [("p"%string, 3)] [("p"%string, false)] [])]
       [("s"%string, [(LSig "p", "m"%string, true)])] [("s"%string, 3)] [] [].
Example demo_system_hypotheses : sys_okb 12 demo_system = true /\ des_doc_okb (emit_des_obj 12 demo_system) = true /\
  List.length (emit_des_obj 12 demo_system) = 16.
Proof. vm_compute. auto. Qed.
