(* C03: the auxiliary duplex structures of the .des back-end force, for every binding of a signal,
   exactly what the `equal` line of the PIL back-end forces: the port equals the signal when the
   binding's effective star is off and is its reverse complement when it is on. *)
From Coq Require Import List String Ascii Arith Bool Lia.
From PC Require Import Base.Codes Comp.Syntax Comp.Compile Comp.Denote Comp.EmitProofs Design.Designer Sys.System Sys.Des Sys.DesProofs.
Import ListNotations.
Local Open Scope list_scope.

(* a nucleotide assignment: a base for every (domain, index); a reversed view reads the complement *)
Definition valuation := string -> nat -> base.
Definition vnt (v : valuation) (x : nt) : base :=
  let '(n, i, r) := x in if r then bcompl (v n i) else v n i.
Definition seqval (v : valuation) (l : list nt) : list base := map (vnt v) l.
Definition rcb (l : list base) : list base := map bcompl (rev l).

Lemma bcompl_invol b : bcompl (bcompl b) = b. Proof. destruct b; reflexivity. Qed.
Lemma vnt_flip v x : vnt v (flipnt x) = bcompl (vnt v x).
Proof. destruct x as [[n i] r]. unfold flipnt, vnt. simpl. destruct r; simpl; [rewrite bcompl_invol|]; reflexivity. Qed.
Lemma seqval_rc v l : seqval v (rc l) = rcb (seqval v l).
Proof. unfold seqval, rc, rcb. rewrite map_map, <- map_rev, map_map. apply map_ext. intros x. apply vnt_flip. Qed.
Lemma rcb_invol l : rcb (rcb l) = l.
Proof. unfold rcb. rewrite <- map_rev, rev_involutive, map_map. rewrite <- (map_id l) at 2. apply map_ext. apply bcompl_invol. Qed.
Lemma rcb_inj a b : rcb a = rcb b -> a = b.
Proof. intros H. rewrite <- (rcb_invol a), <- (rcb_invol b), H. reflexivity. Qed.
Lemma rcb_length l : List.length (rcb l) = List.length l.
Proof. unfold rcb. rewrite map_length, rev_length. reflexivity. Qed.

(* what a target structure forces: the two positions of every bond hold complementary bases *)
Definition sat_bonds (v : valuation) (X : list nt) (B : list (nat * nat)) : Prop :=
  forall i j, In (i, j) B -> exists a b, nth_error X i = Some a /\ nth_error X j = Some b /\ vnt v a = bcompl (vnt v b).

Lemma In_combine_nth {A B} (l1 : list A) : forall (l2 : list B) x y,
  In (x, y) (combine l1 l2) <-> exists k, nth_error l1 k = Some x /\ nth_error l2 k = Some y.
Proof. induction l1 as [|a l1 IH]; intros l2 x y; simpl.
  - split; [intros [] | intros [k [H _]]; destruct k; discriminate].
  - destruct l2 as [|b l2]; simpl.
    + split; [intros [] | intros [k [_ H]]; destruct k; discriminate].
    + split.
      * intros [H|H]; [inversion H; subst; exists 0; auto|]. apply IH in H. destruct H as [k [H1 H2]]. exists (S k). auto.
      * intros [[|k] [H1 H2]]; simpl in *; [inversion H1; inversion H2; subst; left; reflexivity | right; apply IH; eauto]. Qed.

Lemma nth_rev_seq L k : k < L -> nth_error (rev (seq 0 L)) k = Some (L - 1 - k).
Proof. intros KL. rewrite nth_error_nth' with (d := 0) by (rewrite rev_length, seq_length; exact KL).
  rewrite rev_nth by (rewrite seq_length; exact KL). rewrite seq_length, seq_nth by lia. f_equal. lia. Qed.
Lemma nth_seq a L k : k < L -> nth_error (seq a L) k = Some (a + k).
Proof. intros KL. rewrite nth_error_nth' with (d := 0) by (rewrite seq_length; exact KL). rewrite seq_nth by exact KL. reflexivity. Qed.

Lemma In_duplex_bonds L i j : In (i, j) (combine (rev (seq 0 L)) (seq L L)) <-> exists k, k < L /\ i = L - 1 - k /\ j = L + k.
Proof. rewrite In_combine_nth. split.
  - intros [k [H1 H2]]. assert (KL : k < L) by (assert (X : nth_error (seq L L) k <> None) by (rewrite H2; discriminate); apply nth_error_Some in X; rewrite seq_length in X; exact X).
    rewrite (nth_rev_seq L k KL) in H1. rewrite (nth_seq L L k KL) in H2. inversion H1; inversion H2. exists k. auto.
  - intros [k [KL [-> ->]]]. exists k. split; [apply nth_rev_seq | apply nth_seq]; exact KL. Qed.

Lemma list_ext_nth {A} (a b : list A) : List.length a = List.length b ->
  (forall k, k < List.length a -> nth_error a k = nth_error b k) -> a = b.
Proof. revert b. induction a as [|x a IH]; intros [|y b] L H; simpl in L; try discriminate; [reflexivity|].
  pose proof (H 0 ltac:(simpl; lia)) as H0. simpl in H0. inversion H0; subst. f_equal. apply IH; [lia|].
  intros k Hk. apply (H (S k)). simpl. lia. Qed.

Lemma nth_rcb l k : k < List.length l -> nth_error (rcb l) k = option_map bcompl (nth_error l (List.length l - 1 - k)).
Proof. intros Hk. unfold rcb. rewrite nth_error_map. f_equal.
  rewrite nth_error_nth' with (d := bA) by (rewrite rev_length; exact Hk). rewrite rev_nth by exact Hk.
  replace (List.length l - S k) with (List.length l - 1 - k) by lia. symmetry. apply nth_error_nth'. lia. Qed.

(* the duplex of length L over first ++ second holds exactly when second is the reverse complement of first *)
Theorem duplex_sat v a b L : List.length a = L -> List.length b = L ->
  (sat_bonds v (a ++ b) (combine (rev (seq 0 L)) (seq L L)) <-> seqval v b = rcb (seqval v a)).
Proof. intros La Lb. split.
  - intros S. apply list_ext_nth; [unfold seqval; rewrite rcb_length, !map_length; lia|].
    intros k Hk. unfold seqval in Hk. rewrite map_length in Hk.
    destruct (S (L - 1 - k) (L + k)) as [x [y [X [Y E]]]]; [apply In_duplex_bonds; exists k; repeat split; lia|].
    rewrite nth_error_app1 in X by lia. rewrite nth_error_app2 in Y by lia. replace (L + k - List.length a) with k in Y by lia.
    rewrite nth_rcb by (unfold seqval; rewrite map_length; lia). unfold seqval. rewrite map_length, !nth_error_map, Y.
    replace (List.length a - 1 - k) with (L - 1 - k) by lia. rewrite X. simpl. rewrite E, bcompl_invol. reflexivity.
  - intros E i j Hin. apply In_duplex_bonds in Hin. destruct Hin as [k [KL [-> ->]]].
    destruct (nth_error a (L - 1 - k)) as [x|] eqn:X; [|apply nth_error_None in X; lia].
    destruct (nth_error b k) as [y|] eqn:Y; [|apply nth_error_None in Y; lia].
    exists x, y. rewrite nth_error_app1 by lia. rewrite nth_error_app2 by lia. replace (L + k - List.length a) with k by lia.
    split; [exact X | split; [exact Y|]].
    assert (Q : nth_error (seqval v b) k = nth_error (rcb (seqval v a)) k) by (rewrite E; reflexivity).
    rewrite nth_rcb in Q by (unfold seqval; rewrite map_length; lia). unfold seqval in Q. rewrite map_length, !nth_error_map, Y in Q.
    replace (List.length a - 1 - k) with (L - 1 - k) in Q by lia. rewrite X in Q. simpl in Q. inversion Q as [Q']. rewrite Q', bcompl_invol. reflexivity. Qed.

(* ---- one binding of a signal ---- *)
(* sig, wcn, port: the nucleotides of the signal sequence, of its auxiliary complement <sig>-_WC and of the bound
   port as the .des line lists it; all of the signal's length.  The Self structure `<sig>-_Self : wcn sig` ties wcn to
   sig; the binding structure is `wcn port` for an unstarred and `sig port` for a starred binding. *)
Section Binding.
Variable v : valuation.
Variables sg wcn port : list nt.
Variable L : nat.
Hypothesis Ls : List.length sg = L.
Hypothesis Lw : List.length wcn = L.
Hypothesis Lp : List.length port = L.
Let B := combine (rev (seq 0 L)) (seq L L).
Hypothesis SELF : sat_bonds v (wcn ++ sg) B.

Lemma wcn_is_complement : seqval v wcn = rcb (seqval v sg).
Proof. pose proof SELF as S0. unfold B in S0. apply (duplex_sat v wcn sg L Lw Ls) in S0. rewrite S0, rcb_invol. reflexivity. Qed.

(* unstarred binding: .des `wcn port` duplex <-> PIL `equal sig port` *)
Theorem des_binding_equal : sat_bonds v (wcn ++ port) B <-> seqval v port = seqval v sg.
Proof. unfold B. rewrite (duplex_sat v wcn port L Lw Lp), wcn_is_complement, rcb_invol. reflexivity. Qed.

(* starred binding: .des `sig port` duplex <-> PIL `equal sig port*` *)
Theorem des_binding_complement : sat_bonds v (sg ++ port) B <-> seqval v (rc port) = seqval v sg.
Proof. unfold B. rewrite (duplex_sat v sg port L Ls Lp), seqval_rc. split; intros H; [rewrite H, rcb_invol; reflexivity | rewrite <- H, rcb_invol; reflexivity]. Qed.
End Binding.

(* the lines the .des back-end writes for a signal and for each of its bindings *)
Local Open Scope string_scope.
Definition binding_seqs (prefix : string) (comps : list (string * obj)) (l : loc) (cname : string) : string * list (string * bool) :=
  match l with
  | LSig s => (cname +++ "-" +++ s, [(prefix +++ cname +++ "-" +++ s, false)])
  | LRef x =>
      match afind comps cname with
      | Some (OComp c) =>
          match x with
          | RB n r => (cname +++ "-" +++ n, [(c_prefix c +++ n, r)])
          | RS n r => (cname +++ "-" +++ n, emit_brefs c (ref_base c x))
          end
      | _ => ("?", [])
      end
  end.

Theorem des_signal_lines f prefix comps sigs lens i o sname entries :
  In (sname, entries) sigs ->
  let len := match afind lens sname with Some l => l | None => 0 end in
  let sg := prefix +++ sname in let wcn := sg +++ "-_WC" in
  let out := emit_des_obj (S f) (OSys prefix comps sigs lens i o) in
  In (DStruct (sg +++ "-_Self") (duplex len)) out /\ In (DAssign (sg +++ "-_Self") [(wcn, false); (sg, false)]) out /\
  forall l cname wc, In (l, cname, wc) entries ->
    let dn := sg +++ "-" +++ fst (binding_seqs prefix comps l cname) in
    In (DStruct dn (duplex len)) out /\
    In (DAssign dn (((if wc then sg else wcn), false) :: snd (binding_seqs prefix comps l cname))) out.
Proof. intros Hin len sg wcn out. unfold out. cbn [emit_des_obj].
  assert (HS : forall x, In x ([DSeq sg (repeat "N"%char len); DSeq wcn (repeat "N"%char len);
               DStruct (sg +++ "-_Self") (duplex len); DAssign (sg +++ "-_Self") [(wcn, false); (sg, false)]] ++
              flat_map (fun (ent : loc * string * bool) => let '(l, cname, wc) := ent in
                  let '(sig_name, seqs) :=
                    match l with
                    | LSig s => (cname +++ "-" +++ s, [(prefix +++ cname +++ "-" +++ s, false)])
                    | LRef x0 =>
                        match afind comps cname with
                        | Some (OComp c) =>
                            match x0 with
                            | RB n r => (cname +++ "-" +++ n, [(c_prefix c +++ n, r)])
                            | RS n r => (cname +++ "-" +++ n, emit_brefs c (ref_base c x0))
                            end
                        | _ => ("?", ([] : list (string * bool)))
                        end
                    end in
                  let dn := sg +++ "-" +++ sig_name in
                  [DStruct dn (duplex len); DAssign dn (((if wc then sg else wcn), false) :: seqs)]) entries) ->
            In x (emit_des_obj (S f) (OSys prefix comps sigs lens i o))).
  { intros x Hx. cbn [emit_des_obj]. apply in_or_app. right. apply in_flat_map. exists (sname, entries). split; [exact Hin | exact Hx]. }
  split; [apply HS; simpl; auto | split; [apply HS; simpl; auto|]].
  intros l cname wc He. set (dn := sg +++ "-" +++ fst (binding_seqs prefix comps l cname)). assert (X : forall y, In y [DStruct dn (duplex len); DAssign dn (((if wc then sg else wcn), false) :: snd (binding_seqs prefix comps l cname))] ->
                                      In y (emit_des_obj (S f) (OSys prefix comps sigs lens i o))).
  { intros y Hy. apply HS. apply in_or_app. right. apply in_flat_map. exists (l, cname, wc). split; [exact He|].
    unfold dn, binding_seqs in Hy. destruct l as [x0|s]; [destruct (afind comps cname) as [[c|]|]; [destruct x0| |]|]; exact Hy. }
  split; apply X; simpl; auto. Qed.
