(* C03 proofs on the .des model: the sequence list assigned to a structure re-reads to the
   nucleotides of the structure's strands, and the auxiliary duplex structure pairs position i
   of its first strand with position L-1-i of its second (so the second is the reverse
   complement of the first). *)
From Coq Require Import List String Ascii Arith Bool Lia.
From PC Require Import Comp.Syntax Comp.Compile Comp.Denote Comp.EmitProofs Design.Designer Sys.System Sys.Des.
Import ListNotations.
Local Open Scope list_scope.

Section Assign.
Variable c : comp.
Hypothesis W : WF c.

Theorem assign_rereads l : (forall x, In x l -> ahas (c_bases c) (fst x) = true) ->
  resolve_items (env_bases c (c_bases c)) (emit_brefs c l) = Some (flatB c l).
Proof. unfold emit_brefs, flatB. induction l as [|x l IH]; intros H; simpl; [reflexivity|].
  assert (IH' := IH (fun y Hy => H y (or_intror Hy))). clear IH.
  pose proof (H x (or_introl eq_refl)) as Hx. unfold ahas in Hx.
  destruct (afind (c_bases c) (fst x)) as [b|] eqn:E; [|discriminate]. apply afind_Some_In in E.
  pose proof (afind_In _ _ _ (nodup_bases c W) E) as F.
  destruct (Nat.eqb (base_len (c_bases c) (fst x)) 0) eqn:Z; simpl.
  - rewrite IH'. apply Nat.eqb_eq in Z. unfold flat_bref. rewrite Z. destruct (snd x); reflexivity.
  - apply Nat.eqb_neq in Z. unfold base_len in Z. rewrite F in Z.
    destruct x as [n r]. simpl in *. rewrite (env_bases_find c _ n b (nodup_bases c W) E Z), IH'.
    unfold flat_bref. simpl. unfold base_len. rewrite F. destruct r; reflexivity. Qed.
End Assign.

(* the sequences assigned to a structure are, in order, those of its strands *)
Theorem struct_bases_concat c u : flatB c (struct_bases c u) =
  flat_map (fun n => match afind (c_strands c) n with Some t => flatB c (s_base (t_sup t)) | None => [] end) (u_strands u).
Proof. unfold struct_bases. induction (u_strands u) as [|n l IH]; simpl; [reflexivity|].
  rewrite flatB_app, IH. destruct (afind (c_strands c) n); reflexivity. Qed.

(* ---- the duplex "(((+)))" ---- *)
Lemma bonds_opens n : forall rest pos stack acc,
  bonds_aux (repeat Open n ++ rest) pos stack acc = bonds_aux rest (pos + n) (rev (seq pos n) ++ stack) acc.
Proof. induction n as [|n IH]; intros rest pos stack acc; cbn [repeat app seq rev].
  - replace (pos + 0) with pos by lia. reflexivity.
  - cbn [bonds_aux]. rewrite IH. replace (S pos + n) with (pos + S n) by lia. rewrite <- app_assoc. reflexivity. Qed.
Lemma bonds_closes n : forall pos opens stack acc, List.length opens = n ->
  bonds_aux (repeat Close n) pos (opens ++ stack) acc =
  bonds_aux [] (pos + n) stack (rev (combine opens (seq pos n)) ++ acc).
Proof. induction n as [|n IH]; intros pos opens stack acc L; destruct opens as [|o opens]; simpl in L; try discriminate.
  - cbn [repeat app seq combine rev bonds_aux]. replace (pos + 0) with pos by lia. reflexivity.
  - injection L as L'. cbn [repeat app seq combine rev bonds_aux]. rewrite (IH (S pos) opens stack ((o, pos) :: acc) L').
    replace (S pos + n) with (pos + S n) by lia. cbn [bonds_aux]. rewrite <- app_assoc. reflexivity. Qed.

(* position i (from the inside out) of the first strand pairs with the mirrored position of the second *)
Theorem duplex_bonds L : get_bonds (duplex L) = OK (combine (rev (seq 0 L)) (seq L L)).
Proof. unfold get_bonds, duplex. rewrite bonds_opens. cbn [bonds_aux Nat.add].
  rewrite (bonds_closes L L (rev (seq 0 L)) [] []); [|rewrite rev_length, seq_length; reflexivity].
  cbn [bonds_aux]. rewrite app_nil_r, rev_involutive. reflexivity. Qed.

Example duplex3 : get_bonds (duplex 3) = OK [(2, 3); (1, 4); (0, 5)].
Proof. reflexivity. Qed.
