(* C02: every instance of a (nested) system is loaded under its own instance-path prefix, at any
   depth; every name the emitted specification defines or uses for an instance starts with that
   prefix; and the prefixes of two different instances of one system are incomparable, so their
   names are disjoint (sharing happens only through the signal lines). *)
From Coq Require Import List String Ascii Arith Bool ZArith Lia.
From PC Require Import Base.Sexp Comp.Syntax Comp.Compile Comp.EmitProofs Subst.VarSubst Run.RC13 Run.RComp Sys.System Sys.SystemProofs.
Import ListNotations.
Local Open Scope string_scope.
Local Open Scope list_scope.

(* every component-port entry of a signal names a component instance of this system *)
Definition sig_ok (comps : list (string * obj)) (sigs : list (string * list (loc * string * bool))) : Prop :=
  forall sname entries l cname wc, In (sname, entries) sigs -> In (l, cname, wc) entries ->
    match l with LRef _ => exists c, afind comps cname = Some (OComp c) | LSig _ => True end.

Fixpoint wp (p : string) (o : obj) {struct o} : Prop :=
  match o with
  | OComp c => c_prefix c = p
  | OSys pr comps sigs _ _ _ =>
      pr = p /\ sig_ok comps sigs /\ (fix all (l : list (string * obj)) : Prop :=
                   match l with
                   | [] => True
                   | (cn, sub) :: r => wp (p +++ cn +++ "-") sub /\ all r
                   end) comps
  end.
Definition wp_all (p : string) (l : list (string * obj)) : Prop :=
  forall cn sub, In (cn, sub) l -> wp (p +++ cn +++ "-") sub.
Lemma wp_sys p pr comps sigs lens i o : wp p (OSys pr comps sigs lens i o) <-> pr = p /\ sig_ok comps sigs /\ wp_all p comps.
Proof. simpl. split; intros [A [S B]]; (split; [exact A | split; [exact S|]]); clear S.
  - unfold wp_all. induction comps as [|[cn sub] r IH]; [intros ? ? []|]. destruct B as [B1 B2].
    intros cn' sub' [Q|Hin]; [inversion Q; subst; exact B1 | apply (IH B2 _ _ Hin)].
  - induction comps as [|[cn sub] r IH]; [exact I|]. split; [apply B; left; reflexivity | apply IH; intros cn' sub' H; apply B; right; exact H]. Qed.

Section L.
Variable fs : ftable.
Variable includes : list string.

Lemma afind_app_l {V} (a b : list (string * V)) k v : afind a k = Some v -> afind (a ++ b) k = Some v.
Proof. intros H. rewrite afind_app, H. reflexivity. Qed.

Lemma sig_ok_grow comps sigs x : sig_ok comps sigs -> sig_ok (comps ++ [x]) sigs.
Proof. intros S sname entries l cname wc H1 H2. specialize (S _ _ l cname wc H1 H2). destruct l; [|exact I].
  destruct S as [c Hc]. exists c. apply afind_app_l, Hc. Qed.

Lemma bind_signal_ok comps sigs lens g entry len dummy sigs' lens' :
  bind_signal sigs lens g entry len dummy = OK (sigs', lens') -> sig_ok comps sigs ->
  (match fst (fst entry) with LRef _ => exists c, afind comps (snd (fst entry)) = Some (OComp c) | LSig _ => True end) ->
  sig_ok comps sigs'.
Proof. intros H S HE. unfold bind_signal in H. destruct (afind sigs g) as [l0|].
  - destruct (afind lens g) as [l1|]; [|discriminate]. destruct (Nat.eqb l1 len); [|discriminate]. inversion H; subst. clear H.
    intros sname entries l cname wc H1 H2. apply in_map_iff in H1. destruct H1 as [[k v] [Q Hin]].
    destruct (String.eqb k g).
    + inversion Q; subst. apply in_app_or in H2. destruct H2 as [H2|[H2|[]]]; [apply (S _ _ _ _ _ Hin H2)|].
      subst entry. simpl in HE. exact HE.
    + inversion Q; subst. apply (S _ _ _ _ _ Hin H2).
  - destruct dummy; [discriminate|]. inversion H; subst. clear H.
    intros sname entries l cname wc H1 H2. apply in_app_or in H1. destruct H1 as [H1|[Q|[]]]; [apply (S _ _ _ _ _ H1 H2)|].
    inversion Q; subst. destruct H2 as [H2|[]]. subst entry. simpl in HE. exact HE. Qed.

Lemma bind_comp_ok comps c cname : afind comps cname = Some (OComp c) ->
  forall gs ls sigs lens sigs' lens', bind_comp c cname gs ls sigs lens = OK (sigs', lens') -> sig_ok comps sigs -> sig_ok comps sigs'.
Proof. intros HC. induction gs as [|[g gwc] gr IH]; intros ls sigs lens sigs' lens' H S; cbn [bind_comp] in H; [inversion H; subst; exact S|].
  destruct ls as [|x lr]; [inversion H; subst; exact S|].
  destruct (bind_signal sigs lens g _ _ _) as [[s1 l1]|] eqn:B; [|discriminate]. cbn [bind fst snd] in H.
  apply (IH _ _ _ _ _ H). apply (bind_signal_ok comps _ _ _ _ _ _ _ _ B S). simpl. eauto. Qed.
Lemma bind_sys_ok comps ilens cname :
  forall gs ls sigs lens sigs' lens', bind_sys ilens cname gs ls sigs lens = OK (sigs', lens') -> sig_ok comps sigs -> sig_ok comps sigs'.
Proof. induction gs as [|[g gwc] gr IH]; intros ls sigs lens sigs' lens' H S; cbn [bind_sys] in H; [inversion H; subst; exact S|].
  destruct ls as [|[ln lwc] lr]; [inversion H; subst; exact S|].
  destruct (afind ilens ln) as [len|]; [|discriminate].
  destruct (bind_signal sigs lens g _ _ _) as [[s1 l1]|] eqn:B; [|discriminate]. cbn [bind fst snd] in H.
  apply (IH _ _ _ _ _ H). apply (bind_signal_ok comps _ _ _ _ _ _ _ _ B S). simpl. exact I. Qed.

Lemma run_stmts_wp ld prefix new_path :
  (forall ctr tpath cargs pre np o ctr', ld ctr tpath cargs pre np = OK (o, ctr') -> wp pre o) ->
  forall stmts templ comps sigs lens ctr comps' sigs' lens' ctr',
  run_stmts ld prefix new_path stmts templ comps sigs lens ctr = OK (comps', sigs', lens', ctr') ->
  wp_all prefix comps -> sig_ok comps sigs -> wp_all prefix comps' /\ sig_ok comps' sigs'.
Proof. intros HL. induction stmts as [|s rest IH]; intros templ comps sigs lens ctr comps' sigs' lens' ctr' H WA SO; cbn [run_stmts] in H.
  - inversion H; subst. auto.
  - destruct s as [l|cname tname cargs cins couts].
    + destruct (imp_all l templ) as [templ'|]; [|discriminate]. cbn [bind] in H. apply (IH _ _ _ _ _ _ _ _ _ H WA SO).
    + destruct (afind templ tname) as [tpath|]; [|discriminate].
      destruct (ahas comps cname) eqn:AH; [discriminate|].
      destruct (ld ctr tpath cargs (prefix +++ cname +++ "-") new_path) as [[o c1]|] eqn:LD; [|discriminate]. cbn [bind] in H.
      destruct (obj_ports o) as [ni no]. destruct (negb _); [discriminate|].
      match type of H with (do sl <- ?e; _) = _ => destruct e as [[s1 l1]|] eqn:BD; [|discriminate] end. cbn [bind fst snd] in H.
      assert (FO : afind (comps ++ [(cname, o)]) cname = Some o).
      { rewrite afind_app. unfold ahas in AH. destruct (afind comps cname); [discriminate|]. simpl. rewrite String.eqb_refl. reflexivity. }
      apply (IH _ _ _ _ _ _ _ _ _ H).
      * intros cn sub Hin. apply in_app_or in Hin. destruct Hin as [Hin|[Q|[]]]; [apply (WA _ _ Hin)|].
        inversion Q; subst. apply (HL _ _ _ _ _ _ _ LD).
      * pose proof (sig_ok_grow comps sigs (cname, o) SO) as SO'. destruct o as [c|pr cs sg ilens iins iouts].
        -- apply (bind_comp_ok _ c cname FO _ _ _ _ _ _ BD SO').
        -- apply (bind_sys_ok _ ilens cname _ _ _ _ _ _ BD SO'). Qed.

(* whatever load_file returns for prefix p is well prefixed by p, at any depth *)
Theorem load_file_wp : forall fuel ctr b args prefix path o ctr',
  load_file fs includes fuel ctr b args prefix path = OK (o, ctr') -> wp prefix o.
Proof. induction fuel as [|f IH]; intros ctr b args prefix path o ctr' H; [discriminate|]. cbn [load_file] in H.
  destruct (search_file fs b (path :: includes)) as [[[bp entry] new_path]|]; [|discriminate]. cbn [bind] in H.
  destruct (zip_env (f_params entry) args) as [e|]; [|discriminate].
  destruct (negb (f_sys entry)).
  - destruct (f_body entry) as [|[|d [|body [|]]]]; try discriminate.
    destruct (d_declare d) as [dd|]; [|discriminate]. destruct (dL (d_stmt_e e) body) as [bb|]; [|discriminate].
    destruct (compile_comp ctr prefix dd bb) as [[c c1]|] eqn:CC; [|discriminate]. cbn [bind fst snd] in H. inversion H; subst.
    simpl. apply (compile_comp_prefix _ _ _ _ _ _ CC).
  - destruct (f_body entry) as [|[|ins [|outs [|stmts [|]]]]]; try discriminate.
    destruct (dL d_sig ins) as [sins|]; [|discriminate]. destruct (dL d_sig outs) as [souts|]; [|discriminate].
    destruct (dL (d_sstmt e) stmts) as [st|]; [|discriminate].
    destruct (run_stmts (load_file fs includes f) prefix new_path st [] [] [] [] ctr) as [[[[comps sigs] lens] c1]|] eqn:R; [|discriminate].
    cbn [bind] in H. destruct (forallb _ _); [|discriminate]. inversion H; subst. apply wp_sys. split; [reflexivity|].
    destruct (run_stmts_wp _ _ _ (fun ctr tpath cargs pre np o ctr' => IH ctr tpath cargs pre np o ctr') _ _ _ _ _ _ _ _ _ _ R) as [A B].
    + intros ? ? [].
    + intros ? ? ? ? ? [].
    + auto. Qed.
End L.

(* ---- every name an emitted line defines or mentions ---- *)
Definition all_names (l : pline) : list string :=
  match l with
  | PSeq n _ _ => [n]
  | PSup n items _ => n :: map fst items
  | PStrand _ n items _ => n :: map fst items
  | PStruct _ n strands _ => n :: strands
  | PKin _ _ ins outs => ins ++ outs
  | PEqual items => map fst items
  end.

Lemma emit_items_prefixed c l n : In n (map fst (emit_items c l)) -> exists m, n = c_prefix c +++ m.
Proof. unfold emit_items. rewrite map_map. intros H. apply in_map_iff in H. destruct H as [x [<- _]]. destruct x; simpl; eauto. Qed.

Lemma emit_comp_all_prefixed c : forall l n, In l (emit_comp c) -> In n (all_names l) -> exists m, n = c_prefix c +++ m.
Proof. intros l n H Hn. unfold emit_comp in H. repeat (apply in_app_or in H; destruct H as [H|H]).
  - apply in_flat_map in H. destruct H as [[m b] [_ H]]. destruct (Nat.eqb (b_len b) 0); [destruct H|].
    destruct H as [<-|[]]. destruct Hn as [<-|[]]. eauto.
  - apply in_flat_map in H. destruct H as [[m s] [_ H]]. destruct (Nat.eqb (s_len s) 0); [destruct H|].
    destruct H as [<-|[]]. destruct Hn as [<-|Hn]; [eauto | apply (emit_items_prefixed c _ n Hn)].
  - apply in_map_iff in H. destruct H as [[m t] [<- _]]. destruct Hn as [<-|Hn]; [eauto | apply (emit_items_prefixed c _ n Hn)].
  - apply in_map_iff in H. destruct H as [[m u] [<- _]]. destruct Hn as [<-|Hn]; [eauto|].
    apply in_map_iff in Hn. destruct Hn as [x [<- _]]. eauto.
  - apply in_map_iff in H. destruct H as [k [<- _]]. simpl in Hn. apply in_app_or in Hn.
    destruct Hn as [Hn|Hn]; apply in_map_iff in Hn; destruct Hn as [x [<- _]]; eauto. Qed.

Lemma append_assoc3 a b c : (a +++ b) +++ c = a +++ (b +++ c).
Proof. induction a as [|ch a IH]; simpl; [reflexivity | rewrite IH; reflexivity]. Qed.

(* every name in the emission of an object loaded under prefix p starts with p: in particular every
   name of instance cname of a system with prefix p starts with p ++ cname ++ "-", at any depth *)
Theorem emit_obj_prefixed : forall fuel p o, wp p o -> forall l n, In l (emit_obj fuel o) -> In n (all_names l) ->
  exists m, n = p +++ m.
Proof. induction fuel as [|f IH]; intros p o W l n Hl Hn; [destruct Hl|]. destruct o as [c|pr comps sigs lens i o'].
  - simpl in W. subst p. apply (emit_comp_all_prefixed c l n Hl Hn).
  - apply wp_sys in W. destruct W as [-> [SO WA]]. cbn [emit_obj] in Hl. apply in_app_or in Hl. destruct Hl as [Hl|Hl].
    + apply in_flat_map in Hl. destruct Hl as [[cn sub] [Hin Hl]].
      destruct (IH _ sub (WA cn sub Hin) l n Hl Hn) as [m ->]. exists (cn +++ "-" +++ m).
      rewrite !append_assoc3. reflexivity.
    + apply in_flat_map in Hl. destruct Hl as [[sname entries] [Hin Hl]].
      destruct Hl as [<-|[<-|[]]].
      * destruct Hn as [<-|[]]. eauto.
      * simpl in Hn. destruct Hn as [<-|Hn]; [eauto|]. rewrite map_map in Hn. apply in_map_iff in Hn.
        destruct Hn as [[[lc cname] wc] [<- He]]. simpl. specialize (SO _ _ _ _ _ Hin He). destruct lc as [x|s]; simpl.
        -- destruct SO as [c Hc]. rewrite Hc. apply afind_Some_In in Hc. pose proof (WA _ _ Hc) as Wc. simpl in Wc.
           destruct x; simpl; rewrite Wc; rewrite !append_assoc3; eauto.
        -- eauto. Qed.

(* ---- two different instances have incomparable prefixes ---- *)
Definition no_dash (s : string) : Prop := ~ In "-"%char (chars s).
Lemma append_cancel_l p a b : p +++ a = p +++ b -> a = b.
Proof. induction p as [|ch p IH]; simpl; intros H; [exact H | inversion H; auto]. Qed.
Lemma dash_split a b x y : no_dash a -> no_dash b -> a +++ "-" +++ x = b +++ "-" +++ y -> a = b.
Proof. revert b. induction a as [|ch a IH]; intros [|ch' b] Na Nb H; simpl in H.
  - reflexivity.
  - inversion H; subst. exfalso. apply Nb. simpl. left. reflexivity.
  - inversion H; subst. exfalso. apply Na. simpl. left. reflexivity.
  - inversion H; subst. f_equal. apply IH; [intros Hin; apply Na; simpl; right; exact Hin | intros Hin; apply Nb; simpl; right; exact Hin | assumption]. Qed.

(* names of different instances of one system never coincide (instance names are identifiers: no '-') *)
Theorem instances_disjoint p cn1 cn2 m1 m2 : no_dash cn1 -> no_dash cn2 -> cn1 <> cn2 ->
  (p +++ cn1 +++ "-") +++ m1 <> (p +++ cn2 +++ "-") +++ m2.
Proof. intros N1 N2 NE H. rewrite !append_assoc3 in H. apply append_cancel_l in H.
  apply NE. apply (dash_split cn1 cn2 m1 m2 N1 N2 H). Qed.
