(* C12 at system level, "which string reaches which port": fixing a signal of a (nested) system is, whenever it
   succeeds, the sequence of leaf fixes - one per component port the signal is bound to at any depth, in binding
   order - where the string that reaches a port is the given one, reverse-complemented once for every starred binding
   on the way down (an even number of stars cancels), and the port's own star is handled by the component-level fix. *)
From Coq Require Import List String Ascii Arith Bool Lia.
From PC Require Import Base.Sexp Base.Codes Base.Tables Comp.Syntax Comp.Compile Comp.EmitProofs Comp.Fix Comp.FixShape Sys.System Sys.DesSys Sys.FixFrame Sys.FixSys.
Import ListNotations.
Local Open Scope list_scope.

Definition flipn (par : bool) (s : list ascii) : option (list ascii) := if par then wc_codes s else Some s.
Lemma flipn_xorb par wc s0 s1 s2 : flipn par s0 = Some s1 -> flipn wc s1 = Some s2 -> flipn (xorb par wc) s0 = Some s2.
Proof. destruct par, wc; simpl; intros A B; try congruence. apply wc_involutive in A. congruence. Qed.
Lemma NoDup_fst_unique {V} (l : list (string * V)) n a b : NoDup (map fst l) -> In (n, a) l -> In (n, b) l -> a = b.
Proof. induction l as [|[m x] l IH]; intros ND Ha Hb; [destruct Ha|]. simpl in ND. inversion ND as [|? ? NI ND']; subst.
  destruct Ha as [Qa|Ha], Hb as [Qb|Hb].
  - congruence.
  - inversion Qa; subst. exfalso. apply NI. apply (in_map fst) in Hb. exact Hb.
  - inversion Qb; subst. exfalso. apply NI. apply (in_map fst) in Ha. exact Ha.
  - apply (IH ND' Ha Hb). Qed.

(* a port reached by a signal: the path of instance names, the reference, the star of the last binding, and the parity of
   the stars of the bindings above it *)
Definition leaf := (list string * ref * bool * bool)%type.
Fixpoint sig_leaves (f : nat) (o : obj) (name : string) (par : bool) : list leaf :=
  match f with
  | O => []
  | S f => match o with
           | OComp _ => []
           | OSys _ comps sigs _ _ _ =>
               match afind sigs name with
               | None => []
               | Some entries =>
                   flat_map (fun '(l, cname, wc) =>
                     match l with
                     | LRef x => [([cname], x, wc, par)]
                     | LSig s => match afind comps cname with
                                 | Some sub => map (fun '(path, x, w, q) => (cname :: path, x, w, q)) (sig_leaves f sub s (xorb par wc))
                                 | None => [] end
                     end) entries
               end
           end
  end.

(* applying a component-level operation at the instance a path leads to *)
Fixpoint apply_at (o : obj) (path : list string) (k : comp -> bases * fstatus) : obj * fstatus :=
  match path with
  | [] => match o with OComp c => let (bs, st) := k c in (OComp (set_comp_bases c bs), st) | _ => (o, FFail "internal") end
  | cn :: rest =>
      match o with
      | OSys p comps sigs lens i oo =>
          match afind comps cn with
          | Some sub => let (sub', st) := apply_at sub rest k in (OSys p (upd comps cn sub') sigs lens i oo, st)
          | None => (o, FFail "internal") end
      | OComp _ => (o, FFail "internal")
      end
  end.
(* the component-level fix of one port: the reference with the binding's star, the whole string *)
Definition leaf_fix (x : ref) (wc : bool) (s : list ascii) (c : comp) : bases * fstatus :=
  let x' := match x with RB n _ => RB n wc | RS n _ => RS n wc end in
  if negb (Nat.eqb (List.length s) (ref_len c x)) then (c_bases c, FFail "length")
  else fix_refs (S (S (List.length (c_sups c)))) c (c_bases c) [x'] s.
Fixpoint run_leaves (o : obj) (ls : list leaf) (fixed0 : list ascii) : obj * fstatus :=
  match ls with
  | [] => (o, FOk)
  | (path, x, wc, par) :: r =>
      match flipn par fixed0 with
      | None => (o, FKey)
      | Some s => match apply_at o path (leaf_fix x wc s) with
                  | (o', FOk) => run_leaves o' r fixed0
                  | other => other end
      end
  end.

Lemma run_leaves_app fixed0 : forall a b o, run_leaves o (a ++ b) fixed0 = match run_leaves o a fixed0 with (o', FOk) => run_leaves o' b fixed0 | other => other end.
Proof. induction a as [|[[[path x] wc] par] a IH]; intros b o; simpl; [reflexivity|].
  destruct (flipn par fixed0); [|reflexivity]. destruct (apply_at o path _) as [o1 st]. destruct st; try reflexivity. apply IH. Qed.

Lemma upd_afind comps cn sub sub' : afind comps cn = Some sub -> afind (upd comps cn sub') cn = Some sub'.
Proof. unfold upd. induction comps as [|[n x] comps IH]; simpl; [discriminate|]. destruct (String.eqb n cn) eqn:E; simpl; rewrite E; [reflexivity | exact IH]. Qed.
Lemma upd_upd comps cn a b : upd (upd comps cn a) cn b = upd comps cn b.
Proof. unfold upd. rewrite map_map. apply map_ext. intros [n x]. destruct (String.eqb n cn) eqn:E; rewrite E; reflexivity. Qed.
Lemma upd_same comps cn sub : NoDup (map fst comps) -> afind comps cn = Some sub -> upd comps cn sub = comps.
Proof. unfold upd. induction comps as [|[n x] comps IH]; intros ND A; [reflexivity|]. simpl in *. inversion ND as [|? ? NI ND']; subst. destruct (String.eqb n cn) eqn:E.
  - apply String.eqb_eq in E. subst n. inversion A; subst x. f_equal. clear IH A ND ND'. induction comps as [|[m y] comps IHc]; [reflexivity|]. simpl in *.
    destruct (String.eqb m cn) eqn:E2; [apply String.eqb_eq in E2; exfalso; apply NI; left; exact E2|]. f_equal. apply IHc. tauto.
  - f_equal. apply (IH ND' A). Qed.

(* leaf fixes below an instance are leaf fixes of the enclosing system *)
Lemma run_leaves_lift p sigs lens i oo cname fixed0 : forall L comps1 sub1 sub',
  NoDup (map fst comps1) -> afind comps1 cname = Some sub1 -> run_leaves sub1 L fixed0 = (sub', FOk) ->
  run_leaves (OSys p comps1 sigs lens i oo) (map (fun '(path, x, w, q) => (cname :: path, x, w, q)) L) fixed0 = (OSys p (upd comps1 cname sub') sigs lens i oo, FOk).
Proof. induction L as [|[[[path x] wc] par] L IH]; intros comps1 sub1 sub' ND A R; simpl in *.
  - inversion R; subst. rewrite (upd_same _ _ _ ND A). reflexivity.
  - destruct (flipn par fixed0) as [s|]; [|discriminate]. rewrite A. destruct (apply_at sub1 path (leaf_fix x wc s)) as [sub2 st]. destruct st; try discriminate.
    rewrite (IH (upd comps1 cname sub2) sub2 sub'); [rewrite upd_upd; reflexivity | rewrite upd_names; exact ND | apply (upd_afind _ _ _ _ A) | exact R]. Qed.

Lemma sig_leaves_osame : forall f a b name par, osame f a b -> sig_leaves f a name par = sig_leaves f b name par.
Proof. induction f as [|f IH]; intros a b name par S; [reflexivity|].
  destruct a as [c|p comps sigs lens i oo], b as [c'|p' comps' sigs' lens' i' oo']; simpl in S; try contradiction; [reflexivity|].
  destruct S as (-> & -> & -> & -> & -> & C). cbn [sig_leaves]. destruct (afind sigs name) as [entries|]; [|reflexivity].
  apply flat_map_ext. intros [[l cname] wc]. destruct l as [x|s]; [reflexivity|].
  destruct (afind comps cname) as [sub|] eqn:A.
  - destruct (crel_afind _ _ _ _ _ C A) as [sub' [A' R]]. rewrite A'. rewrite (IH sub sub' s _ R). reflexivity.
  - rewrite (crel_afind_none _ _ _ _ C A). reflexivity. Qed.

Theorem fix_signal_is_leaf_fixes : forall f o name par fixed0 fx o', sys_wf f o -> flipn par fixed0 = Some fx ->
  fix_signal f o name fx = (o', FOk) -> run_leaves o (sig_leaves f o name par) fixed0 = (o', FOk).
Proof. induction f as [|f IH]; intros o name par fixed0 fx o' W FL H; [destruct W|].
  destruct o as [c|p comps sigs lens i oo]; [simpl in H; inversion H|]. rewrite fix_signal_S in H. cbn [sig_leaves].
  destruct (afind sigs name) as [entries|]; [|inversion H]. destruct W as [ND [SUB _]].
  set (leafify := fun '(l, cname, wc) => match l with
                     | LRef x => [([cname], x, wc, par)]
                     | LSig s => match afind comps cname with
                                 | Some sub => map (fun '(path, x, w, q) => (cname :: path, x, w, q)) (sig_leaves f sub s (xorb par wc))
                                 | None => [] end end).
  assert (G : forall ents comps1, crel (osame f) comps comps1 -> sig_go f p sigs lens i oo fx ents comps1 = (o', FOk) ->
              run_leaves (OSys p comps1 sigs lens i oo) (flat_map leafify ents) fixed0 = (o', FOk)).
  { induction ents as [|[[l cname] wc] rest IHe]; intros comps1 C E; [simpl in *; exact E|].
    cbn [sig_go] in E. fold (sig_go f p sigs lens i oo fx) in E.
    destruct (afind comps1 cname) as [sub1|] eqn:A1; [|inversion E]. cbv zeta in E.
    assert (ND1 : NoDup (map fst comps1)) by (rewrite (crel_names _ _ _ C); exact ND).
    destruct (crel_In_r _ _ _ _ _ C (afind_Some_In _ _ _ A1)) as [sub0 [H0 R0]].
    assert (A0 : afind comps cname = Some sub0).
    { destruct (afind comps cname) as [s0|] eqn:A0; [|rewrite (crel_afind_none _ _ _ _ C A0) in A1; discriminate].
      f_equal. apply afind_Some_In in A0. apply (NoDup_fst_unique _ _ _ _ ND A0 H0). }
    assert (W1 : sys_wf f sub1) by (apply (osame_sys_wf f sub0 sub1 R0 (SUB cname sub0 H0))).
    cbn [flat_map]. rewrite run_leaves_app.
    destruct l as [x|s].
    - (* a component port *)
      destruct sub1 as [c|]; [|inversion E].
      assert (LF : (let x' := match x with RB n _ => RB n wc | RS n _ => RS n wc end in
                    if negb (Nat.eqb (List.length fx) (ref_len c x)) then (c_bases c, FFail "length")
                    else fix_refs (S (S (List.length (c_sups c)))) c (c_bases c) [x'] fx) = leaf_fix x wc fx c) by reflexivity.
      cbv zeta in LF. rewrite LF in E. clear LF.
      pose proof (fix_signal_osame (S f) (OSys p comps1 sigs lens i oo)) as _.
      assert (S1 : same_shape (c_bases c) (fst (leaf_fix x wc fx c))).
      { unfold leaf_fix. cbv zeta. destruct (negb _); [apply same_shape_refl | apply fix_refs_shape]. }
      destruct (leaf_fix x wc fx c) as [bs st] eqn:LFX. cbn [fst] in S1. fold (upd comps1 cname (OComp (set_comp_bases c bs))) in E.
      destruct st; try (inversion E; fail).
      unfold leafify at 1. cbn [run_leaves]. rewrite FL. cbn [apply_at]. rewrite A1. rewrite LFX.
      apply IHe; [|exact E]. apply (crel_trans _ _ (osame_trans f) _ _ C). apply (upd_crel _ comps1 cname (OComp c) _ (osame_refl f) ND1 A1).
      destruct f as [|f']; [destruct W1|]. simpl. exists bs. auto.
    - (* a signal of a sub-system *)
      destruct (flipn wc fx) as [fx'|] eqn:FW; [|unfold flipn in FW; rewrite FW in E; inversion E].
      assert (EQ : (if wc then wc_codes fx else Some fx) = Some fx') by exact FW. rewrite EQ in E. clear EQ.
      destruct (fix_signal f sub1 s fx') as [sub' st] eqn:FS. fold (upd comps1 cname sub') in E. destruct st; try (inversion E; fail).
      pose proof (IH sub1 s (xorb par wc) fixed0 fx' sub' W1 (flipn_xorb _ _ _ _ _ FL FW) FS) as RL.
      unfold leafify at 1. rewrite A0. rewrite (sig_leaves_osame f sub0 sub1 s _ R0).
      rewrite (run_leaves_lift p sigs lens i oo cname fixed0 _ comps1 sub1 sub' ND1 A1 RL).
      apply IHe; [|exact E]. apply (crel_trans _ _ (osame_trans f) _ _ C). apply (upd_crel _ comps1 cname sub1 sub' (osame_refl f) ND1 A1).
      pose proof (fix_signal_osame f sub1 s fx' W1) as X. rewrite FS in X. exact X. }
  apply (G entries comps (crel_refl _ _ (osame_refl f)) H). Qed.

(* the top-level statement: parity starts even, the string is the one in the file *)
Corollary fix_signal_top f o name fixed o' : sys_wf f o -> fix_signal f o name fixed = (o', FOk) ->
  run_leaves o (sig_leaves f o name false) fixed = (o', FOk).
Proof. intros W H. apply (fix_signal_is_leaf_fixes f o name false fixed fixed o' W eq_refl H). Qed.

(* non-vacuity: in the nested demo system the signal reaches one port, two levels down, through two starred bindings *)
Example demo_leaves : sig_leaves 12 demo_system "s" false = [(["m"; "g"]%string, RB "a" false, true, true)] /\
  exists o', fix_signal 12 demo_system "s" ["A"; "S"; "N"]%char = (o', FOk) /\ run_leaves demo_system (sig_leaves 12 demo_system "s" false) ["A"; "S"; "N"]%char = (o', FOk).
Proof. split; [reflexivity|]. eexists. split; vm_compute; reflexivity. Qed.

(* ---- entries addressed by a qualified name: instance-instance-...-name ---- *)
Lemma unchars_chars s : unchars (chars s) = s.
Proof. induction s as [|c s IH]; simpl; [reflexivity | rewrite IH; reflexivity]. Qed.
Lemma first_dash_split cn rest : ~ In "-"%char (chars cn) -> first_dash (cn +++ "-" +++ rest) = Some (cn, rest).
Proof. intros ND. unfold first_dash.
  assert (G : forall l acc r, ~ In "-"%char l ->
     (fix go (l : list ascii) (acc : list ascii) : option (string * string) :=
        match l with
        | [] => None
        | c :: r => if Ascii.eqb c "-"%char then Some (unchars (rev acc), unchars r) else go r (c :: acc)
        end) (l ++ "-"%char :: r) acc = Some (unchars (rev acc ++ l), unchars r)).
  { induction l as [|c l IH]; intros acc r NI; simpl.
    - rewrite app_nil_r. reflexivity.
    - destruct (Ascii.eqb c "-"%char) eqn:E; [apply Ascii.eqb_eq in E; subst c; exfalso; apply NI; left; reflexivity|].
      rewrite IH; [|intros C; apply NI; right; exact C]. simpl. rewrite <- app_assoc. reflexivity. }
  assert (CH : chars (cn +++ "-" +++ rest) = chars cn ++ "-"%char :: chars rest).
  { clear ND. induction cn as [|c cn IH]; simpl in *; [reflexivity|]. rewrite IH. reflexivity. }
  rewrite CH, (G (chars cn) [] (chars rest) ND). simpl. rewrite !unchars_chars. reflexivity. Qed.

Fixpoint qualify (path : list string) (n : string) : string :=
  match path with [] => n | cn :: r => cn +++ "-" +++ qualify r n end.

(* the path leads to a component instance *)
Fixpoint reaches (o : obj) (path : list string) : Prop :=
  match path with
  | [] => match o with OComp _ => True | _ => False end
  | cn :: r => match o with
               | OSys _ comps _ _ _ _ => match afind comps cn with Some sub => reaches sub r | None => False end
               | OComp _ => False end
  end.

(* with enough fuel for the path, a fix through a qualified name is the component-level operation applied at the instance
   the path leads to (instance names contain no '-') *)
Theorem fix_at_is_apply_at k : forall path f o n, List.length path < f -> Forall (fun cn => ~ In "-"%char (chars cn)) path -> reaches o path ->
  fix_at f o (qualify path n) k = apply_at o path (fun c => k c n).
Proof. induction path as [|cn path IH]; intros f o n HF ND R; (destruct f as [|f]; [simpl in HF; lia|]).
  - destruct o as [c|]; [reflexivity | destruct R].
  - inversion ND as [|? ? N1 N2]; subst. destruct o as [c|p comps sigs lens i oo]; [destruct R|].
    cbn [qualify fix_at apply_at reaches] in *. rewrite (first_dash_split cn (qualify path n) N1).
    destruct (afind comps cn) as [sub|]; [|destruct R]. rewrite (IH f sub n); [reflexivity | simpl in HF; lia | exact N2 | exact R]. Qed.
