(* C03, one component, the whole document: a nucleotide assignment satisfies the .des specification
   written for a component (every sequence template, and for every structure the base pairs of its
   target on the sequence list assigned to it) exactly when it satisfies the component's own
   templates and target structures read on the strands' nucleotides - no more and no fewer. *)
From Coq Require Import List String Ascii Arith Bool Lia.
From PC Require Import Base.Codes Comp.Syntax Comp.Compile Comp.Denote Comp.EmitProofs Comp.WfPil Comp.CompileProofs Design.Designer Sys.System Sys.Des Sys.DesProofs Sys.SignalProofs.
Import ListNotations.
Local Open Scope list_scope.

Definition allows (ch : ascii) (b : base) : Prop := match group ch with Some s => bmem b s = true | None => False end.

(* meaning of a .des document: sequences are named runs of nucleotides; a structure holds on the
   list of (possibly starred) sequences assigned to it *)
Definition des_env (doc : list dline) : penv :=
  flat_map (fun l => match l with DSeq n const => [(n, dom_nts n (List.length const))] | _ => [] end) doc.
Definition des_sat (v : valuation) (doc : list dline) : Prop :=
  (forall n const i ch, In (DSeq n const) doc -> nth_error const i = Some ch -> allows ch (v n i)) /\
  (forall n seqs s, In (DAssign n seqs) doc -> In (DStruct n s) doc ->
     exists X B, resolve_items (des_env doc) seqs = Some X /\ get_bonds s = OK B /\ sat_bonds v X B).

(* meaning of the component: templates of its sequences, target structures on its strands *)
Definition strands_nts (c : comp) (names : list string) : list nt :=
  flat_map (fun n => match afind (c_strands c) n with Some t => flatB c (s_base (t_sup t)) | None => [] end) names.
Definition src_sat (v : valuation) (c : comp) : Prop :=
  (forall n b i ch, In (n, b) (c_bases c) -> nth_error (b_const b) i = Some ch -> allows ch (v (c_prefix c +++ n) i)) /\
  (forall n u, In (n, u) (c_structs c) -> exists B, get_bonds (u_struct u) = OK B /\ sat_bonds v (strands_nts c (u_strands u)) B).

Lemma des_env_app a b : des_env (a ++ b) = des_env a ++ des_env b.
Proof. unfold des_env. apply flat_map_app. Qed.

Section One.
Variable c : comp.
Hypothesis W : WF c.
Hypothesis W2 : WF2 c.
Let P := c_prefix c.

Lemma des_env_structs (l : list (string * struc)) : des_env (map (fun '(n, u) => DStruct (P +++ n) (u_struct u)) l) = [].
Proof. induction l as [|[n u] l IH]; [reflexivity | exact IH]. Qed.
Lemma des_env_assigns (l : list (string * struc)) :
  des_env (flat_map (fun '(n, u) => DAssign (P +++ n) (emit_brefs c (struct_bases c u)) ::
                       (if Nat.eqb (u_opt u) 0 then [] else [DObjective (P +++ n) (u_opt u)])) l) = [].
Proof. induction l as [|[n u] l IH]; [reflexivity|]. simpl. rewrite des_env_app, IH. destruct (Nat.eqb (u_opt u) 0); reflexivity. Qed.
Lemma des_env_bases bs : (forall n b, In (n, b) bs -> List.length (b_const b) = b_len b) ->
  des_env (flat_map (fun '(n, b) => if Nat.eqb (b_len b) 0 then [] else [DSeq (P +++ n) (b_const b)]) bs) = env_bases c bs.
Proof. induction bs as [|[n b] bs IH]; intros H; [reflexivity|]. simpl. rewrite des_env_app, IH by (intros n' b' Hb; apply (H n'); right; exact Hb).
  destruct (Nat.eqb (b_len b) 0); [reflexivity|]. simpl. rewrite (H n b (or_introl eq_refl)). reflexivity. Qed.
Lemma des_env_comp : des_env (emit_des_comp c) = env_bases c (c_bases c).
Proof. unfold emit_des_comp. rewrite !des_env_app, des_env_structs, des_env_assigns, app_nil_r. simpl. apply des_env_bases. apply (wf_const c W). Qed.

(* the lines of the document *)
Lemma in_seq_line m const : In (DSeq m const) (emit_des_comp c) <-> exists n b, In (n, b) (c_bases c) /\ b_len b <> 0 /\ m = P +++ n /\ const = b_const b.
Proof. unfold emit_des_comp. rewrite !in_app_iff. split.
  - intros [H|[H|H]].
    + apply in_map_iff in H. destruct H as [[n u] [E _]]. discriminate.
    + apply in_flat_map in H. destruct H as [[n b] [Hin H]]. destruct (Nat.eqb_spec (b_len b) 0) as [Z|NZ]; [destruct H|]. destruct H as [H|[]]. inversion H. eauto 6.
    + apply in_flat_map in H. destruct H as [[n u] [_ H]]. destruct H as [H|H]; [discriminate|]. destruct (Nat.eqb (u_opt u) 0); [destruct H | destruct H as [H|[]]; discriminate].
  - intros [n [b [Hin [NZ [-> ->]]]]]. right. left. apply in_flat_map. exists (n, b). split; [exact Hin|]. destruct (Nat.eqb_spec (b_len b) 0); [contradiction | left; reflexivity]. Qed.
Lemma in_struct_line m s : In (DStruct m s) (emit_des_comp c) <-> exists n u, In (n, u) (c_structs c) /\ m = P +++ n /\ s = u_struct u.
Proof. unfold emit_des_comp. rewrite !in_app_iff. split.
  - intros [H|[H|H]].
    + apply in_map_iff in H. destruct H as [[n u] [E Hin]]. inversion E. eauto.
    + apply in_flat_map in H. destruct H as [[n b] [_ H]]. destruct (Nat.eqb (b_len b) 0); [destruct H | destruct H as [H|[]]; discriminate].
    + apply in_flat_map in H. destruct H as [[n u] [_ H]]. destruct H as [H|H]; [discriminate|]. destruct (Nat.eqb (u_opt u) 0); [destruct H | destruct H as [H|[]]; discriminate].
  - intros [n [u [Hin [-> ->]]]]. left. apply in_map_iff. exists (n, u). auto. Qed.
Lemma in_assign_line m seqs : In (DAssign m seqs) (emit_des_comp c) <-> exists n u, In (n, u) (c_structs c) /\ m = P +++ n /\ seqs = emit_brefs c (struct_bases c u).
Proof. unfold emit_des_comp. rewrite !in_app_iff. split.
  - intros [H|[H|H]].
    + apply in_map_iff in H. destruct H as [[n u] [E _]]. discriminate.
    + apply in_flat_map in H. destruct H as [[n b] [_ H]]. destruct (Nat.eqb (b_len b) 0); [destruct H | destruct H as [H|[]]; discriminate].
    + apply in_flat_map in H. destruct H as [[n u] [Hin H]]. destruct H as [H|H]; [inversion H; eauto|]. destruct (Nat.eqb (u_opt u) 0); [destruct H | destruct H as [H|[]]; discriminate].
  - intros [n [u [Hin [-> ->]]]]. right. right. apply in_flat_map. exists (n, u). split; [exact Hin | left; reflexivity]. Qed.

Lemma nodup_structs : NoDup (map fst (c_structs c)).
Proof. pose proof (wf2_structs c W2) as H. revert H. generalize (c_structs c) as l. intros l.
  assert (G : forall pre rest : list (string * struc), (forall pre' n u post, pre ++ rest = pre' ++ (n, u) :: post -> ~ In n (map fst pre')) -> NoDup (map fst rest) /\ True).
  { intros pre rest. revert pre. induction rest as [|[n u] rest IH]; intros pre H; [split; [constructor | exact I]|]. split; [|exact I]. simpl. constructor.
    - intros C. apply in_map_iff in C. destruct C as [[n' u'] [E Hin]]. simpl in E. subst n'. destruct (in_split _ _ Hin) as [r1 [r2 Er]].
      apply (H (pre ++ (n, u) :: r1) n u' r2); [rewrite Er, <- app_assoc; reflexivity|]. rewrite map_app. apply in_or_app. right. left. reflexivity.
    - apply (IH (pre ++ [(n, u)])). intros pre' n' u' post E. apply (H pre' n' u' post). rewrite <- E, <- app_assoc. reflexivity. }
  intros H. apply (G [] l). intros pre' n u post E. apply (H pre' n u post E). Qed.

Lemma struct_bases_declared u n : In (n, u) (c_structs c) -> forall x, In x (struct_bases c u) -> ahas (c_bases c) (fst x) = true.
Proof. intros _ x Hx. unfold struct_bases in Hx. apply in_flat_map in Hx. destruct Hx as [t [_ Hx]].
  destruct (afind (c_strands c) t) as [t'|] eqn:A; [|destruct Hx]. apply (so_bdef c _ _ (wf_strands c W t t' (afind_Some_In _ _ _ A)) x Hx). Qed.

Theorem des_comp_equiv v : des_sat v (emit_des_comp c) <-> src_sat v c.
Proof. unfold des_sat, src_sat. rewrite des_env_comp. split.
  - intros [T S]. split.
    + intros n b i ch Hin Hn. apply (T (P +++ n) (b_const b) i ch); [|exact Hn]. apply in_seq_line. exists n, b. split; [exact Hin|]. split; [|auto].
      intros Z. rewrite <- (wf_const c W n b Hin) in Z. destruct (b_const b); [destruct i; discriminate | discriminate].
    + intros n u Hin. destruct (S (P +++ n) (emit_brefs c (struct_bases c u)) (u_struct u)) as [X [B [R [GB SB]]]].
      * apply in_assign_line. eauto.
      * apply in_struct_line. eauto.
      * rewrite (assign_rereads c W _ (struct_bases_declared u n Hin)) in R. inversion R; subst X. rewrite struct_bases_concat in SB. exists B. auto.
  - intros [T S]. split.
    + intros m const i ch Hin Hn. apply in_seq_line in Hin. destruct Hin as [n [b [Hb [_ [-> ->]]]]]. apply (T n b i ch Hb Hn).
    + intros m seqs s HA HS. apply in_assign_line in HA. destruct HA as [n [u [Hin [-> ->]]]]. apply in_struct_line in HS. destruct HS as [n' [u' [Hin' [E ->]]]].
      apply append_inj in E. subst n'. assert (u' = u).
      { pose proof (afind_In _ _ _ nodup_structs Hin) as A1. pose proof (afind_In _ _ _ nodup_structs Hin') as A2. rewrite A1 in A2. inversion A2. reflexivity. }
      subst u'. destruct (S n u Hin) as [B [GB SB]]. exists (flatB c (struct_bases c u)), B.
      split; [apply (assign_rereads c W _ (struct_bases_declared u n Hin)) | split; [exact GB | rewrite struct_bases_concat; exact SB]]. Qed.
End One.

(* for every component the compiler accepts *)
Theorem compiled_des_equiv ctr prefix d body c ctr' : compile_comp ctr prefix d body = OK (c, ctr') ->
  forall v, des_sat v (emit_des_comp c) <-> src_sat v c.
Proof. intros COMP v. destruct (compile_comp_inv _ _ _ _ _ _ COMP) as [W [W2 _]]. apply (des_comp_equiv c W W2 v). Qed.
