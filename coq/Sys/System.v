(* Model of system composition (C02, C12 signals, C18): system_class.load_file over an
   abstract file table (importing directory first, then the include list; .sys/.comp
   ambiguity), system_parser.load_system (parameter binding, statement dispatch),
   System.add_import / add_component / add_IO, recursive emission (output_synthesis) and
   the fixed-sequence dispatch of compiler.compiler incl. fix_signal.
   A file is (kind, parameter names, body as s-expression with embedded expressions);
   decoding the body under the argument environment is its instantiation. *)
From Coq Require Import List String Ascii Arith Bool ZArith.
From PC Require Import Base.Sexp Base.Codes Comp.Syntax Comp.Compile Comp.Fix Subst.VarSubst Run.RC13 Run.RComp.
Import ListNotations.
Local Open Scope string_scope.
Local Open Scope list_scope.

Record fentry := { f_sys : bool; f_params : list string; f_body : sexp }.
Definition ftable := list (string * fentry).

Inductive loc := LRef (x : ref) | LSig (s : string).
Inductive obj :=
  | OComp (c : comp)
  | OSys (prefix : string) (comps : list (string * obj))
         (signals : list (string * list (loc * string * bool))) (lengths : list (string * nat))
         (ins outs : list (string * bool)).

(* ---- paths: os.path.join / dirname, compared after dropping "." segments ---- *)
Definition slash : ascii := "/"%char.
Fixpoint split_slash (l : list ascii) (cur : list ascii) : list (list ascii) :=
  match l with
  | [] => [rev cur]
  | c :: r => if Ascii.eqb c slash then rev cur :: split_slash r [] else split_slash r (c :: cur)
  end.
Fixpoint join_slash (ls : list (list ascii)) : list ascii :=
  match ls with [] => [] | [x] => x | x :: r => x ++ slash :: join_slash r end.
Definition path_join (a b : string) : string :=
  match b with
  | String c _ => if Ascii.eqb c slash then b else
                  (match rev (chars a) with
                   | d :: _ => if Ascii.eqb d slash then a +++ b else a +++ "/" +++ b
                   | [] => b end)
  | EmptyString => a
  end.
Definition dirname (p : string) : string :=
  match rev (split_slash (chars p) []) with
  | _ :: ((r1 :: _) as r) => let d := unchars (join_slash (rev r)) in
                           (match d with EmptyString => "/" | _ => d end)   (* "/x" -> "/" *)
  | _ => ""
  end.
Definition normalize (p : string) : string :=
  match split_slash (chars p) [] with
  | first :: rest =>
      let keep := filter (fun s => negb (match s with ["."%char] => true | [] => true | _ => false end)) rest in
      let first' := match first with ["."%char] => None | _ => Some first end in
      unchars (join_slash (match first' with Some f => f :: keep | None => keep end))
  | [] => p
  end.
Definition fs_find (fs : ftable) (p : string) : option fentry := afind fs (normalize p).

Fixpoint zip_env (names : list string) (args : list Z) : option env :=
  match names, args with
  | [], [] => Some []
  | n :: nr, a :: ar => option_map (fun e => e ++ [(n, a)]) (zip_env nr ar)   (* later names shadow: lookup scans from the head *)
  | _, _ => None
  end.

(* ---- statements of a system file, decoded under the parameter environment ---- *)
Inductive sstmt :=
  | SImport (l : list (string * option string))
  | SComponent (name templ : string) (args : list Z) (ins outs : list (string * bool)).

Definition d_sig (s : sexp) : option (string * bool) := dP dS dB s.
Definition d_arg (e : env) (s : sexp) : option Z :=
  match s with
  | Li [At "e"; x] => match d_expr 64 x with Some ex => eval e ex | None => None end
  | _ => dZ s
  end.
Definition d_sstmt (e : env) (s : sexp) : option sstmt :=
  match s with
  | Li [At "import"; l] => option_map SImport (dL (dP dS (dO dS)) l)
  | Li [At "component"; At name; At templ; args; ins; outs] =>
      match dL (d_arg e) args, dL d_sig ins, dL d_sig outs with
      | Some a, Some i, Some o => Some (SComponent name templ a i o) | _, _, _ => None end
  | _ => None
  end.

Definition last_segment (p : string) : string :=
  match rev (split_slash (chars p) []) with x :: _ => unchars x | [] => p end.

Definition obj_ports (o : obj) : nat * nat :=
  match o with
  | OComp c => (List.length (c_ins c), List.length (c_outs c))
  | OSys _ _ _ _ i o => (List.length i, List.length o)
  end.

Definition flip_if (b : bool) (x : ref) : ref := if b then rflip x else x.
Definition ref_rev (x : ref) : bool := match x with RB _ r => r | RS _ r => r end.
Definition ref_fwd (x : ref) : ref := match x with RB n _ => RB n false | RS n _ => RS n false end.

(* system_class.load_file's lookup: the importing directory first, then the include directories in
   order; the first directory holding name.sys or name.comp decides (both there = ambiguity error) *)
Fixpoint search_file (fs : ftable) (basename : string) (paths : list string) : res (string * fentry * string) :=
  match paths with
  | [] => Err "not-found"
  | p :: rest =>
      let bp := path_join p basename in
      match fs_find fs (bp +++ ".sys"), fs_find fs (bp +++ ".comp") with
      | Some _, Some _ => Err "ambiguous"
      | Some e, None => OK (bp, e, dirname bp)
      | None, Some e => OK (bp, e, dirname bp)
      | None, None => search_file fs basename rest
      end
  end.

Section Load.
Variable fs : ftable.
Variable includes : list string.

(* bind one (global signal, local port) pair *)
Definition bind_signal (sigs : list (string * list (loc * string * bool))) (lens : list (string * nat))
                       (glob : string) (entry : loc * string * bool) (len : nat) (dummy : bool)
  : res (list (string * list (loc * string * bool)) * list (string * nat)) :=
  match afind sigs glob with
  | None => if dummy then Err "dummy-signal" else OK (sigs ++ [(glob, [entry])], lens ++ [(glob, len)])
  | Some l =>
      match afind lens glob with
      | Some l0 => if Nat.eqb l0 len
                   then OK (map (fun '(k, v) => if String.eqb k glob then (k, v ++ [entry]) else (k, v)) sigs, lens)
                   else Err "signal-length"
      | None => Err "internal"
      end
  end.

(* the import statement: alias (or last path segment) -> path, duplicates rejected *)
Fixpoint imp_all (l : list (string * option string)) (templ : list (string * string)) : res (list (string * string)) :=
  match l with
  | [] => OK templ
  | (p, alias) :: lr =>
      let name := match alias with Some a => a | None => last_segment p end in
      if ahas templ name then Err "duplicate-import" else imp_all lr (templ ++ [(name, p)])
  end.

(* binding the ports of a component instance / of a sub-system instance to global signals *)
Fixpoint bind_comp (c : comp) (cname : string) (gs : list (string * bool)) (ls : list ref)
                   (sigs : list (string * list (loc * string * bool))) (lens : list (string * nat))
  : res (list (string * list (loc * string * bool)) * list (string * nat)) :=
  match gs, ls with
  | (g, gwc) :: gr, x :: lr =>
      let wc := xorb gwc (ref_rev x) in
      do sl <- bind_signal sigs lens g (LRef (ref_fwd x), cname, wc) (ref_len c x) (Nat.eqb (ref_len c x) 0);
      bind_comp c cname gr lr (fst sl) (snd sl)
  | _, _ => OK (sigs, lens)
  end.
Fixpoint bind_sys (ilens : list (string * nat)) (cname : string) (gs : list (string * bool)) (ls : list (string * bool))
                  (sigs : list (string * list (loc * string * bool))) (lens : list (string * nat))
  : res (list (string * list (loc * string * bool)) * list (string * nat)) :=
  match gs, ls with
  | (g, gwc) :: gr, (ln, lwc) :: lr =>
      let wc := xorb gwc lwc in
      match afind ilens ln with
      | Some len =>
          do sl <- bind_signal sigs lens g (LSig ln, cname, wc) len false;
          bind_sys ilens cname gr lr (fst sl) (snd sl)
      | None => Err "internal"
      end
  | _, _ => OK (sigs, lens)
  end.

(* the statements of a system body; [ld] loads a template (the recursive call of load_file) *)
Fixpoint run_stmts (ld : nat -> string -> list Z -> string -> string -> res (obj * nat)) (prefix new_path : string)
                   (stmts : list sstmt) (templ : list (string * string))
                   (comps : list (string * obj)) (sigs : list (string * list (loc * string * bool)))
                   (lens : list (string * nat)) (ctr : nat)
  : res (list (string * obj) * list (string * list (loc * string * bool)) * list (string * nat) * nat) :=
  match stmts with
  | [] => OK (comps, sigs, lens, ctr)
  | SImport l :: rest =>
      do templ' <- imp_all l templ; run_stmts ld prefix new_path rest templ' comps sigs lens ctr
  | SComponent cname tname cargs cins couts :: rest =>
      match afind templ tname with
      | None => Err "template-not-imported"
      | Some tpath =>
          if ahas comps cname then Err "duplicate-component" else
          do r <- ld ctr tpath cargs (prefix +++ cname +++ "-") new_path;
          let '(o, ctr') := r in
          let '(ni, no) := obj_ports o in
          if negb (Nat.eqb (List.length cins) ni && Nat.eqb (List.length couts) no) then Err "port-count" else
          let globs := cins ++ couts in
          do sl <- (match o with
              | OComp c => bind_comp c cname globs (map fst (c_ins c) ++ map fst (c_outs c)) sigs lens
              | OSys _ _ _ ilens iins iouts => bind_sys ilens cname globs (iins ++ iouts) sigs lens
              end);
          run_stmts ld prefix new_path rest templ (comps ++ [(cname, o)]) (fst sl) (snd sl) ctr'
      end
  end.

Fixpoint load_file (fuel : nat) (ctr : nat) (basename : string) (args : list Z) (prefix path : string)
  : res (obj * nat) :=
  match fuel with
  | O => Err "fuel"
  | S f =>
      do found <- search_file fs basename (path :: includes);
      let '(bp, entry, new_path) := found in
      match zip_env (f_params entry) args with
      | None => Err "arity"
      | Some e =>
          if negb (f_sys entry) then
            (* load_component *)
            match f_body entry with
            | Li [d; body] =>
                match d_declare d, dL (d_stmt_e e) body with
                | Some d, Some body =>
                    do r <- compile_comp ctr prefix d body; OK (OComp (fst r), snd r)
                | _, _ => Err "parse"
                end
            | _ => Err "parse"
            end
          else
            (* load_system *)
            match f_body entry with
            | Li [ins; outs; stmts] =>
                match dL d_sig ins, dL d_sig outs, dL (d_sstmt e) stmts with
                | Some sins, Some souts, Some stmts =>
                    do r <- run_stmts (load_file f) prefix new_path stmts [] [] [] [] ctr;
                    let '(comps, sigs, lens, ctr') := r in
                    if forallb (fun '(n, _) => ahas sigs n) (sins ++ souts)
                    then OK (OSys prefix comps sigs lens sins souts, ctr')
                    else Err "undefined-signal"
                | _, _, _ => Err "parse"
                end
            | _ => Err "parse"
            end
      end
  end.
End Load.

(* ---- System.output_synthesis ---- *)
Definition loc_name (prefix : string) (comps : list (string * obj)) (l : loc) (cname : string) : string :=
  match l with
  | LRef x => match afind comps cname with
              | Some (OComp c) => fst (ref_name c x)
              | _ => "?"
              end
  | LSig s => prefix +++ cname +++ "-" +++ s
  end.

Fixpoint emit_obj (fuel : nat) (o : obj) : list pline :=
  match fuel with
  | O => []
  | S f =>
      match o with
      | OComp c => emit_comp c
      | OSys prefix comps sigs lens _ _ =>
          flat_map (fun '(_, sub) => emit_obj f sub) comps ++
          flat_map (fun '(sname, entries) =>
              let len := match afind lens sname with Some l => l | None => 0 end in
              [PSeq (prefix +++ sname) (repeat "N"%char len) len;
               PEqual ((prefix +++ sname, false) :: map (fun '(l, cname, wc) => (loc_name prefix comps l cname, wc)) entries)]) sigs
      end
  end.

(* ---- fixed sequences on a (nested) system ---- *)
Definition first_dash (s : string) : option (string * string) :=
  (fix go (l : list ascii) (acc : list ascii) : option (string * string) :=
     match l with
     | [] => None
     | c :: r => if Ascii.eqb c "-"%char then Some (unchars (rev acc), unchars r) else go r (c :: acc)
     end) (chars s) [].

Definition set_comp_bases (c : comp) (bs : bases) : comp := set_bases c bs.

(* apply a component-level fix at the component the qualified name points into *)
Fixpoint fix_at (fuel : nat) (o : obj) (name : string) (k : comp -> string -> bases * fstatus) : obj * fstatus :=
  match fuel with
  | O => (o, FFail "fuel")
  | S f =>
      match o with
      | OComp c => let (bs, st) := k c name in (OComp (set_comp_bases c bs), st)
      | OSys prefix comps sigs lens i o' =>
          match first_dash name with
          | None => (o, FKey)
          | Some (cname, rest) =>
              match afind comps cname with
              | None => (o, FKey)
              | Some sub =>
                  let (sub', st) := fix_at f sub rest k in
                  (OSys prefix (map (fun '(n, x) => if String.eqb n cname then (n, sub') else (n, x)) comps) sigs lens i o', st)
              end
          end
      end
  end.

(* compiler.fix_signal *)
Fixpoint fix_signal (fuel : nat) (o : obj) (name : string) (fixed : list ascii) : obj * fstatus :=
  match fuel with
  | O => (o, FFail "fuel")
  | S f =>
      match o with
      | OComp _ => (o, FKey)
      | OSys prefix comps sigs lens i o' =>
          match afind sigs name with
          | None => (o, FKey)
          | Some entries =>
              (fix go (entries : list (loc * string * bool)) (comps : list (string * obj)) : obj * fstatus :=
                 match entries with
                 | [] => (OSys prefix comps sigs lens i o', FOk)
                 | (l, cname, wc) :: rest =>
                     match afind comps cname with
                     | None => (OSys prefix comps sigs lens i o', FFail "internal")
                     | Some sub =>
                         let r := match l, sub with
                                  | LSig s, _ => match (if wc then wc_codes fixed else Some fixed) with
                                                 | Some fx => fix_signal f sub s fx
                                                 | None => (sub, FKey) end
                                  | LRef x, OComp c =>
                                      let x' := match x with RB n _ => RB n wc | RS n _ => RS n wc end in
                                      let (bs, st) :=
                                        if negb (Nat.eqb (List.length fixed) (ref_len c x)) then (c_bases c, FFail "length")
                                        else fix_refs (S (S (List.length (c_sups c)))) c (c_bases c) [x'] fixed in
                                      (OComp (set_comp_bases c bs), st)
                                  | LRef _, _ => (sub, FFail "internal")
                                  end in
                     let (sub', st) := r in
                     let comps' := map (fun '(n, x) => if String.eqb n cname then (n, sub') else (n, x)) comps in
                     match st with
                     | FOk => go rest comps'
                     | other => (OSys prefix comps' sigs lens i o', other)
                     end
                     end
                 end) entries comps
          end
      end
  end.

Definition fix_entry (o : obj) (kind name : string) (fixed : list ascii) : obj * fstatus :=
  if is_prefix_of_word kind "sequence" then fix_at 12 o name (fun c n => fix_entry_comp c (c_bases c) "sequence" n fixed)
  else if is_prefix_of_word kind "signal" then
    match fix_signal 12 o name fixed with
    | (o', FKey) => (match o with
                     | OSys _ _ sigs _ _ _ => if ahas sigs name then (o', FFail "keyerror") else (o, FKey)
                     | OComp _ => (o, FKey) end)
    | r => r
    end
  else if String.eqb kind "strand" then fix_at 12 o name (fun c n => fix_entry_comp c (c_bases c) "strand" n fixed)
  else if String.eqb kind "structure" then fix_at 12 o name (fun c n => fix_entry_comp c (c_bases c) "structure" n fixed)
  else (o, FOk).

Fixpoint fix_all (o : obj) (entries : list (string * string * list ascii)) : res obj :=
  match entries with
  | [] => OK o
  | (kind, name, fixed) :: rest =>
      match fix_entry o kind name fixed with
      | (o', FOk) => fix_all o' rest
      | (o', FKey) => fix_all o' rest              (* warning only *)
      | (_, FFail k) => Err k
      end
  end.

(* compiler.compiler up to the .pil text *)
Definition compile_top (fs : ftable) (includes : list string) (ctr : nat) (basename : string) (args : list Z)
                       (fixed : list (string * string * list ascii)) : res (list pline * nat) :=
  do r <- load_file fs includes 12 ctr basename args "" ".";
  do o <- fix_all (fst r) fixed;
  OK (emit_obj 12 o, snd r).
