(* C16 at system level: the lines of the specification written for a (nested) system are exactly the lines of its
   component instances (each matching a pickled object, Hist/SaveLoad.v) plus, for every signal of every system in the
   tree, one sequence line of the recorded length and one `equal` line over its bindings. *)
From Coq Require Import List String Ascii Arith Bool.
From PC Require Import Base.Codes Comp.Syntax Comp.Compile Sys.System Sys.DesSys Design.SysFinish.
Import ListNotations.
Local Open Scope list_scope.

(* the systems of the tree: prefix, instances, signal table, lengths *)
Fixpoint systems (fuel : nat) (o : obj) : list (string * list (string * obj) * list (string * list (loc * string * bool)) * list (string * nat)) :=
  match fuel with
  | O => []
  | S f => match o with
           | OComp _ => []
           | OSys p comps sigs lens _ _ => (p, comps, sigs, lens) :: flat_map (fun cs => systems f (snd cs)) comps
           end
  end.

Definition signal_lines (p : string) (comps : list (string * obj)) (lens : list (string * nat)) (sname : string) (entries : list (loc * string * bool)) : list pline :=
  let len := match afind lens sname with Some l => l | None => 0 end in
  [PSeq (p +++ sname) (repeat "N"%char len) len;
   PEqual ((p +++ sname, false) :: map (fun '(l, cname, wc) => (loc_name p comps l cname, wc)) entries)].

Theorem system_lines_match_objects : forall f o l, In l (emit_obj f o) <->
  (exists c, In c (leaves f o) /\ In l (emit_comp c)) \/
  (exists p comps sigs lens sname entries, In (p, comps, sigs, lens) (systems f o) /\ In (sname, entries) sigs /\ In l (signal_lines p comps lens sname entries)).
Proof. induction f as [|f IH]; intros o l; [simpl; split; [intros [] | intros [[c [[] _]]|(p & comps & sigs & lens & sn & en & [] & _)]]|].
  destruct o as [c|p comps sigs lens i oo]; cbn [emit_obj leaves systems].
  - split; [intros H; left; exists c; split; [left; reflexivity | exact H] | intros [[c0 [[<-|[]] H]]|(p & comps & sigs & lens & sn & en & [] & _)]; exact H].
  - rewrite in_app_iff, !in_flat_map. split.
    + intros [[[cn sub] [Hin H]]|[[sn en] [Hin H]]].
      * apply IH in H. destruct H as [[c [Hc Hl]]|(p1 & comps1 & sigs1 & lens1 & sn & en & Hs & He & Hl)].
        -- left. exists c. split; [apply in_flat_map; exists (cn, sub); auto | exact Hl].
        -- right. exists p1, comps1, sigs1, lens1, sn, en. split; [right; apply in_flat_map; exists (cn, sub); auto | auto].
      * right. exists p, comps, sigs, lens, sn, en. split; [left; reflexivity | split; [exact Hin | exact H]].
    + intros [[c [Hc Hl]]|(p1 & comps1 & sigs1 & lens1 & sn & en & Hs & He & Hl)].
      * apply in_flat_map in Hc. destruct Hc as [[cn sub] [Hin Hc]]. left. exists (cn, sub). split; [exact Hin|]. apply IH. left. exists c. auto.
      * destruct Hs as [Q|Hs].
        -- inversion Q; subst. right. exists (sn, en). split; [exact He | exact Hl].
        -- apply in_flat_map in Hs. destruct Hs as [[cn sub] [Hin Hs]]. left. exists (cn, sub). split; [exact Hin|]. apply IH. right. exists p1, comps1, sigs1, lens1, sn, en. auto. Qed.
