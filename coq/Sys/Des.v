(* Model of the NUPACK .des back-end (C03): Component.output_nupack and System.output_nupack. *)
From Coq Require Import List String Ascii Arith Bool.
From PC Require Import Base.Sexp Comp.Syntax Comp.Compile Sys.System.
Import ListNotations.
Local Open Scope string_scope.
Local Open Scope list_scope.

Inductive dline :=
  | DStruct (name : string) (s : list sym)
  | DSeq (name : string) (const : list ascii)
  | DAssign (name : string) (seqs : list (string * bool))
  | DObjective (name : string) (opt : nat).

Definition bref_name (c : comp) (x : bref) : string * bool := (c_prefix c +++ fst x, snd x).
Definition emit_brefs (c : comp) (l : list bref) : list (string * bool) :=
  map (bref_name c) (filter (fun x => negb (Nat.eqb (base_len (c_bases c) (fst x)) 0)) l).

Definition struct_bases (c : comp) (u : struc) : list bref :=
  flat_map (fun n => match afind (c_strands c) n with Some t => s_base (t_sup t) | None => [] end) (u_strands u).

Definition emit_des_comp (c : comp) : list dline :=
  map (fun '(n, u) => DStruct (c_prefix c +++ n) (u_struct u)) (c_structs c) ++
  flat_map (fun '(n, b) => if Nat.eqb (b_len b) 0 then [] else [DSeq (c_prefix c +++ n) (b_const b)]) (c_bases c) ++
  flat_map (fun '(n, u) => DAssign (c_prefix c +++ n) (emit_brefs c (struct_bases c u)) ::
                           (if Nat.eqb (u_opt u) 0 then [] else [DObjective (c_prefix c +++ n) (u_opt u)])) (c_structs c).

Definition duplex (l : nat) : list sym := repeat Open l ++ Plus :: repeat Close l.

Fixpoint emit_des_obj (fuel : nat) (o : obj) : list dline :=
  match fuel with
  | O => []
  | S f =>
      match o with
      | OComp c => emit_des_comp c
      | OSys prefix comps sigs lens _ _ =>
          flat_map (fun '(_, sub) => emit_des_obj f sub) comps ++
          flat_map (fun (se : string * list (loc * string * bool)) => let '(sname, entries) := se in
              let len := match afind lens sname with Some l => l | None => 0 end in
              let sig := prefix +++ sname in
              let wcn := sig +++ "-_WC" in
              [DSeq sig (repeat "N"%char len); DSeq wcn (repeat "N"%char len);
               DStruct (sig +++ "-_Self") (duplex len); DAssign (sig +++ "-_Self") [(wcn, false); (sig, false)]] ++
              flat_map (fun (ent : loc * string * bool) => let '(l, cname, wc) := ent in
                  let '(sig_name, seqs) :=
                    match l with
                    | LSig s => (cname +++ "-" +++ s, [(prefix +++ cname +++ "-" +++ s, false)])
                    | LRef x =>
                        match afind comps cname with
                        | Some (OComp c) =>
                            match x with
                            | RB n r => (cname +++ "-" +++ n, [(c_prefix c +++ n, r)])
                            | RS n r => (cname +++ "-" +++ n, emit_brefs c (ref_base c x))
                            end
                        | _ => ("?", ([] : list (string * bool)))
                        end
                    end in
                  let dn := sig +++ "-" +++ sig_name in
                  [DStruct dn (duplex len); DAssign dn (((if wc then sig else wcn), false) :: seqs)]) entries) sigs
      end
  end.

Definition compile_des (fs : ftable) (includes : list string) (ctr : nat) (basename : string) (args : list BinNums.Z)
  : res (list dline * nat) :=
  do r <- load_file fs includes 12 ctr basename args "" ".";
  OK (emit_des_obj 12 (fst r), snd r).
