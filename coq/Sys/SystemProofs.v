(* C02 proofs on the system model: import resolution, argument binding, orientation of a
   signal binding, and instance prefixes of emitted names. *)
From Coq Require Import List String Ascii Arith Bool ZArith Lia.
From PC Require Import Base.Sexp Comp.Syntax Comp.Compile Comp.Denote Comp.EmitProofs Subst.VarSubst Sys.System.
Import ListNotations.
Local Open Scope list_scope.

Definition has_sys (fs : ftable) (d b : string) : bool := match fs_find fs (path_join d b +++ ".sys") with Some _ => true | None => false end.
Definition has_comp (fs : ftable) (d b : string) : bool := match fs_find fs (path_join d b +++ ".comp") with Some _ => true | None => false end.

(* Each import resolves to the FIRST directory (importing directory, then the include list in
   order) that holds name.sys or name.comp; if that directory holds both it is an error; if no
   directory holds either it is an error. *)
Theorem import_first_match fs b : forall paths,
  match search_file fs b paths with
  | OK (bp, e, d) =>
      exists pre p post, paths = pre ++ p :: post /\
        (forall q, In q pre -> has_sys fs q b = false /\ has_comp fs q b = false) /\
        xorb (has_sys fs p b) (has_comp fs p b) = true /\
        bp = path_join p b /\ d = dirname bp /\
        (fs_find fs (bp +++ ".sys") = Some e \/ fs_find fs (bp +++ ".comp") = Some e)
  | Err k =>
      (k = "ambiguous"%string /\ exists pre p post, paths = pre ++ p :: post /\
        (forall q, In q pre -> has_sys fs q b = false /\ has_comp fs q b = false) /\
        has_sys fs p b = true /\ has_comp fs p b = true)
      \/ (k = "not-found"%string /\ forall q, In q paths -> has_sys fs q b = false /\ has_comp fs q b = false)
  end.
Proof. induction paths as [|p rest IH]; simpl.
  - right. split; [reflexivity | intros q []].
  - unfold has_sys, has_comp in *.
    destruct (fs_find fs (path_join p b +++ ".sys")) as [e1|] eqn:E1;
    destruct (fs_find fs (path_join p b +++ ".comp")) as [e2|] eqn:E2.
    + left. split; [reflexivity|]. exists [], p, rest. split; [reflexivity|]. split; [intros q []|]. rewrite E1, E2. auto.
    + exists [], p, rest. split; [reflexivity|]. split; [intros q []|]. rewrite E1, E2. simpl. auto.
    + exists [], p, rest. split; [reflexivity|]. split; [intros q []|]. rewrite E1, E2. simpl. auto.
    + destruct (search_file fs b rest) as [[[bp e] d]|k].
      * destruct IH as [pre [p0 [post [A [B C]]]]]. exists (p :: pre), p0, post. split; [simpl; rewrite A; reflexivity|].
        split; [|exact C]. intros q [<-|Hq]; [rewrite E1, E2; auto | apply B, Hq].
      * destruct IH as [[K [pre [p0 [post [A [B C]]]]]]|[K H]].
        -- left. split; [exact K|]. exists (p :: pre), p0, post. split; [simpl; rewrite A; reflexivity|].
           split; [|exact C]. intros q [<-|Hq]; [rewrite E1, E2; auto | apply B, Hq].
        -- right. split; [exact K|]. intros q [<-|Hq]; [rewrite E1, E2; auto | apply H, Hq]. Qed.

(* Instance arguments reach the template unchanged: the environment binds the declared
   parameter names to the given values, in order; a different number of arguments is an error *)
Lemma lookup_app e1 e2 n : lookup (e1 ++ e2) n = match lookup e1 n with Some v => Some v | None => lookup e2 n end.
Proof. induction e1 as [|[k v] e1 IH]; simpl; [reflexivity|]. destruct (String.eqb k n); [reflexivity | exact IH]. Qed.
Lemma zip_env_notin : forall names args e n, zip_env names args = Some e -> ~ In n names -> lookup e n = None.
Proof. induction names as [|m names IH]; intros [|a args] e n H Hn; simpl in H; try discriminate.
  - inversion H. reflexivity.
  - destruct (zip_env names args) as [e'|] eqn:Z; [|discriminate]. inversion H; subst.
    rewrite lookup_app, (IH args e' n Z); [|intros X; apply Hn; right; exact X]. simpl.
    destruct (String.eqb m n) eqn:Q; [apply String.eqb_eq in Q; subst; exfalso; apply Hn; left; reflexivity | reflexivity]. Qed.

Theorem args_bound : forall names args e, zip_env names args = Some e ->
  List.length names = List.length args /\
  forall pre n post, names = pre ++ n :: post -> ~ In n post ->
    exists v, nth_error args (List.length pre) = Some v /\ lookup e n = Some v.
Proof. induction names as [|n0 names IH]; intros [|a0 args] e H; simpl in H; try discriminate.
  - inversion H. split; [reflexivity|]. intros [|x pre] n post E; discriminate.
  - destruct (zip_env names args) as [e'|] eqn:Z; [|discriminate]. inversion H; subst. clear H.
    destruct (IH args e' Z) as [L B]. split; [simpl; f_equal; exact L|].
    intros pre n post E Hn. destruct pre as [|x pre]; simpl in E; inversion E; subst.
    + exists a0. split; [reflexivity|]. rewrite lookup_app, (zip_env_notin _ _ _ _ Z Hn). simpl. rewrite String.eqb_refl. reflexivity.
    + destruct (B pre n post eq_refl Hn) as [v [A1 A2]]. exists v. split; [exact A1|]. rewrite lookup_app, A2. reflexivity. Qed.
Theorem args_arity : forall names args, List.length names <> List.length args -> zip_env names args = None.
Proof. induction names as [|n names IH]; intros [|a args] H; simpl in *; try reflexivity; try congruence.
  rewrite IH; [reflexivity | congruence]. Qed.

(* Orientation of a binding: the emitted item (sequence, star = bind XOR declaration) re-reads to the
   port as declared, reverse-complemented iff the binding is starred; i.e. equal when the stars agree *)
Definition rcb (b : bool) (v : list nt) : list nt := if b then rc v else v.
Theorem signal_parity env name v bind decl rest r : afind env name = Some v -> resolve_items env rest = Some r ->
  resolve_items env ((name, xorb bind decl) :: rest) = Some (rcb bind (rcb decl v) ++ r).
Proof. intros H R. simpl. rewrite H, R. unfold rcb. destruct bind, decl; simpl; rewrite ?rc_invol; reflexivity. Qed.

(* every name a component instance emits carries the instance's prefix *)
Definition line_names (l : pline) : list string :=
  match l with
  | PSeq n _ _ => [n] | PSup n _ _ => [n] | PStrand _ n _ _ => [n] | PStruct _ n _ _ => [n]
  | PKin _ _ _ _ => [] | PEqual _ => []
  end.
Theorem emit_comp_prefixed c : forall l n, In l (emit_comp c) -> In n (line_names l) -> exists m, n = c_prefix c +++ m.
Proof. intros l n H Hn. unfold emit_comp in H. repeat (apply in_app_or in H; destruct H as [H|H]).
  - apply in_flat_map in H. destruct H as [[m b] [_ H]]. destruct (Nat.eqb (b_len b) 0); [destruct H|].
    destruct H as [<-|[]]. destruct Hn as [<-|[]]. eauto.
  - apply in_flat_map in H. destruct H as [[m s] [_ H]]. destruct (Nat.eqb (s_len s) 0); [destruct H|].
    destruct H as [<-|[]]. destruct Hn as [<-|[]]. eauto.
  - apply in_map_iff in H. destruct H as [[m t] [<- _]]. destruct Hn as [<-|[]]. eauto.
  - apply in_map_iff in H. destruct H as [[m u] [<- _]]. destruct Hn as [<-|[]]. eauto.
  - apply in_map_iff in H. destruct H as [k [<- _]]. destruct Hn. Qed.

(* compilation keeps the prefix it was given *)
Lemma step_prefix cs s cs' : step cs s = OK cs' -> c_prefix (fst cs') = c_prefix (fst cs).
Proof. destruct cs as [c ctr]. destruct s; simpl.
  - destruct items as [|[ps| |] [|i2 items]]; simpl;
      try (unfold add_super_sequence; destruct (is_anon name); [discriminate|]; destruct (seq_defined c name); [discriminate|]; destruct (ahas (c_structs c) name); [discriminate|];
           destruct (clean_const c _) as [k|]; [|discriminate]; simpl;
           destruct (build_super c ctr k len) as [[[s a] ctr']|]; [|discriminate]; simpl; intros H; inversion H; reflexivity).
    unfold add_sequence. destruct (is_anon name); [discriminate|]. destruct (seq_defined c name); [discriminate|]. destruct (ahas (c_structs c) name); [discriminate|].
    destruct (Comp.Wild.get_length_const len ps); simpl; intros H; inversion H; reflexivity.
  - unfold add_strand. destruct (ahas (c_strands c) name); [discriminate|].
    destruct (clean_const c items) as [k|]; [|discriminate]. simpl.
    destruct (build_super c ctr k len) as [[[s a] ctr']|]; [|discriminate]. simpl.
    destruct (Nat.eqb (s_len s) 0); [discriminate|]. intros H. inversion H. reflexivity.
  - destruct (Comp.Struct.compile_snot s) as [s0|]; [|discriminate]. simpl. unfold add_structure.
    destruct (ahas (c_structs c) name); [discriminate|]. destruct (is_anon name); [discriminate|]. destruct (seq_defined c name); [discriminate|].
    destruct (find_strands c strands) as [ts|]; [|discriminate]. simpl.
    destruct (if domain then _ else _) as [s1|]; [|discriminate]. simpl.
    destruct (Comp.Struct.structure_ok s1 _); [|discriminate]. simpl. intros H. inversion H. reflexivity.
  - unfold add_kinetic. destruct (forallb _ ins && forallb _ outs); [|discriminate]. simpl. intros H. inversion H. reflexivity. Qed.
Lemma steps_prefix l : forall cs cs', steps cs l = OK cs' -> c_prefix (fst cs') = c_prefix (fst cs).
Proof. induction l as [|s l IH]; intros cs cs' H; simpl in H; [inversion H; reflexivity|].
  destruct (step cs s) as [cs1|] eqn:E; [|discriminate]. simpl in H. rewrite (IH _ _ H). apply (step_prefix _ _ _ E). Qed.
Theorem compile_comp_prefix ctr prefix d body c ctr' : compile_comp ctr prefix d body = OK (c, ctr') -> c_prefix c = prefix.
Proof. unfold compile_comp. destruct (steps (empty_comp prefix, ctr) body) as [cs|] eqn:E; [|discriminate]. simpl.
  unfold add_IO. destruct (resolve_ports (fst cs) (d_ins d)) as [i|]; [|discriminate]. simpl.
  destruct (resolve_ports (fst cs) (d_outs d)) as [o|]; [|discriminate]. simpl. intros H. inversion H; subst. simpl.
  apply (steps_prefix _ _ _ E). Qed.
